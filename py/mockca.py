"""Scriptable mock ACME CA (RFC 8555) for the correspondence runs.  Conforming by default;
`rules` inject faults at chosen request positions.  Every request and answer is logged with a
monotonic timestamp (same clock as the hook recorder), JWS decoded, signature verified through
vhelper (OpenSSL), nonce ledger kept."""
import base64
import json
import os
import socket
import ssl
import subprocess
import threading
import time
from http.server import BaseHTTPRequestHandler, ThreadingHTTPServer

import vlib


def b64u_dec(s):
    s = s + "=" * (-len(s) % 4)
    return base64.urlsafe_b64decode(s.encode())


def b64u(b):
    return base64.urlsafe_b64encode(b).decode().rstrip("=")


class Helper:
    """Persistent vhelper process (line protocol)."""

    def __init__(self):
        self.p = subprocess.Popen([vlib.HELPER], stdin=subprocess.PIPE, stdout=subprocess.PIPE,
                                  text=True, bufsize=1)
        self.lock = threading.Lock()

    def call(self, obj):
        with self.lock:
            self.p.stdin.write(json.dumps(obj) + "\n")
            self.p.stdin.flush()
            ln = self.p.stdout.readline()
        try:
            return json.loads(ln)
        except Exception:
            return {"err": "garbled: " + ln[:100]}

    def close(self):
        try:
            self.p.stdin.close()
            self.p.wait(timeout=5)
        except Exception:
            self.p.kill()


ERR = "urn:ietf:params:acme:error:"


def jwk_thumbprint(jwk):
    """RFC 7638 (SHA-256), computed independently of the code under test."""
    import hashlib
    req = {"RSA": ["e", "kty", "n"], "EC": ["crv", "kty", "x", "y"], "OKP": ["crv", "kty", "x"]}[jwk["kty"]]
    canon = json.dumps({k: jwk[k] for k in req}, separators=(",", ":"), sort_keys=True)
    return b64u(hashlib.sha256(canon.encode()).digest())


def jwk_kind(jwk):
    if not isinstance(jwk, dict):
        return "?"
    if jwk.get("kty") == "RSA":
        return "RSA"
    return jwk.get("crv", "?")


def key_authorization(token, jwk):
    return token + "." + jwk_thumbprint(jwk)


def chain_form(pem, form):
    """Other byte forms of the same PEM chain (all of them certificate chains for OpenSSL's reader; a client
    must store what it was served, byte for byte)."""
    if not form:
        return pem
    if form == "no-final-nl":
        return pem.rstrip("\n")
    if form == "double-nl":
        return pem + "\n"
    if form == "leading-nl":
        return "\n" + pem
    if form == "crlf":
        return pem.replace("\n", "\r\n")
    if form == "text-before":
        return "subject=CN = verif level 0\nissuer=CN = verif level 1\n" + pem
    if form == "text-between":
        return pem.replace("-----\n-----BEGIN", "-----\nissuer of the above\n-----BEGIN")
    if form == "wrap76":
        out = []
        for blk in pem.split("-----END CERTIFICATE-----\n"):
            if not blk.strip():
                continue
            head, _, body = blk.partition("-----BEGIN CERTIFICATE-----\n")
            b64 = body.replace("\n", "")
            out.append(head + "-----BEGIN CERTIFICATE-----\n" + "".join(b64[i:i + 76] + "\n" for i in range(0, len(b64), 76))
                       + "-----END CERTIFICATE-----\n")
        return "".join(out)
    raise ValueError("chain_form %r" % form)


class MockCA:
    def __init__(self, helper, rules=None, opts=None, tls=None):
        self.h = helper
        self.rules = list(rules or [])
        self.o = {
            "challenge_types": ["http-01", "dns-01", "tls-alpn-01"],
            "polls_before_valid": 0,      # authz polls answered "pending" before "valid"
            "order_polls_before_ready": 0,
            "order_polls_before_valid": 0,
            "chain_len": 2,
            "chain_root": False,          # True: the LAST certificate of a chain of 2 or more is self-signed (the CA
                                          # includes its root certificate); a list: one per issuance
            "url_host": None,
            "chain_order": "normal",   # "reversed": issuers first, end-entity last
            "order_ident_case": None,  # "upper": DNS names upper-cased in the order objects the CA serves
            "chain_pad": 0,       # > 0: that many extra names in every upper certificate (a BIG chain)
            "valid_secs": 90 * 86400,
            "authz_status": {},           # identifier value -> initial status
            "nonce_on_get": True,
            "strict": True,               # refuse bad nonces / signatures like a real CA
            "wildcard_style": "rfc",      # authz for *.x has identifier x and wildcard=true
            "orders_url": True,
            "cert_body": None,            # override the served certificate body
            "chain_sep": "",              # text between the certificates of the chain (Boulder: "\n")
            "chain_tail": "",             # text after the last certificate of the chain
            "delay_ms": 0,
            "chain_form": None,           # byte form of the served chain (see `chain_form`); a list: one per issuance
            "challenge_types_for": {},    # identifier value -> challenge types offered for THAT authorization
            "challenge_status_for": {},   # identifier value -> {challenge type: status that challenge object is CREATED with}
                                          # (RFC 8555 7.1.6: "processing" = answered earlier, validation not concluded; the
                                          # authorization itself stays pending unless `authz_status` says otherwise)
            "wildcard_false_explicit": False,   # non-wildcard authorizations say "wildcard": false
            "order_ident_order": None,    # "reversed": the order object lists the identifiers in reverse
            "order_ident_ip": None,       # "exploded": IPv6 identifiers of the order object fully written out
            "url_decor": "",              # text appended to every object URL the CA hands out (e.g. "?x=1&y=%2F")
            "same_leaf": None,            # a REPEATED order (same CSR public key, same names) gets the certificate issued for
                                          # the first one again (a duplicate request is not issued twice): "leaf" = that
                                          # end-entity certificate followed by the upper certificates made for THIS order
                                          # (other intermediates, `chain_len` of this order: the old leaf's signature then does
                                          # not chain to them — no concern of a client that stores what it is served);
                                          # "chain" = the upper certificates of the earlier orders too, as far as `chain_len`
                                          # of this order goes (more are made when it asks for more): with the same `chain_len`,
                                          # `chain_sep` and `chain_form` the body is byte-identical; a list: one per issuance
                                          # (`chain_sep` may be a list as well)
            "leaf_sans": None,            # a protocol-faultless issuance whose end-entity certificate carries the CSR's key
                                          # but a CHOSEN subjectAltName set (see `leaf_names`): "subset" (the last name
                                          # left out), "cn-only" (the name left out is the subject CN), "no-san" (no
                                          # extension at all, the first name as CN), "other-case" (the first DNS name in
                                          # upper case), "extra" (one more name), "reordered"; a list: one per issuance
            "valid_from_offset": None,    # notBefore of issued end-entity certificates, seconds relative to the CA's
                                          # "now" (default: one hour ago); > 0 = a CA whose clock runs ahead of the
                                          # client's / that does not back-date; a list: one per issuance
        }
        if opts:
            self.o.update(opts)
        self.tls = tls
        self.lock = threading.RLock()
        self.log = []
        self.seq = 0
        self.nonce_ctr = 0
        self.issued = []
        self.used = []
        self.accounts = {}      # url -> dict(jwk, alg, contacts, eab, status)
        self.by_thumb = {}      # canonical jwk json -> url
        self.orders = {}
        self.authzs = {}
        self.challs = {}
        self.certs = {}
        self.leaf_cache = {}    # (CSR public key, names) -> PEM blocks served for the first such order (`same_leaf`)
        self.leaf_reuse = []    # per issuance: None | {"mode", "reused": bool, "blocks_kept": n}
        self.kind_count = {}
        self.obj_ctr = 0
        self.forget_accounts = False
        self.validator = None     # callable(ca, authz, challenge, account_jwk) -> {"ok": bool, ...}
        self.srv = None
        self.base = None

    # ------------------------------------------------------------------ infrastructure
    def start(self):
        ca = self

        class H(BaseHTTPRequestHandler):
            protocol_version = "HTTP/1.0"

            def log_message(self, *a):
                pass

            def do_GET(self):
                ca.handle(self, "GET")

            def do_HEAD(self):
                ca.handle(self, "HEAD")

            def do_POST(self):
                ca.handle(self, "POST")

        self.srv = ThreadingHTTPServer(("127.0.0.1", 0), H)
        self.srv.daemon_threads = True
        host = "127.0.0.1"
        scheme = "http"
        if self.tls:
            ctx = ssl.SSLContext(ssl.PROTOCOL_TLS_SERVER)
            ctx.load_cert_chain(self.tls["cert"], self.tls["key"])
            self.srv.socket = ctx.wrap_socket(self.srv.socket, server_side=True)
            scheme = "https"
            host = self.tls.get("host", "localhost")
        self.port = self.srv.server_address[1]
        # `url_host`: how the CA spells its own host name in every URL it hands out (e.g. "Localhost": a
        # spelling a URL library would "canonicalise"; the client must give back exactly what it was given)
        host = self.o.get("url_host") or host
        self.base = "%s://%s:%d" % (scheme, host, self.port)
        self.th = threading.Thread(target=self.srv.serve_forever, kwargs={"poll_interval": 0.05},
                                   daemon=True)
        self.th.start()
        return self.base

    def stop(self):
        if self.srv:
            self.srv.shutdown()
            self.srv.server_close()

    def ev(self, **kw):
        with self.lock:
            self.seq += 1
            kw["seq"] = self.seq
            kw["t"] = time.monotonic_ns()
            self.log.append(kw)
            return kw

    def new_nonce(self):
        with self.lock:
            self.nonce_ctr += 1
            n = "nonce%d_%s" % (self.nonce_ctr, b64u(os.urandom(6)))
            self.issued.append(n)
            return n

    def url(self, path):
        return self.base + path + (self.o.get("url_decor") or "")

    def directory(self):
        return {"newNonce": self.url("/new-nonce"), "newAccount": self.url("/new-account"),
                "newOrder": self.url("/new-order"), "revokeCert": self.url("/revoke-cert"),
                "keyChange": self.url("/key-change"),
                "meta": {"termsOfService": self.url("/tos")}}

    def kind_of(self, method, path):
        if self.parse_redirected(path) is not None:
            return "redirected"       # a request arriving at a redirected-to location
        if path == "/directory":
            return "directory"
        if path == "/new-nonce":
            return "newNonce"
        if path == "/new-account":
            return "newAccount"
        if path == "/new-order":
            return "newOrder"
        if path == "/key-change":
            return "keyChange"
        for pre, k in (("/acct/", "account"), ("/authz/", "authz"), ("/chall/", "challenge"),
                       ("/order/", "order"), ("/finalize/", "finalize"), ("/cert/", "cert")):
            if path.startswith(pre):
                return k
        return "other"

    # ------------------------------------------------------------------ request handling
    def handle(self, rq, method):
        path = rq.path
        decor = self.o.get("url_decor") or ""
        if decor and path.endswith(decor):
            path = path[:-len(decor)]     # `url()` puts it back: the URL as issued is what a request must name
        kind = self.kind_of(method, path)
        raw = b""
        if method == "POST":
            ln = int(rq.headers.get("Content-Length", "0") or 0)
            raw = rq.rfile.read(ln) if ln else b""
        with self.lock:
            nth = self.kind_count.get(kind, 0)
            self.kind_count[kind] = nth + 1
            gidx = sum(self.kind_count.values()) - 1
        rec = {"kind": "req", "method": method, "path": path, "rk": kind, "nth": nth, "gidx": gidx,
               "ctype": rq.headers.get("Content-Type"), "accept": rq.headers.get("Accept"),
               "ua": rq.headers.get("User-Agent")}
        jws = None
        if method == "POST":
            jws = self.decode_jws(raw, rec)
        rec = self.ev(**rec)   # the logged object itself: later annotations (sig_ok, ...) land in the log
        if self.o["delay_ms"]:
            time.sleep(self.o["delay_ms"] / 1000.0)
        if kind == "redirected":
            return self.serve_redirected(rq, method, path, jws, rec)
        if jws is not None:
            self.annotate(jws, rec, path, kind == "newAccount")
        rule = self.match_rule(kind, nth, gidx, rec)
        if rule is not None:
            ans = dict(rule["answer"])
            rec["rule"] = rule.get("label", True)
            if ans.pop("forget_accounts", False):
                # the CA loses every account it knows just before it looks at this request
                with self.lock:
                    for a in self.accounts.values():
                        a["forgotten"] = True
            if ans.get("process"):
                # let the CA process the request normally, then override parts of the answer
                # ({"process": True, "drop": True} = processed by the CA, the answer never arrives)
                rec["processed"] = True
                base_ans = self.conform(kind, method, path, jws, rec)
                patch = ans.pop("patch", None)
                drop_keys = ans.pop("drop_keys", None)
                base_ans.update({k: v for k, v in ans.items() if k != "process"})
                if isinstance(base_ans.get("body"), dict):
                    if patch:
                        base_ans["body"] = dict(base_ans["body"], **patch)
                    for dk in (drop_keys or []):
                        base_ans["body"] = {k: v for k, v in base_ans["body"].items() if k != dk}
                ans = base_ans
        else:
            ans = self.conform(kind, method, path, jws, rec)
        self.send(rq, ans, rec, method)

    def match_rule(self, kind, nth, gidx, rec=None):
        with self.lock:
            for r in self.rules:
                if r.get("done"):
                    continue
                if "payload_contains" in r and r["payload_contains"] not in ((rec or {}).get("payload") or ""):
                    continue
                if "gidx" in r:
                    if r["gidx"] != gidx:
                        continue
                elif r.get("kind") != kind:
                    continue
                elif "nth" in r and r["nth"] != nth:
                    continue
                elif "from" in r and nth < r["from"]:
                    continue
                # `every`: only every k-th occurrence counted from `from` (offset `phase`); `order_has`: only
                # requests on an order / finalize URL whose order names an identifier containing the text
                if "every" in r and (nth - r.get("from", 0)) % r["every"] != r.get("phase", 0):
                    continue
                if "order_has" in r and not self.order_has(rec, r["order_has"]):
                    continue
                if r.get("times") is not None:
                    r["times"] -= 1
                    if r["times"] <= 0:
                        r["done"] = True
                elif "nth" in r or "gidx" in r:
                    r["done"] = True
                return r
        return None

    def order_has(self, rec, text):
        od = self.orders.get(((rec or {}).get("path") or "").split("/")[-1])
        return od is not None and text in json.dumps(od["identifiers"])

    def decode_jws(self, raw, rec):
        try:
            j = json.loads(raw.decode())
            rec["flat"] = sorted(j.keys()) == ["payload", "protected", "signature"]
            prot = json.loads(b64u_dec(j["protected"]).decode())
            payload_raw = b64u_dec(j["payload"])
            rec["hdr"] = prot
            rec["hdr_members"] = sorted(prot.keys())
            rec["payload"] = payload_raw.decode(errors="replace")
            rec["protected_b64"] = j["protected"]
            rec["payload_b64"] = j["payload"]
            rec["sig_b64"] = j["signature"]
            rec["sig_len"] = len(b64u_dec(j["signature"]))
            return {"prot": prot, "payload_raw": payload_raw, "j": j}
        except Exception as ex:
            rec["jws_error"] = str(ex)
            return None

    def verify(self, jws, jwk, alg):
        r = self.h.call({"op": "verify_jws", "jwk": jwk, "alg": alg,
                         "protected_b64": jws["j"]["protected"], "payload_b64": jws["j"]["payload"],
                         "sig_b64": jws["j"]["signature"]})
        return bool(r.get("valid")), r

    # ------------------------------------------------------------------ redirections
    # rule answer {"redirect": 301|302|303|307|308, "hops": k, "to": STYLE, "nonce": "fresh"|"none"} (any request
    # kind; "nonce": "none" = no answer of the chain carries a Replay-Nonce): the request is answered with that
    # status and a Location; the location redirects again, k
    # redirections in all (k = -1: for ever), and the last one serves the ORIGINAL resource.  Locations are
    # /redir/<status>/<style>/<hops left>/<original path>.  STYLE: "rel" an absolute-path reference, "relpath" a
    # relative-path reference (resolved against the URL that was answered), "abs" an absolute URL, "host" an
    # absolute URL naming the server by its other loopback name (127.0.0.1 <-> localhost); anything starting
    # with "/" or "http" is sent as it is (one hop).  Requests arriving at a redirected-to location are logged
    # with rk = "redirected", via = the kind of the original resource, hops_left; a POST arriving there is
    # decoded and judged like any other POST (its protected url cannot be the URL it arrived at).
    def parse_redirected(self, path):
        if not path.startswith("/redir/"):
            return None
        p = path.split("/", 5)
        if len(p) < 6 or not p[2].isdigit():
            return None
        left = -1 if p[4].startswith("inf") else int(p[4]) if p[4].isdigit() else 0
        return {"status": int(p[2]), "style": p[3], "left": left, "orig": "/" + p[5],
                "n": int(p[4][3:] or 0) if p[4].startswith("inf") else 0}

    def redirect_answer(self, ans, cur_path, orig, hop):
        status = int(ans.get("redirect", hop["status"] if hop else 302))
        if hop is None:
            style = ans.get("to", "rel")
            if ans.get("nonce", "fresh") == "none" and not (style.startswith("/") or style.startswith("http")):
                style += "-nn"          # the whole chain answers without Replay-Nonce
            hops = int(ans.get("hops", ans.get("times", 1)))
            left, n = (-1, 0) if hops < 0 else (hops - 1, 0)
        else:
            style = hop["style"]
            left, n = (-1, hop["n"] + 1) if hop["left"] < 0 else (hop["left"] - 1, 0)
        if style.startswith("/") or style.startswith("http"):
            loc = style
        else:
            target = "/redir/%d/%s/%s%s" % (status, style, ("inf%d" % n) if left < 0 else str(left), orig)
            kind = style.split("-")[0]
            if kind == "abs":
                loc = self.base + target
            elif kind == "host":
                a, b = ("127.0.0.1", "localhost") if "//127.0.0.1:" in self.base else (self.base.split("//")[1].split(":")[0], "127.0.0.1")
                loc = self.base.replace("//" + a + ":", "//" + b + ":", 1) + target
            elif kind == "relpath":
                loc = "../" * (cur_path.count("/") - 1) + target[1:]
            else:
                loc = target
        return {"status": status, "location": loc, "body": "redirected", "ctype": "text/plain",
                "nonce": "none" if style.endswith("-nn") else ans.get("nonce", "fresh"), "delay_ms": ans.get("delay_ms")}

    def serve_redirected(self, rq, method, path, jws, rec):
        hop = self.parse_redirected(path)
        via = self.kind_of(method, hop["orig"])
        rec.update({"via": via, "hops_left": hop["left"], "orig_path": hop["orig"]})
        if jws is not None:
            self.annotate(jws, rec, path, via == "newAccount")     # against the URL it ARRIVED at
        if hop["left"] != 0:
            ans = self.redirect_answer({}, path, hop["orig"], hop)
        else:
            ans = self.conform(via, method, hop["orig"], jws, rec)
        self.send(rq, ans, rec, method)

    def problem(self, status, typ, detail="mock"):
        if self.o.get("problem_style") == "minimal":      # RFC 7807: every member is optional
            return {"status": status, "ctype": "application/problem+json", "body": {"type": ERR + typ}}
        return {"status": status, "ctype": "application/problem+json",
                "body": {"type": ERR + typ, "detail": detail, "status": status}}

    def account_body(self, acc, url):
        """The account object as served.  `account_body: "boulder"`: like Boulder, no "contact" member when
        the list is empty, and members this client has no use for."""
        body = {"status": "valid", "contact": acc["contacts"]}
        if self.o.get("account_body") == "boulder":
            if not acc["contacts"]:
                del body["contact"]
            body.update({"key": acc["jwk"], "createdAt": "2024-01-01T00:00:00Z", "initialIp": "127.0.0.1"})
        return body

    def annotate(self, jws, rec, path, want_jwk):
        """What a conforming CA checks on a POST, recorded on the request whatever answer is served
        (rules may override the answer): nonce ledger, url binding, signature under the key on record."""
        if jws is None or rec.get("annotated"):
            return
        rec["annotated"] = True
        prot = jws["prot"]
        nonce = prot.get("nonce")
        with self.lock:
            rec["nonce_issued"] = nonce in self.issued
            rec["nonce_reused"] = nonce in self.used
            if nonce is not None:
                self.used.append(nonce)
        rec["url_ok"] = prot.get("url") == self.url(path)
        if want_jwk:
            jwk = prot.get("jwk")
            if jwk is not None:
                ok, _ = self.verify(jws, jwk, prot.get("alg"))
                rec["sig_ok"] = ok
                rec["signer"] = "jwk"
                rec["key_kind"] = jwk_kind(jwk)
            return
        kid = prot.get("kid")
        rec["kid"] = kid
        with self.lock:
            acc = self.accounts.get(kid)
        if acc is None:
            return
        rec["kid_ok"] = True
        rec["account_forgotten"] = bool(acc.get("forgotten"))
        ok, _ = self.verify(jws, acc["jwk"], prot.get("alg"))
        rec["sig_ok"] = ok
        rec["signer"] = "account-key-on-record"
        rec["alg_on_record"] = acc["alg"]
        rec["jwk_on_record"] = acc["jwk"]      # (the object is replaced, never mutated, by a roll-over)
        rec["key_kind"] = jwk_kind(acc["jwk"])

    def check_post(self, jws, rec, path, want_jwk):
        """Common POST validation of a conforming CA.  Returns (account_url|None, problem|None)."""
        if jws is None:
            return None, self.problem(400, "malformed", "not a JWS")
        self.annotate(jws, rec, path, want_jwk)
        prot = jws["prot"]
        fresh = rec.get("nonce_issued") and not rec.get("nonce_reused")
        if self.o["strict"] and not fresh:
            return None, self.problem(400, "badNonce", "bad nonce")
        if self.o["strict"] and not rec["url_ok"]:
            return None, self.problem(401, "unauthorized", "url mismatch")
        if want_jwk:
            if prot.get("jwk") is None:
                return None, self.problem(400, "malformed", "jwk required")
            if self.o["strict"] and not rec.get("sig_ok"):
                return None, self.problem(401, "unauthorized", "bad signature")
            return None, None
        kid = prot.get("kid")
        with self.lock:
            acc = self.accounts.get(kid)
        if acc is None or acc.get("forgotten"):
            return None, self.problem(400, "accountDoesNotExist", "unknown account")
        if self.o["strict"] and not rec.get("sig_ok"):
            return None, self.problem(401, "unauthorized", "signature does not verify under the key on record")
        return kid, None

    def conform(self, kind, method, path, jws, rec):
        o = self.o
        if kind == "directory":
            a = {"status": 200, "body": self.directory()}
            if not o["nonce_on_get"]:
                a["nonce"] = "none"
            return a
        if kind == "newNonce":
            return {"status": 204 if method == "HEAD" else 200, "body": ""}
        if kind == "other":
            return {"status": 404, "body": "not found", "ctype": "text/plain"}
        if method != "POST":
            return self.problem(405, "malformed", "POST required")
        if kind == "newAccount":
            _, prob = self.check_post(jws, rec, path, True)
            if prob:
                return prob
            prot = jws["prot"]
            try:
                payload = json.loads(jws["payload_raw"].decode() or "{}")
            except Exception:
                return self.problem(400, "malformed", "payload")
            eab = payload.get("externalAccountBinding")
            if isinstance(eab, dict):
                try:
                    eprot = json.loads(b64u_dec(eab["protected"]).decode())
                    epay = json.loads(b64u_dec(eab["payload"]).decode())
                    mac_key = (self.o.get("eab_keys") or {}).get(eprot.get("kid"))
                    mac_ok = False
                    if mac_key is not None:
                        r = self.h.call({"op": "hmac", "alg": eprot.get("alg"), "key_hex": b64u_dec(mac_key).hex(),
                                         "msg_hex": (eab["protected"] + "." + eab["payload"]).encode().hex()})
                        mac_ok = r.get("mac_hex") == b64u_dec(eab["signature"]).hex()
                    rec["eab"] = {"flat": sorted(eab.keys()) == ["payload", "protected", "signature"],
                                  "hdr_members": sorted(eprot.keys()), "alg": eprot.get("alg"), "key_kind": "oct",
                                  "url_ok": eprot.get("url") == self.url(path), "kid_ok": mac_key is not None,
                                  "sig_ok": mac_ok, "sig_len": len(b64u_dec(eab["signature"])),
                                  "payload_is_account_jwk": json.dumps(epay, sort_keys=True) == json.dumps(prot["jwk"], sort_keys=True)}
                except Exception as ex:
                    rec["eab"] = {"error": str(ex)}
            key_id = json.dumps(prot["jwk"], sort_keys=True)
            with self.lock:
                url = self.by_thumb.get(key_id)
                existing = url is not None and not self.accounts[url].get("forgotten")
                if not existing:
                    self.obj_ctr += 1
                    url = self.url("/acct/%d" % self.obj_ctr)
                    self.accounts[url] = {"jwk": prot["jwk"], "alg": prot.get("alg"),
                                          "contacts": payload.get("contact", []),
                                          "eab": payload.get("externalAccountBinding"),
                                          "tos": payload.get("termsOfServiceAgreed"),
                                          "created_seq": self.seq, "updates": 0, "rollovers": 0}
                    self.by_thumb[key_id] = url
                acc = self.accounts[url]
            rec["account_created"] = not existing
            body = self.account_body(acc, url)
            if o["orders_url"]:
                body["orders"] = url + "/orders"
            return {"status": 200 if existing else 201, "body": body, "location": url}
        if kind == "keyChange":
            kid, prob = self.check_post(jws, rec, path, False)
            if prob:
                return prob
            try:
                inner = json.loads(jws["payload_raw"].decode())
                iprot = json.loads(b64u_dec(inner["protected"]).decode())
                ipay = json.loads(b64u_dec(inner["payload"]).decode())
            except Exception:
                return self.problem(400, "malformed", "inner JWS")
            rec["inner_hdr"] = iprot
            rec["inner_payload"] = ipay
            ok, _ = self.verify({"j": inner}, iprot.get("jwk"), iprot.get("alg"))
            rec["inner_sig_ok"] = ok
            rec["inner"] = {"flat": sorted(inner.keys()) == ["payload", "protected", "signature"],
                            "hdr_members": sorted(iprot.keys()), "alg": iprot.get("alg"),
                            "key_kind": jwk_kind(iprot.get("jwk")), "url_ok": iprot.get("url") == self.url(path),
                            "sig_ok": ok, "sig_len": len(b64u_dec(inner["signature"]))}
            with self.lock:
                acc = self.accounts[kid]
                old_ok = json.dumps(ipay.get("oldKey"), sort_keys=True) == json.dumps(acc["jwk"], sort_keys=True)
            rec["old_key_matches_record"] = old_ok
            rec["inner_url_ok"] = iprot.get("url") == self.url(path)
            rec["inner_account_ok"] = ipay.get("account") == kid
            if o["strict"] and not (ok and old_ok and rec["inner_url_ok"] and rec["inner_account_ok"]
                                    and "nonce" not in iprot):
                return self.problem(401, "unauthorized", "key change refused")
            with self.lock:
                old_id = json.dumps(acc["jwk"], sort_keys=True)
                self.by_thumb.pop(old_id, None)
                acc["jwk"] = iprot["jwk"]
                acc["alg"] = iprot.get("alg")
                acc["rollovers"] += 1
                self.by_thumb[json.dumps(acc["jwk"], sort_keys=True)] = kid
            return {"status": 200, "body": self.account_body(acc, kid)}
        kid, prob = self.check_post(jws, rec, path, False)
        if prob:
            return prob
        payload_raw = jws["payload_raw"]
        if kind == "account":
            if self.url(path) != kid:
                return self.problem(401, "unauthorized", "not your account")
            try:
                payload = json.loads(payload_raw.decode() or "{}")
            except Exception:
                return self.problem(400, "malformed", "payload")
            with self.lock:
                acc = self.accounts[kid]
                if "contact" in payload:
                    acc["contacts"] = payload["contact"]
                    acc["updates"] += 1
            return {"status": 200, "body": self.account_body(acc, kid)}
        if kind == "newOrder":
            try:
                payload = json.loads(payload_raw.decode())
                ids = payload["identifiers"]
            except Exception:
                return self.problem(400, "malformed", "payload")
            with self.lock:
                self.obj_ctr += 1
                oid = str(self.obj_ctr)
                authz_urls = []
                for ident in ids:
                    aid = self.reusable_authz(kid, ident) if o.get("reuse_pending_authz") else None
                    if aid is not None:
                        rec.setdefault("authz_reused", []).append(aid)
                        authz_urls.append(self.url("/authz/" + aid))
                        continue
                    self.obj_ctr += 1
                    aid = str(self.obj_ctr)
                    val = ident["value"]
                    wildcard = ident["type"] == "dns" and val.startswith("*.")
                    shown = val[2:] if (wildcard and o["wildcard_style"] == "rfc") else val
                    challs = []
                    for ct in o.get("challenge_types_for", {}).get(val, o["challenge_types"]):
                        if wildcard and ct != "dns-01" and o.get("wildcard_dns_only", False):
                            continue
                        self.obj_ctr += 1
                        cid = str(self.obj_ctr)
                        tok = b64u(os.urandom(16))
                        self.challs[cid] = {"authz": aid, "type": ct, "token": tok,
                                            "status": (o.get("challenge_status_for") or {}).get(val, {}).get(ct, "pending")}
                        challs.append(cid)
                    self.authzs[aid] = {"identifier": {"type": ident["type"], "value": shown},
                                        "wildcard": wildcard, "order": oid, "challs": challs,
                                        "status": o["authz_status"].get(val, "pending"), "polls": 0,
                                        "orig": val}
                    authz_urls.append(self.url("/authz/" + aid))
                if o.get("authz_order") == "reversed":
                    authz_urls.reverse()
                self.orders[oid] = {"identifiers": ids, "authz": authz_urls, "status": "pending",
                                    "account": kid, "polls_ready": 0, "polls_valid": 0, "cert": None,
                                    "csr": None}
            rec["oid"] = oid
            return {"status": 201, "body": self.order_body(oid), "location": self.url("/order/" + oid)}
        if kind == "authz":
            aid = path.split("/")[-1]
            self.async_poll(aid)   # no-op unless opts validate_after_polls / validate_delay_s
            with self.lock:
                a = self.authzs.get(aid)
                if a is None:
                    return self.problem(404, "malformed", "no such authz")
                if a["status"] == "processing" and not a.get("async"):
                    if a["polls"] >= o["polls_before_valid"]:
                        a["status"] = "valid"
                        for c in a["challs"]:
                            if self.challs[c]["status"] == "processing":
                                self.challs[c]["status"] = "valid"
                    else:
                        a["polls"] += 1
                return {"status": 200, "body": self.authz_body(aid)}
        if kind == "challenge":
            cid = path.split("/")[-1]
            with self.lock:
                c = self.challs.get(cid)
                if c is None:
                    return self.problem(404, "malformed", "no such challenge")
                a = self.authzs[c["authz"]]
                rec["challenge_type"] = c["type"]
                rec["challenge_ident"] = a["orig"]
                acct_jwk = self.accounts[kid]["jwk"]
            if self.async_on():
                return self.async_begin(cid, c, a, acct_jwk, rec)
            # validating mode: a conforming CA checks the proof now (outside the lock: it may block)
            verdict = None
            if self.validator is not None:
                try:
                    verdict = self.validator(self, a, c, acct_jwk)
                except Exception as ex:   # a crashing validator must not look like a CA fault
                    verdict = {"ok": False, "error": "validator: %r" % ex}
                rec["validation"] = verdict
            with self.lock:
                if verdict is not None and not verdict.get("ok"):
                    c["status"] = "invalid"
                    a["status"] = "invalid"
                else:
                    if c["status"] != "valid":     # (a ready POST never takes a challenge BACK; processing stays processing)
                        c["status"] = "processing"
                    if a["status"] == "pending":
                        a["status"] = "processing"
                return {"status": 200, "body": self.chall_body(cid)}
        if kind == "order":
            oid = path.split("/")[-1]
            with self.lock:
                od = self.orders.get(oid)
                if od is None:
                    return self.problem(404, "malformed", "no such order")
                self.refresh_order(oid)
                return {"status": 200, "body": self.order_body(oid)}
        if kind == "finalize":
            oid = path.split("/")[-1]
            try:
                payload = json.loads(payload_raw.decode())
                csr = payload["csr"]
            except Exception:
                return self.problem(400, "malformed", "payload")
            with self.lock:
                od = self.orders.get(oid)
                if od is None:
                    return self.problem(404, "malformed", "no such order")
                self.refresh_order(oid)
                if od["status"] != "ready":
                    return self.problem(403, "orderNotReady", "order is " + od["status"])
                od["csr"] = csr
                rec["csr_b64"] = csr
                od["status"] = "processing"
                self.refresh_order(oid)
                return {"status": 200, "body": self.order_body(oid)}
        if kind == "cert":
            cid = path.split("/")[-1]
            with self.lock:
                pem = self.certs.get(cid)
            if pem is None:
                return self.problem(404, "malformed", "no such certificate")
            if o["cert_body"] is not None:
                pem = o["cert_body"]
            rec["served_cert"] = pem
            return {"status": 200, "body": pem, "ctype": "application/pem-certificate-chain"}
        return self.problem(404, "malformed", "unknown")

    def refresh_order(self, oid):
        od = self.orders[oid]
        o = self.o
        if od["status"] == "pending":
            dl = len(o.get("url_decor") or "")
            sts = [self.authzs[(u[:-dl] if dl else u).split("/")[-1]]["status"] for u in od["authz"]]
            if all(s == "valid" for s in sts):
                if od["polls_ready"] >= o["order_polls_before_ready"]:
                    od["status"] = "ready"
                else:
                    od["polls_ready"] += 1
            elif any(s in ("invalid", "deactivated", "expired", "revoked") for s in sts):
                od["status"] = "invalid"
        elif od["status"] == "processing":
            if od["polls_valid"] >= o["order_polls_before_valid"]:
                nth = len(self.certs)
                pick = lambda v: (v[min(nth, len(v) - 1)] if isinstance(v, list) else v)   # noqa: E731
                req = {"op": "issue", "csr_b64": od["csr"], "chain_len": pick(o["chain_len"]),
                       "valid_secs": o["valid_secs"], "pad": pick(o.get("chain_pad", 0))}
                if pick(o.get("chain_root")):
                    req["chain_root"] = True
                req.update(self.leaf_names(od, pick(o.get("leaf_sans"))))
                if pick(o.get("valid_from_offset")) is not None:
                    req["not_before_offset"] = int(pick(o["valid_from_offset"]))
                r = self.h.call(req)
                if "pem" in r:
                    self.obj_ctr += 1
                    cid = str(self.obj_ctr)
                    pem = self.same_leaf(od["csr"], r["pem"], pick(o.get("same_leaf")))
                    if o.get("chain_order") == "reversed":
                        # the issuing certificates FIRST, the end-entity certificate last (RFC 8555 §9.1
                        # demands the end-entity certificate first: a client must not install this)
                        blocks = [b + "-----END CERTIFICATE-----\n" for b in pem.split("-----END CERTIFICATE-----\n") if b.strip()]
                        pem = "".join(reversed(blocks))
                    self.certs[cid] = pem.replace("-----\n-----BEGIN", "-----\n" + pick(o["chain_sep"]) + "-----BEGIN") + o.get("chain_tail", "")
                    self.certs[cid] = chain_form(self.certs[cid], pick(o.get("chain_form")))
                    od["cert"] = self.url("/cert/" + cid)
                    od["status"] = "valid"
                else:
                    od["status"] = "invalid"
                    od["error"] = {"type": ERR + "badCSR", "detail": str(r.get("err"))}
            else:
                od["polls_valid"] += 1

    def leaf_names(self, od, mode):
        """Option `leaf_sans`: the vhelper `issue` overrides (dns / ips / cn) for this order; logged as an `issued`
        event so that a scenario can tell that the chosen names were really served."""
        if not mode:
            return {}
        dns = [i["value"] for i in od["identifiers"] if i.get("type") == "dns"]
        ips = [i["value"] for i in od["identifiers"] if i.get("type") == "ip"]
        out = {"dns": list(dns), "ips": list(ips)}
        if mode == "subset":
            out["dns"] = dns[:-1]
        elif mode == "cn-only":
            out["dns"] = dns[:-1]
            if dns:
                out["cn"] = dns[-1][:64]
        elif mode == "no-san":
            out["dns"], out["ips"] = [], []
            if dns:
                out["cn"] = dns[0][:64]
        elif mode == "other-case":
            out["dns"] = [dns[0].upper()] + dns[1:] if dns else []
        elif mode == "extra":
            out["dns"] = dns + ["extra-name.verif.invalid"]
        elif mode == "reordered":
            out["dns"] = list(reversed(dns))
        else:
            raise ValueError("leaf_sans %r" % (mode,))
        self.ev(kind="issued", leaf_sans=mode, dns=out["dns"], ips=out["ips"], cn=out.get("cn"))
        return out

    def same_leaf(self, csr_b64, pem, mode):
        """Option `same_leaf`: the chain to serve for this order, given the chain just made for it."""
        if not mode:
            self.leaf_reuse.append(None)
            return pem
        c = self.h.call({"op": "parse_csr", "csr_b64": csr_b64})
        key = (c.get("pub_der_hex"), tuple(sorted(c.get("dns") or [])), tuple(sorted(c.get("ip_hex") or [])))
        end = "-----END CERTIFICATE-----\n"
        blocks = [b + end for b in pem.split(end) if b.strip()]
        old = self.leaf_cache.get(key)
        if old is None or key[0] is None:
            self.leaf_cache[key] = blocks
            self.leaf_reuse.append({"mode": mode, "reused": False, "blocks_kept": 0})
            return pem
        keep = 1 if mode == "leaf" else min(len(old), len(blocks))
        blocks[:keep] = old[:keep]
        if mode != "leaf" and len(blocks) > len(old):
            self.leaf_cache[key] = list(blocks)
        self.leaf_reuse.append({"mode": mode, "reused": True, "blocks_kept": keep})
        return "".join(blocks)

    def order_body(self, oid):
        od = self.orders[oid]
        idents = od["identifiers"]
        if self.o.get("order_ident_case") == "upper":
            # a CA may spell the names of ITS order object differently from the request (DNS is
            # case-insensitive): the client's CSR must still carry the CONFIGURED names
            idents = [dict(i, value=i["value"].upper()) if i.get("type") == "dns" else i for i in idents]
        if self.o.get("order_ident_ip") == "exploded":
            import ipaddress
            idents = [dict(i, value=ipaddress.ip_address(i["value"]).exploded) if i.get("type") == "ip" else i for i in idents]
        if self.o.get("order_ident_order") == "reversed":
            idents = list(reversed(idents))
        b = {"status": od["status"], "identifiers": idents, "authorizations": od["authz"],
             "finalize": self.url("/finalize/" + oid), "expires": "2099-01-01T00:00:00Z"}
        if od.get("cert"):
            b["certificate"] = od["cert"]
        if od.get("error"):
            b["error"] = od["error"]
        return b

    def chall_body(self, cid):
        c = self.challs[cid]
        return {"type": c["type"], "url": self.url("/chall/" + cid), "status": c["status"],
                "token": c["token"]}

    def authz_body(self, aid):
        a = self.authzs[aid]
        # RFC 8555 7.1.6: an authorization has no "processing" state; it stays "pending" while its
        # challenge is being validated
        shown = "pending" if a["status"] == "processing" else a["status"]
        b = {"identifier": a["identifier"], "status": shown, "expires": "2099-01-01T00:00:00Z",
             "challenges": [self.chall_body(c) for c in a["challs"]]}
        if self.o.get("challenge_order") == "reversed":
            b["challenges"].reverse()
        if a["wildcard"]:
            b["wildcard"] = True
        elif self.o.get("wildcard_false_explicit"):
            b["wildcard"] = False
        return b

    def reusable_authz(self, kid, ident):
        """Option `reuse_pending_authz` (RFC 8555 leaves it to the server; Boulder did it for years): a new order gets,
        for an identifier the SAME account already holds an authorization for that is still served as "pending" (no
        verdict yet, whether or not a challenge was answered), that authorization AGAIN — same URL, same challenges, same
        tokens — instead of a new one.  Returns its id (the newest such authorization) or None."""
        for aid in sorted(self.authzs, key=int, reverse=True):
            a = self.authzs[aid]
            od = self.orders.get(a["order"])
            if od is not None and od["account"] == kid and a["orig"] == ident.get("value") \
                    and a["identifier"]["type"] == ident.get("type") and a["status"] in ("pending", "processing"):
                return aid
        return None

    # ------------------------------------------------------------------ asynchronous validation
    # opts["validate_after_polls"] = k: the challenge POST is answered "processing" at once and the
    # validator runs when the authorization is polled for the k-th time (inside that poll's handler);
    # opts["validate_delay_s"] = x: a background thread runs the validator x seconds after the POST was
    # answered, while the client polls.  The code under test polls WITHOUT pausing in the hooked build
    # (20 tries): while such a validation is in progress every poll is held a little (0.1 s for the first
    # five polls, 1.5 s afterwards, cut short as soon as the verdict is there).  Both unset: nothing changes.
    def async_on(self):
        return self.validator is not None and bool(self.o.get("validate_after_polls")
                                                   or self.o.get("validate_delay_s"))

    def async_begin(self, cid, c, a, acct_jwk, rec):
        with self.lock:
            c["status"] = "processing"
            start = False
            if a["status"] == "pending":
                a["status"] = "processing"
                a["async"] = {"cid": cid, "jwk": acct_jwk, "polls": 0, "state": "waiting", "rec": rec,
                              "done": threading.Event()}
                start = bool(self.o.get("validate_delay_s"))
            body = self.chall_body(cid)
        rec["validation"] = {"deferred": True}
        if start:
            threading.Thread(target=self.async_validate, args=(a, float(self.o["validate_delay_s"])),
                             daemon=True).start()
        return {"status": 200, "body": body}

    def async_validate(self, a, delay=0.0):
        st = a["async"]
        with self.lock:
            if st["state"] != "waiting":
                return
            st["state"] = "running"
        if delay:
            time.sleep(delay)
        c = self.challs[st["cid"]]
        try:
            verdict = self.validator(self, a, c, st["jwk"])
        except Exception as ex:   # a crashing validator must not look like a CA fault
            verdict = {"ok": False, "error": "validator: %r" % ex}
        st["rec"]["validation"] = verdict
        with self.lock:
            c["status"] = a["status"] = "valid" if verdict.get("ok") else "invalid"
            st["state"] = "done"
        st["done"].set()

    def async_poll(self, aid):
        with self.lock:
            a = self.authzs.get(aid)
            st = a.get("async") if a else None
            if not st or st["state"] == "done":
                return
            st["polls"] += 1
            k = self.o.get("validate_after_polls") or 0
            run = bool(k) and st["polls"] >= k and st["state"] == "waiting"
            hold = 0.1 if st["polls"] <= 5 else 1.5
        if run:
            self.async_validate(a)
        elif st["state"] == "running":
            st["done"].wait(hold)

    # ------------------------------------------------------------------ answer
    def send(self, rq, ans, rec, method):
        if "redirect" in ans:        # rule answer {"redirect": status, "hops": k, "to": style}
            ans = self.redirect_answer(ans, rec["path"], rec["path"], None)
        arec = {"kind": "ans", "for": rec.get("gidx"), "rk": rec["rk"]}
        if ans.get("delay_ms"):
            time.sleep(ans["delay_ms"] / 1000.0)
        if ans.get("drop"):
            arec["drop"] = True
            if ans["drop"] == "reset":
                # {"drop": "reset"}: the connection is RESET (RST, SO_LINGER 0) instead of closed after the request
                # was read (and logged as an arrival): the client sees "connection reset by peer"
                arec["reset"] = True
            self.ev(**arec)
            try:
                if ans["drop"] == "reset":
                    import struct
                    rq.connection.setsockopt(socket.SOL_SOCKET, socket.SO_LINGER, struct.pack("ii", 1, 0))
                    rq.connection.close()
                else:
                    rq.connection.shutdown(socket.SHUT_RDWR)
            except Exception:
                pass
            rq.close_connection = True
            return
        status = ans.get("status", 200)
        body = ans.get("body", "")
        ctype = ans.get("ctype")
        if isinstance(body, (dict, list)):
            data = json.dumps(body).encode()
            ctype = ctype or "application/json"
        else:
            data = str(body).encode()
            ctype = ctype or "application/json"
        nonce_mode = ans.get("nonce", "fresh")
        nonce = None
        if nonce_mode == "fresh":
            nonce = self.new_nonce()
        elif nonce_mode == "none":
            nonce = None
        elif nonce_mode == "invalid":
            nonce = "in valid/nonce=="
        else:
            nonce = nonce_mode
        arec.update({"status": status, "nonce": nonce, "location": ans.get("location"),
                     "body_class": ans.get("body_class"), "len": len(data),
                     "body_text": data.decode(errors="replace") if len(data) < 100000 else None,
                     "ctype": ctype})
        if ans.get("cut_after") is not None:
            arec["cut_after"] = ans["cut_after"]
        # Retry-After (RFC 8555 6.6, 7.5.1): answer key `retry_after` (a rule's answer), else the CA options
        # `retry_after_polls` (2xx answers to POSTs on authorization / order URLs: what a client polls) and
        # `retry_after_errors` (429 / 503 answers).  Values: "0", "1", "120", …; "date+N" = the HTTP-date N s from
        # now; a list = one value per answer of that class, the last one repeated; None / absent = no header.
        retry_after = ans.get("retry_after")
        if retry_after is None and "retry_after" not in ans:
            opt = None
            if rec["rk"] in ("authz", "order") and method == "POST" and 200 <= status <= 299:
                opt = "retry_after_polls"
            elif status in (429, 503):
                opt = "retry_after_errors"
            retry_after = self.o.get(opt) if opt else None
            if isinstance(retry_after, list):
                with self.lock:
                    ctr = self.__dict__.setdefault("ra_count", {})
                    k = ctr.get(opt, 0)
                    ctr[opt] = k + 1
                retry_after = retry_after[min(k, len(retry_after) - 1)] if retry_after else None
        if isinstance(retry_after, str) and retry_after.startswith("date+"):
            import email.utils
            retry_after = email.utils.formatdate(time.time() + float(retry_after[5:]), usegmt=True)
        if retry_after is not None:
            arec["retry_after"] = str(retry_after)
        if isinstance(body, dict) and "type" in body and str(body.get("type", "")).startswith(ERR):
            arec["problem"] = body["type"][len(ERR):]
        self.ev(**arec)
        try:
            rq.send_response(status)
            rq.send_header("Content-Type", ctype)
            rq.send_header("Content-Length", str(len(data)))
            if nonce is not None:
                rq.send_header("Replay-Nonce", nonce)
            if ans.get("location"):
                rq.send_header("Location", ans["location"])
            if retry_after is not None:
                rq.send_header("Retry-After", str(retry_after))
            rq.send_header("Cache-Control", "no-store")
            rq.end_headers()
            if method != "HEAD" and ans.get("cut_after") is not None:
                # the body is cut short: the announced Content-Length is never reached, the connection ends
                rq.wfile.write(data[:ans["cut_after"]])
                rq.wfile.flush()
                try:
                    rq.connection.shutdown(socket.SHUT_RDWR)
                except Exception:
                    pass
                rq.close_connection = True
            elif method != "HEAD":
                rq.wfile.write(data)
        except Exception:
            pass

    # ------------------------------------------------------------------ log views
    def requests(self):
        return [e for e in self.log if e["kind"] == "req"]

    def answers(self):
        return [e for e in self.log if e["kind"] == "ans"]
