"""Configuration generators for acmed: a small TOML emitter, a base valid configuration, field
mutations and the catalogue of structural hazards."""
import copy
import json
import os


def _s(v):
    return json.dumps(v, ensure_ascii=False)


def _val(v):
    if isinstance(v, bool):
        return "true" if v else "false"
    if isinstance(v, int):
        return str(v)
    if isinstance(v, float):
        return repr(v)
    if isinstance(v, str):
        return _s(v)
    if isinstance(v, Raw):
        return v.text
    if isinstance(v, list):
        return "[" + ", ".join(_val(x) for x in v) + "]"
    if isinstance(v, dict):
        return "{ " + ", ".join("%s = %s" % (_key(k), _val(x)) for k, x in v.items()) + " }"
    raise TypeError(type(v))


def _key(k):
    if k and all(c.isalnum() or c in "-_" for c in k):
        return k
    return _s(k)


class Raw:
    """A literal TOML value emitted verbatim (for type mutations)."""

    def __init__(self, text):
        self.text = text


TABLE_ARRAYS = ["endpoint", "rate-limit", "hook", "group", "account", "certificate"]


def emit(cfg):
    out = []
    if "include" in cfg:
        out.append("include = %s" % _val(cfg["include"]))
    for k, v in cfg.items():
        if k in ("include", "global") or k in TABLE_ARRAYS:
            continue
        out.append("%s = %s" % (_key(k), _val(v)))
    if cfg.get("global") is not None:
        out.append("\n[global]")
        for k, v in cfg["global"].items():
            out.append("%s = %s" % (_key(k), _val(v)))
    for t in TABLE_ARRAYS:
        for item in cfg.get(t, []):
            out.append("\n[[%s]]" % t)
            for k, v in item.items():
                if isinstance(v, Dup):
                    for x in v.values:
                        out.append("%s = %s" % (_key(k), _val(x)))
                else:
                    out.append("%s = %s" % (_key(k), _val(v)))
    return "\n".join(out) + "\n"


class Dup:
    def __init__(self, values):
        self.values = values


def base(root, url, rate=(20, "1s")):
    os.makedirs(root, exist_ok=True)
    return {
        "global": {"accounts_directory": os.path.join(root, "accounts"),
                   "certificates_directory": os.path.join(root, "certs"),
                   "renew_delay": "2w"},
        "endpoint": [{"name": "e1", "url": url, "tos_agreed": True, "rate_limits": ["rl1"]}],
        "rate-limit": [{"name": "rl1", "number": rate[0], "period": rate[1]}],
        "hook": [{"name": "h1", "type": ["challenge-http-01"], "cmd": "true", "args": ["{{ identifier }}"]},
                 {"name": "h2", "type": ["post-operation"], "cmd": "true"}],
        "group": [{"name": "g1", "hooks": ["h1", "h2"]}],
        "account": [{"name": "a1", "contacts": [{"mailto": "a@example.org"}]}],
        "certificate": [{"endpoint": "e1", "account": "a1",
                         "identifiers": [{"dns": "example.org", "challenge": "http-01"}],
                         "hooks": ["g1"], "key_type": "ecdsa_p256"}],
    }


def write(path, cfg):
    os.makedirs(os.path.dirname(path), exist_ok=True)
    if isinstance(cfg, str) and cfg.startswith("SYMLINK:"):
        if os.path.lexists(path):
            os.remove(path)
        os.symlink(cfg[len("SYMLINK:"):], path)
        return path
    with open(path, "w") as f:
        f.write(cfg if isinstance(cfg, str) else emit(cfg))
    return path


def field_mutations(cfg):
    """Yield (label, mutated cfg) — deletion, duplication, type change, boundary / huge values,
    for every field of every table."""
    huge = [0, -1, 18446744073709551615, 18446744073709551616, 4294967296]
    tables = [("global", None)] + [(t, i) for t in TABLE_ARRAYS for i in range(len(cfg.get(t, [])))]
    for t, i in tables:
        tab = cfg["global"] if i is None else cfg[t][i]
        for k in list(tab.keys()):
            def mut(f):
                c = copy.deepcopy(cfg)
                tt = c["global"] if i is None else c[t][i]
                f(tt)
                return c
            yield ("%s.%s:delete" % (t, k), mut(lambda tt: tt.pop(k)))
            if i is not None:
                yield ("%s.%s:duplicate" % (t, k), mut(lambda tt: tt.__setitem__(k, Dup([tt[k], tt[k]]))))
            v = tab[k]
            if isinstance(v, str):
                for nv, lab in ((12345, "int"), (True, "bool"), ("", "empty"), (["x"], "list"),
                                ("é京" * 3, "unicode"), ("a" * 5000, "long")):
                    yield ("%s.%s:%s" % (t, k, lab), mut(lambda tt: tt.__setitem__(k, nv)))
            elif isinstance(v, bool):
                for nv, lab in (("true", "str"), (1, "int")):
                    yield ("%s.%s:%s" % (t, k, lab), mut(lambda tt: tt.__setitem__(k, nv)))
            elif isinstance(v, int):
                for nv in huge:
                    yield ("%s.%s:int%d" % (t, k, nv), mut(lambda tt: tt.__setitem__(k, nv)))
                yield ("%s.%s:str" % (t, k), mut(lambda tt: tt.__setitem__(k, "7")))
                yield ("%s.%s:float" % (t, k), mut(lambda tt: tt.__setitem__(k, 1.5)))
            elif isinstance(v, list):
                yield ("%s.%s:emptylist" % (t, k), mut(lambda tt: tt.__setitem__(k, [])))
                yield ("%s.%s:str" % (t, k), mut(lambda tt: tt.__setitem__(k, "x")))
                yield ("%s.%s:unknownref" % (t, k), mut(lambda tt: tt.__setitem__(k, ["nope"])))
            yield ("%s.%s:unknownkey" % (t, k), mut(lambda tt: tt.__setitem__("zz_" + k, 1)))


LIMIT_CONSTS = {"MAX_HOOK_GROUP_DEPTH": 32, "MAX_HOOK_GROUP_MEMBERS": 4096, "MAX_INCLUDE_DEPTH": 32}


def limit_hazards(root, url, deep=True):
    """(label, cfg, extra files) for every family of py/ext/depthlim.py; LIMIT_CONSTS is overwritten by
    the caller with what py/gen.py read from main.rs."""
    from ext import depthlim
    D, M, I = depthlim.consts(LIMIT_CONSTS)
    for fam in depthlim.hook_families(D, M, "h1", deep=deep):
        c = base(root, url)
        c["group"] = fam["groups"]
        c["certificate"][0]["hooks"] = [fam["top"]]
        yield (fam["label"], c, {})
    for fam in depthlim.include_families(I, deep=deep):
        c = base(root, url)
        c["include"] = fam["files"]["main.toml"]
        extra = {rel: "include = %s\n" % _val(incs) for rel, incs in fam["files"].items() if rel != "main.toml"}
        yield (fam["label"], c, extra)


PERIOD_HAZARDS = ["0s", "1s", "5s", "5000w", "100000000000000000s", "92233720368547759s",
                  "30500568904944w", "18446744073709551615s18446744073709551615s",
                  "18446744073709551615s", "18446744073709551616s", "1d1d1d", "1x", "", " 1s", "1s ",
                  "-1s", "1.5s", "١s", "9999999999999999999999999999s"]


def hazards(root, url):
    """Yield (label, main-file text or cfg, extra files {relpath: text})."""
    # self-referential / cyclic hook groups, length 1..3
    for n in (1, 2, 3):
        c = base(root, url)
        names = ["cyc%d" % j for j in range(n)]
        c["group"] = [{"name": names[j], "hooks": [names[(j + 1) % n], "h1"]} for j in range(n)]
        c["certificate"][0]["hooks"] = [names[0]]
        yield ("group-cycle-%d" % n, c, {})
        c2 = copy.deepcopy(c)
        c2["account"][0]["hooks"] = [names[0]]
        c2["certificate"][0]["hooks"] = ["h1"]
        yield ("group-cycle-%d-account" % n, c2, {})
    # the reference that closes the cycle is NOT the first member: it comes after a hook, after an
    # acyclic group, or through the second branch of a diamond
    for n in (1, 2, 3):
        for lead in ("hook", "group"):
            c = base(root, url)
            names = ["cyc%d" % j for j in range(n)]
            first = "h1" if lead == "hook" else "leaf"
            c["group"] = [{"name": names[j], "hooks": [first, names[(j + 1) % n]]} for j in range(n)]
            c["group"].append({"name": "leaf", "hooks": ["h1", "h2"]})
            c["certificate"][0]["hooks"] = [names[0]]
            yield ("group-cycle-%d-after-%s" % (n, lead), c, {})
    c = base(root, url)
    c["group"] = [{"name": "top", "hooks": ["left", "right"]}, {"name": "left", "hooks": ["h1"]},
                  {"name": "right", "hooks": ["h2", "top"]}]
    c["certificate"][0]["hooks"] = ["top"]
    yield ("group-cycle-second-branch", c, {})
    # acyclic controls that look similar: the same group twice, a diamond
    c = base(root, url)
    c["group"] = [{"name": "top", "hooks": ["leaf", "h1", "leaf"]}, {"name": "leaf", "hooks": ["h2"]}]
    c["certificate"][0]["hooks"] = ["top", "top"]
    yield ("group-repeated-acyclic", c, {})
    c = base(root, url)
    c["group"] = [{"name": "top", "hooks": ["left", "right"]}, {"name": "left", "hooks": ["leaf"]},
                  {"name": "right", "hooks": ["leaf"]}, {"name": "leaf", "hooks": ["h1"]}]
    c["certificate"][0]["hooks"] = ["top"]
    yield ("group-diamond-acyclic", c, {})
    # a group named like a hook, a group referencing itself through a hook name clash
    c = base(root, url)
    c["group"] = [{"name": "h1", "hooks": ["h1"]}]
    c["certificate"][0]["hooks"] = ["h1"]
    yield ("group-shadowed-by-hook", c, {})
    # deep but acyclic nesting
    c = base(root, url)
    depth = 40
    c["group"] = [{"name": "d%d" % j, "hooks": ["d%d" % (j + 1)] if j + 1 < depth else ["h1"]} for j in range(depth)]
    c["certificate"][0]["hooks"] = ["d0"]
    yield ("group-deep-acyclic", c, {})
    # the limits of get_hook_rec / read_cnf (nesting depth, budget of visited members) met exactly,
    # exceeded by far (the sizes that overflowed the stack / exhausted the memory before 537f12e), and
    # groups of empty groups (exponential work without a single hook, before a9033b3)
    for label, c, extra in limit_hazards(root, url):
        yield (label, c, extra)
    # include cycles
    c = base(root, url)
    c["include"] = ["inc_a.toml"]
    yield ("include-cycle-2", c, {"inc_a.toml": 'include = ["main.toml"]\n'})
    c = base(root, url)
    c["include"] = ["main.toml"]
    yield ("include-self", c, {})
    c = base(root, url)
    c["include"] = ["inc_a.toml"]
    yield ("include-cycle-3", c, {"inc_a.toml": 'include = ["inc_b.toml"]\n',
                                  "inc_b.toml": 'include = ["inc_a.toml", "main.toml", "*.toml"]\n'})
    # cycles that close through ANOTHER SPELLING of a file already being read (`..`, a symbolic link to
    # the file, a symbolic link to its directory); an extra "file" whose text starts with SYMLINK: is a link
    c = base(root, url)
    c["include"] = ["sub/../main.toml"]
    yield ("include-cycle-dotdot", c, {"sub/keep.txt": "x\n"})
    c = base(root, url)
    c["include"] = ["link.toml"]
    yield ("include-cycle-symlink", c, {"link.toml": "SYMLINK:main.toml"})
    c = base(root, url)
    c["include"] = ["enabled/site.toml"]
    yield ("include-cycle-symlinked-dir", c, {"available/site.toml": 'include = ["../main.toml"]\n',
                                               "enabled": "SYMLINK:available"})
    c = base(root, url)
    c["include"] = ["missing-*.toml", "nope.toml"]
    yield ("include-missing", c, {})
    # rate limits
    for nb in (0, 1, 18446744073709551615):
        for per in PERIOD_HAZARDS:
            c = base(root, url, rate=(nb, per))
            yield ("rate-%d-%s" % (nb, per[:24]), c, {})
    c = base(root, url)
    c["rate-limit"] = [{"name": "rl1", "number": 3, "period": "2s"}, {"name": "rl2", "number": 0, "period": "1h"}]
    c["endpoint"][0]["rate_limits"] = ["rl1", "rl2"]
    yield ("rate-second-zero", c, {})
    # periods in every place a period is accepted
    for per in PERIOD_HAZARDS:
        for where in ("global", "endpoint", "certificate"):
            for key in ("renew_delay", "random_early_renew"):
                c = base(root, url)
                tgt = c["global"] if where == "global" else c[where][0]
                tgt[key] = per
                yield ("%s-%s-%s" % (where, key, per[:24]), c, {})
    # malformed TOML
    text = emit(base(root, url))
    for cut in (1, 7, len(text) // 3, len(text) // 2, len(text) - 2):
        yield ("toml-truncated-%d" % cut, text[:cut], {})
    yield ("toml-garbage", "\x00\x01\xff[[[[\n= = =\n", {})
    yield ("toml-empty", "", {})
    yield ("toml-unknown-section", text + "\n[[nonsense]]\nx = 1\n", {})
    yield ("toml-dup-global", text + "\n[global]\nrenew_delay = \"1d\"\n", {})
    # identifiers
    for ident in ({"dns": "", "challenge": "http-01"}, {"ip": "999.1.1.1", "challenge": "http-01"},
                  {"ip": "::1", "challenge": "dns-01"}, {"dns": "a", "ip": "1.1.1.1", "challenge": "http-01"},
                  {"challenge": "http-01"}, {"dns": "x." * 200 + "org", "challenge": "bogus-01"},
                  {"dns": "K.example", "challenge": "tls-alpn-01"},
                  {"dns": "*." + "ü" * 80 + ".example", "challenge": "dns-01"},
                  {"dns": "\u0080" * 4000 + "\U001061c2" + ".example", "challenge": "http-01"},
                  {"dns": "x" * 64 + ".example", "challenge": "http-01"},
                  {"dns": "ü" * 63 + ".example", "challenge": "http-01"}):
        c = base(root, url)
        c["certificate"][0]["identifiers"] = [ident]
        yield ("identifier-%s" % json.dumps(ident)[:40], c, {})
    c = base(root, url)
    c["certificate"][0]["identifiers"] = []
    yield ("identifier-none", c, {})
    # duplicate certificate ids, unknown references
    c = base(root, url)
    c["certificate"].append(copy.deepcopy(c["certificate"][0]))
    yield ("duplicate-certificate", c, {})
    for key, val in (("endpoint", "nope"), ("account", "nope")):
        c = base(root, url)
        c["certificate"][0][key] = val
        yield ("unknown-%s" % key, c, {})
    c = base(root, url)
    c["endpoint"][0]["rate_limits"] = ["nope"]
    yield ("unknown-rate-limit", c, {})
    c = base(root, url)
    c["hook"][0]["stdin"] = "x"
    c["hook"][0]["stdin_str"] = "y"
    yield ("hook-both-stdin", c, {})
    c = base(root, url)
    c["account"][0]["key_type"] = "rsa2048"
    c["account"][0]["signature_algorithm"] = "ES256"
    yield ("account-alg-mismatch", c, {})
    c = base(root, url)
    c["account"][0]["external_account"] = {"identifier": "kid", "key": "!!!notbase64", "signature_algorithm": "HS256"}
    yield ("account-eab-badkey", c, {})
    c = base(root, url)
    c["global"]["file_name_format"] = "{{ name"
    yield ("bad-file-name-template", c, {})
    c = base(root, url)
    c["global"]["cert_file_mode"] = 0o777777
    yield ("huge-mode", c, {})


# ---------------------------------------------------------------------------------------------
# C19 (auditd): a base with EVERY optional field set, recursive mutations, more hazards.
# Additive: base / emit / write / field_mutations / hazards above are unchanged.

SUBJECT_ATTRIBUTES = ["country_name", "generation_qualifier", "given_name", "initials", "locality_name", "name",
                      "organization_name", "organizational_unit_name", "pkcs9_email_address", "postal_address",
                      "postal_code", "state_or_province_name", "street", "surname", "title"]
U32_FIELDS = ("cert_file_mode", "pk_file_mode")


def base_full(root, url, root_pem=None):
    """A valid configuration in which every optional field of every table is set.  `root_pem`: text of a
    PEM certificate written to <root>/root.pem and named in both root_certificates lists (left out if
    None).  User / group names are those of the current process (they must exist)."""
    import grp
    import pwd
    os.makedirs(root, exist_ok=True)
    user = pwd.getpwuid(os.getuid()).pw_name
    group = grp.getgrgid(os.getgid()).gr_name
    stdin_file = os.path.join(root, "hook-stdin.txt")
    with open(stdin_file, "w") as f:
        f.write("input for the hook\n")
    roots = None
    if root_pem is not None:
        with open(os.path.join(root, "root.pem"), "w") as f:
            f.write(root_pem)
        roots = [os.path.join(root, "root.pem")]
    fmt = "{{ name }}_{{ key_type }}.{{ file_type }}.{{ ext }}"
    cfg = {
        "global": {"accounts_directory": os.path.join(root, "accounts"),
                   "certificates_directory": os.path.join(root, "certs"),
                   "cert_file_mode": 0o640, "cert_file_user": user, "cert_file_group": group, "cert_file_ext": "crt",
                   "pk_file_mode": 0o600, "pk_file_user": user, "pk_file_group": group, "pk_file_ext": "key",
                   "env": {"GLOBAL_VAR": "g", "SHARED": "from-global"},
                   "file_name_format": fmt, "random_early_renew": "1h", "renew_delay": "2w"},
        "endpoint": [{"name": "e1", "url": url, "tos_agreed": True, "rate_limits": ["rl1", "rl2"],
                      "file_name_format": "ep-" + fmt, "random_early_renew": "2h", "renew_delay": "3w"}],
        "rate-limit": [{"name": "rl1", "number": 20, "period": "1s"}, {"name": "rl2", "number": 500, "period": "1h"}],
        "hook": [{"name": "h1", "type": ["challenge-http-01", "challenge-http-01-clean"], "cmd": "true",
                  "args": ["{{ identifier }}", "{{ env.SHARED }}"], "allow_failure": True, "stdin": stdin_file,
                  "stdout": os.path.join(root, "h1.out"), "stderr": os.path.join(root, "h1.err")},
                 {"name": "h2", "type": ["post-operation", "file-pre-create", "file-post-create", "file-pre-edit",
                                         "file-post-edit"], "cmd": "true", "args": [],
                  "allow_failure": False, "stdin_str": "status {{ status }}",
                  "stdout": os.path.join(root, "h2.out"), "stderr": os.path.join(root, "h2.err")}],
        "group": [{"name": "g1", "hooks": ["h1", "h2"]}],
        "account": [{"name": "a1", "contacts": [{"mailto": "a@example.org"}, {"mailto": "b@example.org"}],
                     "env": {"ACCOUNT_VAR": "a", "SHARED": "from-account"},
                     "external_account": {"identifier": "kid-1", "key": "c2VjcmV0LWtleS1mb3ItZWFi",
                                          "signature_algorithm": "HS256"},
                     "hooks": ["h2"], "key_type": "ecdsa_p384", "signature_algorithm": "ES384"}],
        "certificate": [{"endpoint": "e1", "account": "a1",
                         "identifiers": [{"dns": "example.org", "challenge": "http-01", "env": {"ID_VAR": "i"}},
                                         {"ip": "192.0.2.7", "challenge": "http-01", "env": {}}],
                         "hooks": ["g1"], "key_type": "ecdsa_p256", "csr_digest": "sha384",
                         "directory": os.path.join(root, "crt-dir"), "env": {"CERT_VAR": "c", "SHARED": "from-cert"},
                         "file_name_format": "crt-" + fmt, "kp_reuse": True, "name": "site",
                         "random_early_renew": "3h", "renew_delay": "4w",
                         "subject_attributes": {k: ("FR" if k == "country_name" else "v-" + k)
                                                for k in SUBJECT_ATTRIBUTES}}],
    }
    if roots is not None:
        cfg["global"]["root_certificates"] = list(roots)
        cfg["endpoint"][0]["root_certificates"] = list(roots)
    return cfg


def _walk_get(c, path):
    for p in path:
        c = c[p]
    return c


def _raw_inline_dup(tab, k):
    """Inline table text in which key k appears twice."""
    items = []
    for kk, x in tab.items():
        items.append("%s = %s" % (_key(kk), _val(x)))
        if kk == k:
            items.append("%s = %s" % (_key(kk), _val(x)))
    return Raw("{ " + ", ".join(items) + " }")


def field_mutations_deep(cfg):
    """Like field_mutations, but RECURSIVE: also descends into nested inline tables (env,
    external_account, subject_attributes), lists of tables (contacts[], identifiers[] and their env)
    and lists of strings (per element); u32 fields get -1, 2^32-1, 2^32, 2^64.  Yields (label, cfg)."""
    huge = [0, -1, 18446744073709551615, 18446744073709551616, 4294967296]
    u32 = [-1, 0, 0o7777, 4294967295, 4294967296, 18446744073709551616]
    strs = ((12345, "int"), (True, "bool"), ("", "empty"), (["x"], "list"), ("é京" * 3, "unicode"),
            ("a" * 5000, "long"), ("a\x00b", "nul"), ("a\nb", "newline"), ({"x": "y"}, "table"), (1.5, "float"))

    def mut(path, f):
        c = copy.deepcopy(cfg)
        f(_walk_get(c, path))
        return c

    def leaf(path, lab, k, v, top):
        """mutations of tab[k] where tab = cfg[path...]"""
        yield ("%s.%s:delete" % (lab, k), mut(path, lambda tt: tt.pop(k)))
        if top:
            if path != ["global"]:
                yield ("%s.%s:duplicate" % (lab, k), mut(path, lambda tt: tt.__setitem__(k, Dup([tt[k], tt[k]]))))
        else:
            # the enclosing inline table is replaced by its text with k twice
            par, last = path[:-1], path[-1]
            yield ("%s.%s:duplicate" % (lab, k),
                   mut(par, lambda pp: pp.__setitem__(last, _raw_inline_dup(pp[last], k))))
        yield ("%s.%s:unknownkey" % (lab, k), mut(path, lambda tt: tt.__setitem__("zz_" + k, 1)))
        if isinstance(v, bool):
            for nv, l2 in (("true", "str"), (1, "int"), ([True], "list")):
                yield ("%s.%s:%s" % (lab, k, l2), mut(path, lambda tt: tt.__setitem__(k, nv)))
        elif isinstance(v, int):
            for nv in (u32 if k in U32_FIELDS else huge):
                yield ("%s.%s:int%d" % (lab, k, nv), mut(path, lambda tt: tt.__setitem__(k, nv)))
            for nv, l2 in (("7", "str"), (1.5, "float"), (True, "bool"), ([1], "list")):
                yield ("%s.%s:%s" % (lab, k, l2), mut(path, lambda tt: tt.__setitem__(k, nv)))
        elif isinstance(v, str):
            for nv, l2 in strs:
                yield ("%s.%s:%s" % (lab, k, l2), mut(path, lambda tt: tt.__setitem__(k, nv)))
        elif isinstance(v, dict):
            for nv, l2 in (({}, "emptytable"), ("x", "str"), ([], "emptylist"), (1, "int"), ([{"a": "b"}], "listoftables"),
                           ({"k": 1}, "intvalue"), ({"k": {"n": "v"}}, "nestedvalue"), ({"": ""}, "emptykey")):
                yield ("%s.%s:%s" % (lab, k, l2), mut(path, lambda tt: tt.__setitem__(k, nv)))
            for k2 in list(v.keys()):
                yield from leaf(path + [k], "%s.%s" % (lab, k), k2, v[k2], False)
        elif isinstance(v, list):
            for nv, l2 in (([], "emptylist"), ("x", "str"), (["nope"], "unknownref"), ([1], "intitem"), ([""], "emptyitem"),
                           ([["x"]], "nestedlist"), ({"a": "b"}, "table"), (v + v, "doubled"), (v * 300, "x300")):
                yield ("%s.%s:%s" % (lab, k, l2), mut(path, lambda tt: tt.__setitem__(k, nv)))
            for j, item in enumerate(v):
                if isinstance(item, dict):
                    yield ("%s.%s[%d]:emptytable" % (lab, k, j), mut(path + [k], lambda ll: ll.__setitem__(j, {})))
                    yield ("%s.%s[%d]:str" % (lab, k, j), mut(path + [k], lambda ll: ll.__setitem__(j, "x")))
                    for k2 in list(item.keys()):
                        yield from leaf(path + [k, j], "%s.%s[%d]" % (lab, k, j), k2, item[k2], False)
                elif isinstance(item, str):
                    for nv, l2 in ((1, "int"), ("", "empty"), ("a\x00b", "nul"), ("{{ nope", "template"), ("a" * 5000, "long")):
                        yield ("%s.%s[%d]:%s" % (lab, k, j, l2), mut(path + [k], lambda ll: ll.__setitem__(j, nv)))

    tables = ([("global", None)] if isinstance(cfg.get("global"), dict) else []) + \
        [(t, i) for t in TABLE_ARRAYS for i in range(len(cfg.get(t, [])))]
    for t, i in tables:
        path = ["global"] if i is None else [t, i]
        tab = _walk_get(cfg, path)
        lab = t if i is None or len(cfg[t]) == 1 else "%s[%d]" % (t, i)
        for k in list(tab.keys()):
            yield from leaf(path, lab, k, tab[k], True)


FILE_NAME_FORMATS = ["{{ name", "{{ nope }}", "", "{{ name }}/../x", "y" * 5000, "{{ name }}.{{ ext }}",
                     "{% for i in range(end=100000000) %}x{% endfor %}", "{% for i in range(100000000) %}x{% endfor %}",
                     "{% for i in range(100000) %}x{% endfor %}", "{{ name | rev_labels }}-{{ key_type }}.{{ file_type }}",
                     "{{ name.a.b.c }}", "{{ 1 / 0 }}", "{{ name * 100000 }}", "{% include \"template\" %}",
                     "{% extends \"template\" %}", "{% macro m() %}{{ m() }}{% endmacro %}{{ m() }}", "\u0000",
                     "../../{{ name }}.{{ file_type }}"]


def group_chain(root, url, depth, certs=1):
    """Acyclic chain d0 -> d1 -> … -> h1 used by `certs` certificates."""
    c = base(root, url)
    c["group"] = [{"name": "d%d" % j, "hooks": ["d%d" % (j + 1)] if j + 1 < depth else ["h1"]} for j in range(depth)]
    c["certificate"][0]["hooks"] = ["d0"]
    if certs > 1:
        c0 = c["certificate"][0]
        c["certificate"] = [dict(c0, name="c%d" % i) for i in range(certs)]
    return c


def hazards_more(root, url, thorough=False):
    """More entries of the same shape as hazards(): (label, main-file text or cfg, extra files).
    An extra file whose text is "FIFO:" is a named pipe; label prefix `env-` = a hazard of the
    environment rather than of the content (observed and counted by the caller, not judged)."""
    # --- whole tables missing / duplicated (item 4)
    c = base(root, url)
    del c["global"]
    yield ("no-global", c, {})
    c = base(root, url)
    del c["global"]
    c["certificate"][0]["directory"] = os.path.join(root, "crt-dir")
    yield ("no-global-certificate-directory", c, {})
    c = base(root, url)
    c["global"] = {}
    yield ("empty-global", c, {})
    c = base(root, url)
    g = c.pop("global")
    c["include"] = ["glob.toml"]
    yield ("global-only-in-include", c, {"glob.toml": emit({"global": g})})
    for t in TABLE_ARRAYS:
        c = base(root, url)
        del c[t]
        yield ("table-%s-removed" % t, c, {})
        c = base(root, url)
        c[t] = []
        yield ("table-%s-empty" % t, c, {})
        c = base(root, url)
        c[t].append(copy.deepcopy(c[t][0]))
        yield ("table-%s-item-twice" % t, c, {})
        c = base(root, url)
        c["include"] = ["more.toml"]
        yield ("table-%s-item-again-in-include" % t, c, {"more.toml": emit({t: [copy.deepcopy(c[t][0])]})})
    # --- file name formats at the three levels (rendered at the first scheduling decision)
    for n, fmt in enumerate(FILE_NAME_FORMATS):
        for where in ("global", "endpoint", "certificate"):
            c = base(root, url)
            tgt = c["global"] if where == "global" else c[where][0]
            tgt["file_name_format"] = fmt
            yield ("%s-file_name_format-%d-%s" % (where, n, fmt[:24]), c, {})
    # --- size and depth (item 5).  Acyclic chains around the nesting limit of the loader (32) and far beyond
    # it (before the limit existed, 4.7e3 groups / 8e2 includes overflowed the stack of the dev build)
    for depth in (30, 31, 32, 33, 34, 1000, 10000) + ((100000,) if thorough else ()):
        yield ("group-deep-acyclic-%d" % depth, group_chain(root, url, depth), {})
    yield ("group-deep-30-by-100-certificates", group_chain(root, url, 30, certs=100), {})
    yield ("group-deep-200-by-100-certificates", group_chain(root, url, 200, certs=100), {})
    for n in (2048, 2049, 5000) + ((50000,) if thorough else ()):
        c = base(root, url)
        c["group"] = [{"name": "g1", "hooks": ["h1", "h2"] * n}]
        yield ("group-%d-members" % (2 * n), c, {})
    # every level names the next one twice: 2^depth hooks
    for depth in (11, 12, 13, 20, 31):
        c = base(root, url)
        c["group"] = [{"name": "d%d" % j, "hooks": ["d%d" % (j + 1)] * 2 if j + 1 < depth else ["h1", "h1"]}
                      for j in range(depth)]
        c["certificate"][0]["hooks"] = ["d0"]
        yield ("group-doubling-%d" % depth, c, {})
    # every level names the next one three times and the last one is empty: 3^depth visits, not one hook
    for depth in (8, 31):
        c = base(root, url)
        c["group"] = [{"name": "d%d" % j, "hooks": ["d%d" % (j + 1)] * 3 if j + 1 < depth else []} for j in range(depth)]
        c["certificate"][0]["hooks"] = ["d0", "h1"]
        yield ("group-tripling-empty-%d" % depth, c, {})
    for n in (30, 31, 32, 33, 34, 1000):
        c = base(root, url)
        c["include"] = ["inc0.toml"]
        extra = {"inc%d.toml" % i: 'include = ["inc%d.toml"]\n' % (i + 1) for i in range(n)}
        extra["inc%d.toml" % n] = "\n"
        yield ("include-chain-%d" % n, c, extra)
    n = 1000 if thorough else 300
    c = base(root, url)
    c["include"] = ["part-*.toml"]
    yield ("include-fan-%d" % n, c, {"part-%d.toml" % i: emit({"hook": [{"name": "x%d" % i, "type": ["post-operation"],
                                                                        "cmd": "true"}]}) for i in range(n)})
    text = emit(base(root, url))
    for n in (100, 10000) + ((100000,) if thorough else ()):
        yield ("toml-nested-array-%d" % n,
               text.replace('args = ["{{ identifier }}"]', "args = " + "[" * n + '"x"' + "]" * n), {})
        yield ("toml-nested-table-%d" % n,
               text.replace('hooks = ["g1"]', 'hooks = ["g1"]\nenv = ' + "{ a = " * n + '"x"' + " }" * n), {})
    mb = 20 if thorough else 4
    yield ("toml-%dMB-comment-line" % mb, "# " + "x" * (mb * 2 ** 20) + "\n" + text, {})
    yield ("toml-%dMB-comment-lines" % mb, ("# " + "x" * 70 + "\n") * (mb * 2 ** 20 // 73) + text, {})
    # (not in a TEMPLATE field — hook args, stdin_str, file_name_format: minijinja 2.8 counts lines and columns
    # in 16 bits and the overflow-checked dev build panics on a line of 65536 characters; see the report)
    c = base(root, url)
    c["certificate"][0]["env"] = {"BIG": "y" * (mb * 2 ** 20)}
    yield ("toml-%dMB-string" % mb, c, {})
    c = base(root, url)
    c["hook"][0]["args"] = ["y"] * (200000 if thorough else 20000)
    yield ("toml-%d-args" % len(c["hook"][0]["args"]), c, {})
    c = base(root, url)
    c["certificate"][0]["env"] = {"K%d" % i: "v" for i in range(20000)}
    yield ("certificate-env-20000", c, {})
    c = base(root, url)
    c["certificate"][0]["identifiers"] = [{"dns": "h%d.example.org" % i, "challenge": "http-01"} for i in range(2000)]
    yield ("identifiers-2000", c, {})
    c = base(root, url)
    c0 = c["certificate"][0]
    c["certificate"] = [dict(c0, name="c%d" % i) for i in range(500)]
    yield ("certificates-500", c, {})
    for per in ("1s" * 10000, "0" * 1000 + "5s", "9" * 1000 + "s", "0" * 100000 + "1s"):
        for where, key in (("global", "renew_delay"), ("certificate", "random_early_renew")):
            c = base(root, url)
            (c["global"] if where == "global" else c[where][0])[key] = per
            yield ("%s-%s-long-%d-%s" % (where, key, len(per), per[:6]), c, {})
        c = base(root, url, rate=(5, per))
        yield ("rate-5-long-%d-%s" % (len(per), per[:6]), c, {})
    # --- more cycle shapes (item 6)
    for n in (4, 5, 8, 17, 50):
        c = base(root, url)
        names = ["cyc%d" % j for j in range(n)]
        c["group"] = [{"name": names[j], "hooks": ["h1", names[(j + 1) % n]]} for j in range(n)]
        c["certificate"][0]["hooks"] = [names[0]]
        yield ("group-cycle-%d" % n, c, {})
    # a tail leading INTO a cycle: the entry group is not part of it
    for tail in (1, 2, 5):
        for n in (1, 2, 3, 7):
            c = base(root, url)
            names = ["cyc%d" % j for j in range(n)]
            tails = ["tail%d" % j for j in range(tail)]
            c["group"] = [{"name": tails[j], "hooks": ["h2", tails[j + 1] if j + 1 < tail else names[0]]} for j in range(tail)]
            c["group"] += [{"name": names[j], "hooks": ["h1", names[(j + 1) % n]]} for j in range(n)]
            c["certificate"][0]["hooks"] = [tails[0]]
            yield ("group-cycle-%d-after-tail-%d" % (n, tail), c, {})
    c = base(root, url)
    c["group"] = [{"name": "fine", "hooks": ["h1", "h2"]}, {"name": "a", "hooks": ["b"]}, {"name": "b", "hooks": ["a"]}]
    c["certificate"][0]["hooks"] = ["fine", "a"]
    yield ("group-cycle-through-second-certificate-hook", c, {})
    c2 = copy.deepcopy(c)
    c2["certificate"][0]["hooks"] = ["h1"]
    c2["account"][0]["hooks"] = ["fine", "a"]
    yield ("group-cycle-through-second-account-hook", c2, {})
    c = base(root, url)
    c["group"] = [{"name": "top", "hooks": ["left", "right"]}, {"name": "left", "hooks": ["leaf"]},
                  {"name": "right", "hooks": ["leaf"]}, {"name": "leaf", "hooks": ["h1", "top"]}]
    c["certificate"][0]["hooks"] = ["top"]
    yield ("group-diamond-with-back-edge", c, {})
    c = base(root, url)
    c["group"] = [{"name": "a0", "hooks": ["a1"]}, {"name": "a1", "hooks": ["a0"]},
                  {"name": "b0", "hooks": ["h1", "b1"]}, {"name": "b1", "hooks": ["h2", "b0"]}]
    c["certificate"][0]["hooks"] = ["a0", "b0"]
    yield ("group-two-disjoint-cycles", c, {})
    c = base(root, url)
    c["group"].append({"name": "u0", "hooks": ["u1"]})
    c["group"].append({"name": "u1", "hooks": ["u0", "u1"]})
    yield ("group-cycle-unreferenced", c, {})
    c = base(root, url)
    c["group"] = [{"name": "g1", "hooks": ["h1", "h2"]}, {"name": "g1", "hooks": ["g1"]}]
    yield ("group-same-name-second-cyclic", c, {})
    c = base(root, url)
    c["group"] = [{"name": "g1", "hooks": []}]
    yield ("group-empty", c, {})
    # --- more include shapes (item 6)
    c = base(root, url)
    c["include"] = ["sub"]
    yield ("include-directory", c, {"sub/inner.toml": "\n"})
    c = base(root, url)
    c["include"] = ["sub/"]
    yield ("include-directory-slash", c, {"sub/inner.toml": "\n"})
    shared = write(os.path.join(root, "shared-abs", "inc.toml"),
                   emit({"hook": [{"name": "abs-hook", "type": ["post-operation"], "cmd": "true"}]}))
    c = base(root, url)
    c["include"] = [shared]
    yield ("include-absolute-path", c, {})
    c = base(root, url)
    c["include"] = [os.path.join(root, "shared-abs", "*.toml"), shared]
    yield ("include-absolute-glob-and-path", c, {})
    c = base(root, url)
    c["include"] = ["*"]
    yield ("include-star-mixed", c, {"notes.txt": "this is = not = toml\n", "sub/keep.txt": "x\n",
                                     "other.toml": emit({"hook": [{"name": "o", "type": ["post-operation"], "cmd": "true"}]})})
    c = base(root, url)
    c["include"] = ["*.toml"]
    yield ("include-star-toml-clean", c, {"other.toml": emit({"hook": [{"name": "o", "type": ["post-operation"],
                                                                           "cmd": "true"}]})})
    c = base(root, url)
    c["include"] = ["inc_a.toml"]
    yield ("include-glob-matching-the-including-file", c, {"inc_a.toml": 'include = ["inc_*.toml", "*.toml"]\n',
                                                            "inc_b.toml": 'include = ["inc_?.toml"]\n'})
    c = base(root, url)
    c["include"] = ["[", "***", "a/**/b", "\u0000"]
    yield ("include-bad-patterns", c, {})
    c = base(root, url)
    c["include"] = ["dangling.toml"]
    yield ("include-dangling-symlink", c, {"dangling.toml": "SYMLINK:nowhere.toml"})
    c = base(root, url)
    c["include"] = ["loop.toml"]
    yield ("include-symlink-loop", c, {"loop.toml": "SYMLINK:loop.toml"})
    c = base(root, url)
    c["include"] = ["inc_a.toml", "inc_a.toml", "./inc_a.toml"]
    yield ("include-same-file-thrice", c, {"inc_a.toml": emit({"hook": [{"name": "o", "type": ["post-operation"],
                                                                          "cmd": "true"}]})})
    c = base(root, url)
    c["include"] = ["/dev/null", "null.toml"]
    yield ("include-dev-null", c, {"null.toml": "SYMLINK:/dev/null"})
    c = base(root, url)
    c["include"] = ["pipe.toml"]
    yield ("env-include-fifo", c, {"pipe.toml": "FIFO:"})
