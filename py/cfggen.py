"""Configuration generators for acmed: a small TOML emitter, a base valid configuration, field
mutations and the catalogue of structural hazards."""
import copy
import json
import os


def _s(v):
    return json.dumps(v, ensure_ascii=False)


def _val(v):
    if isinstance(v, bool):
        return "true" if v else "false"
    if isinstance(v, int):
        return str(v)
    if isinstance(v, float):
        return repr(v)
    if isinstance(v, str):
        return _s(v)
    if isinstance(v, Raw):
        return v.text
    if isinstance(v, list):
        return "[" + ", ".join(_val(x) for x in v) + "]"
    if isinstance(v, dict):
        return "{ " + ", ".join("%s = %s" % (_key(k), _val(x)) for k, x in v.items()) + " }"
    raise TypeError(type(v))


def _key(k):
    if k and all(c.isalnum() or c in "-_" for c in k):
        return k
    return _s(k)


class Raw:
    """A literal TOML value emitted verbatim (for type mutations)."""

    def __init__(self, text):
        self.text = text


TABLE_ARRAYS = ["endpoint", "rate-limit", "hook", "group", "account", "certificate"]


def emit(cfg):
    out = []
    if "include" in cfg:
        out.append("include = %s" % _val(cfg["include"]))
    for k, v in cfg.items():
        if k in ("include", "global") or k in TABLE_ARRAYS:
            continue
        out.append("%s = %s" % (_key(k), _val(v)))
    if cfg.get("global") is not None:
        out.append("\n[global]")
        for k, v in cfg["global"].items():
            out.append("%s = %s" % (_key(k), _val(v)))
    for t in TABLE_ARRAYS:
        for item in cfg.get(t, []):
            out.append("\n[[%s]]" % t)
            for k, v in item.items():
                if isinstance(v, Dup):
                    for x in v.values:
                        out.append("%s = %s" % (_key(k), _val(x)))
                else:
                    out.append("%s = %s" % (_key(k), _val(v)))
    return "\n".join(out) + "\n"


class Dup:
    def __init__(self, values):
        self.values = values


def base(root, url, rate=(20, "1s")):
    os.makedirs(root, exist_ok=True)
    return {
        "global": {"accounts_directory": os.path.join(root, "accounts"),
                   "certificates_directory": os.path.join(root, "certs"),
                   "renew_delay": "2w"},
        "endpoint": [{"name": "e1", "url": url, "tos_agreed": True, "rate_limits": ["rl1"]}],
        "rate-limit": [{"name": "rl1", "number": rate[0], "period": rate[1]}],
        "hook": [{"name": "h1", "type": ["challenge-http-01"], "cmd": "true", "args": ["{{ identifier }}"]},
                 {"name": "h2", "type": ["post-operation"], "cmd": "true"}],
        "group": [{"name": "g1", "hooks": ["h1", "h2"]}],
        "account": [{"name": "a1", "contacts": [{"mailto": "a@example.org"}]}],
        "certificate": [{"endpoint": "e1", "account": "a1",
                         "identifiers": [{"dns": "example.org", "challenge": "http-01"}],
                         "hooks": ["g1"], "key_type": "ecdsa_p256"}],
    }


def write(path, cfg):
    os.makedirs(os.path.dirname(path), exist_ok=True)
    if isinstance(cfg, str) and cfg.startswith("SYMLINK:"):
        if os.path.lexists(path):
            os.remove(path)
        os.symlink(cfg[len("SYMLINK:"):], path)
        return path
    with open(path, "w") as f:
        f.write(cfg if isinstance(cfg, str) else emit(cfg))
    return path


def field_mutations(cfg):
    """Yield (label, mutated cfg) — deletion, duplication, type change, boundary / huge values,
    for every field of every table."""
    huge = [0, -1, 18446744073709551615, 18446744073709551616, 4294967296]
    tables = [("global", None)] + [(t, i) for t in TABLE_ARRAYS for i in range(len(cfg.get(t, [])))]
    for t, i in tables:
        tab = cfg["global"] if i is None else cfg[t][i]
        for k in list(tab.keys()):
            def mut(f):
                c = copy.deepcopy(cfg)
                tt = c["global"] if i is None else c[t][i]
                f(tt)
                return c
            yield ("%s.%s:delete" % (t, k), mut(lambda tt: tt.pop(k)))
            if i is not None:
                yield ("%s.%s:duplicate" % (t, k), mut(lambda tt: tt.__setitem__(k, Dup([tt[k], tt[k]]))))
            v = tab[k]
            if isinstance(v, str):
                for nv, lab in ((12345, "int"), (True, "bool"), ("", "empty"), (["x"], "list"),
                                ("é京" * 3, "unicode"), ("a" * 5000, "long")):
                    yield ("%s.%s:%s" % (t, k, lab), mut(lambda tt: tt.__setitem__(k, nv)))
            elif isinstance(v, bool):
                for nv, lab in (("true", "str"), (1, "int")):
                    yield ("%s.%s:%s" % (t, k, lab), mut(lambda tt: tt.__setitem__(k, nv)))
            elif isinstance(v, int):
                for nv in huge:
                    yield ("%s.%s:int%d" % (t, k, nv), mut(lambda tt: tt.__setitem__(k, nv)))
                yield ("%s.%s:str" % (t, k), mut(lambda tt: tt.__setitem__(k, "7")))
                yield ("%s.%s:float" % (t, k), mut(lambda tt: tt.__setitem__(k, 1.5)))
            elif isinstance(v, list):
                yield ("%s.%s:emptylist" % (t, k), mut(lambda tt: tt.__setitem__(k, [])))
                yield ("%s.%s:str" % (t, k), mut(lambda tt: tt.__setitem__(k, "x")))
                yield ("%s.%s:unknownref" % (t, k), mut(lambda tt: tt.__setitem__(k, ["nope"])))
            yield ("%s.%s:unknownkey" % (t, k), mut(lambda tt: tt.__setitem__("zz_" + k, 1)))


PERIOD_HAZARDS = ["0s", "1s", "5s", "5000w", "100000000000000000s", "92233720368547759s",
                  "30500568904944w", "18446744073709551615s18446744073709551615s",
                  "18446744073709551615s", "18446744073709551616s", "1d1d1d", "1x", "", " 1s", "1s ",
                  "-1s", "1.5s", "١s", "9999999999999999999999999999s"]


def hazards(root, url):
    """Yield (label, main-file text or cfg, extra files {relpath: text})."""
    # self-referential / cyclic hook groups, length 1..3
    for n in (1, 2, 3):
        c = base(root, url)
        names = ["cyc%d" % j for j in range(n)]
        c["group"] = [{"name": names[j], "hooks": [names[(j + 1) % n], "h1"]} for j in range(n)]
        c["certificate"][0]["hooks"] = [names[0]]
        yield ("group-cycle-%d" % n, c, {})
        c2 = copy.deepcopy(c)
        c2["account"][0]["hooks"] = [names[0]]
        c2["certificate"][0]["hooks"] = ["h1"]
        yield ("group-cycle-%d-account" % n, c2, {})
    # the reference that closes the cycle is NOT the first member: it comes after a hook, after an
    # acyclic group, or through the second branch of a diamond
    for n in (1, 2, 3):
        for lead in ("hook", "group"):
            c = base(root, url)
            names = ["cyc%d" % j for j in range(n)]
            first = "h1" if lead == "hook" else "leaf"
            c["group"] = [{"name": names[j], "hooks": [first, names[(j + 1) % n]]} for j in range(n)]
            c["group"].append({"name": "leaf", "hooks": ["h1", "h2"]})
            c["certificate"][0]["hooks"] = [names[0]]
            yield ("group-cycle-%d-after-%s" % (n, lead), c, {})
    c = base(root, url)
    c["group"] = [{"name": "top", "hooks": ["left", "right"]}, {"name": "left", "hooks": ["h1"]},
                  {"name": "right", "hooks": ["h2", "top"]}]
    c["certificate"][0]["hooks"] = ["top"]
    yield ("group-cycle-second-branch", c, {})
    # acyclic controls that look similar: the same group twice, a diamond
    c = base(root, url)
    c["group"] = [{"name": "top", "hooks": ["leaf", "h1", "leaf"]}, {"name": "leaf", "hooks": ["h2"]}]
    c["certificate"][0]["hooks"] = ["top", "top"]
    yield ("group-repeated-acyclic", c, {})
    c = base(root, url)
    c["group"] = [{"name": "top", "hooks": ["left", "right"]}, {"name": "left", "hooks": ["leaf"]},
                  {"name": "right", "hooks": ["leaf"]}, {"name": "leaf", "hooks": ["h1"]}]
    c["certificate"][0]["hooks"] = ["top"]
    yield ("group-diamond-acyclic", c, {})
    # a group named like a hook, a group referencing itself through a hook name clash
    c = base(root, url)
    c["group"] = [{"name": "h1", "hooks": ["h1"]}]
    c["certificate"][0]["hooks"] = ["h1"]
    yield ("group-shadowed-by-hook", c, {})
    # deep but acyclic nesting
    c = base(root, url)
    depth = 40
    c["group"] = [{"name": "d%d" % j, "hooks": ["d%d" % (j + 1)] if j + 1 < depth else ["h1"]} for j in range(depth)]
    c["certificate"][0]["hooks"] = ["d0"]
    yield ("group-deep-acyclic", c, {})
    # include cycles
    c = base(root, url)
    c["include"] = ["inc_a.toml"]
    yield ("include-cycle-2", c, {"inc_a.toml": 'include = ["main.toml"]\n'})
    c = base(root, url)
    c["include"] = ["main.toml"]
    yield ("include-self", c, {})
    c = base(root, url)
    c["include"] = ["inc_a.toml"]
    yield ("include-cycle-3", c, {"inc_a.toml": 'include = ["inc_b.toml"]\n',
                                  "inc_b.toml": 'include = ["inc_a.toml", "main.toml", "*.toml"]\n'})
    # cycles that close through ANOTHER SPELLING of a file already being read (`..`, a symbolic link to
    # the file, a symbolic link to its directory); an extra "file" whose text starts with SYMLINK: is a link
    c = base(root, url)
    c["include"] = ["sub/../main.toml"]
    yield ("include-cycle-dotdot", c, {"sub/keep.txt": "x\n"})
    c = base(root, url)
    c["include"] = ["link.toml"]
    yield ("include-cycle-symlink", c, {"link.toml": "SYMLINK:main.toml"})
    c = base(root, url)
    c["include"] = ["enabled/site.toml"]
    yield ("include-cycle-symlinked-dir", c, {"available/site.toml": 'include = ["../main.toml"]\n',
                                               "enabled": "SYMLINK:available"})
    c = base(root, url)
    c["include"] = ["missing-*.toml", "nope.toml"]
    yield ("include-missing", c, {})
    # rate limits
    for nb in (0, 1, 18446744073709551615):
        for per in PERIOD_HAZARDS:
            c = base(root, url, rate=(nb, per))
            yield ("rate-%d-%s" % (nb, per[:24]), c, {})
    c = base(root, url)
    c["rate-limit"] = [{"name": "rl1", "number": 3, "period": "2s"}, {"name": "rl2", "number": 0, "period": "1h"}]
    c["endpoint"][0]["rate_limits"] = ["rl1", "rl2"]
    yield ("rate-second-zero", c, {})
    # periods in every place a period is accepted
    for per in PERIOD_HAZARDS:
        for where in ("global", "endpoint", "certificate"):
            for key in ("renew_delay", "random_early_renew"):
                c = base(root, url)
                tgt = c["global"] if where == "global" else c[where][0]
                tgt[key] = per
                yield ("%s-%s-%s" % (where, key, per[:24]), c, {})
    # malformed TOML
    text = emit(base(root, url))
    for cut in (1, 7, len(text) // 3, len(text) // 2, len(text) - 2):
        yield ("toml-truncated-%d" % cut, text[:cut], {})
    yield ("toml-garbage", "\x00\x01\xff[[[[\n= = =\n", {})
    yield ("toml-empty", "", {})
    yield ("toml-unknown-section", text + "\n[[nonsense]]\nx = 1\n", {})
    yield ("toml-dup-global", text + "\n[global]\nrenew_delay = \"1d\"\n", {})
    # identifiers
    for ident in ({"dns": "", "challenge": "http-01"}, {"ip": "999.1.1.1", "challenge": "http-01"},
                  {"ip": "::1", "challenge": "dns-01"}, {"dns": "a", "ip": "1.1.1.1", "challenge": "http-01"},
                  {"challenge": "http-01"}, {"dns": "x." * 200 + "org", "challenge": "bogus-01"},
                  {"dns": "K.example", "challenge": "tls-alpn-01"},
                  {"dns": "*." + "ü" * 80 + ".example", "challenge": "dns-01"},
                  {"dns": "\u0080" * 4000 + "\U001061c2" + ".example", "challenge": "http-01"},
                  {"dns": "x" * 64 + ".example", "challenge": "http-01"},
                  {"dns": "ü" * 63 + ".example", "challenge": "http-01"}):
        c = base(root, url)
        c["certificate"][0]["identifiers"] = [ident]
        yield ("identifier-%s" % json.dumps(ident)[:40], c, {})
    c = base(root, url)
    c["certificate"][0]["identifiers"] = []
    yield ("identifier-none", c, {})
    # duplicate certificate ids, unknown references
    c = base(root, url)
    c["certificate"].append(copy.deepcopy(c["certificate"][0]))
    yield ("duplicate-certificate", c, {})
    for key, val in (("endpoint", "nope"), ("account", "nope")):
        c = base(root, url)
        c["certificate"][0][key] = val
        yield ("unknown-%s" % key, c, {})
    c = base(root, url)
    c["endpoint"][0]["rate_limits"] = ["nope"]
    yield ("unknown-rate-limit", c, {})
    c = base(root, url)
    c["hook"][0]["stdin"] = "x"
    c["hook"][0]["stdin_str"] = "y"
    yield ("hook-both-stdin", c, {})
    c = base(root, url)
    c["account"][0]["key_type"] = "rsa2048"
    c["account"][0]["signature_algorithm"] = "ES256"
    yield ("account-alg-mismatch", c, {})
    c = base(root, url)
    c["account"][0]["external_account"] = {"identifier": "kid", "key": "!!!notbase64", "signature_algorithm": "HS256"}
    yield ("account-eab-badkey", c, {})
    c = base(root, url)
    c["global"]["file_name_format"] = "{{ name"
    yield ("bad-file-name-template", c, {})
    c = base(root, url)
    c["global"]["cert_file_mode"] = 0o777777
    yield ("huge-mode", c, {})
