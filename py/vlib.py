"""Shared machinery of the /verif checks: builds, line-protocol processes, proof audit,
evidence, violation / known-finding protocol.  See DESIGN.md sections 3-5."""
import fcntl
import hashlib
import json
import os
import random
import re
import subprocess
import sys
import time

VERIF = os.path.dirname(os.path.dirname(os.path.abspath(__file__)))
REPO = os.environ.get("VERIF_REPO", "/repo")
BUILD = os.path.join(VERIF, ".build")
TARGET = os.path.join(BUILD, "target")
LEAN = os.path.join(VERIF, "lean")
MODEL_EXE = os.path.join(LEAN, ".lake", "build", "bin", "acmed_model")
ACMED_DEV = os.path.join(TARGET, "debug", "acmed")
TACD_DEV = os.path.join(TARGET, "debug", "tacd")
TACD_REL = os.path.join(TARGET, "release", "tacd")
ACMED_REL = os.path.join(TARGET, "release", "acmed")
HELPER = os.path.join(BUILD, "helper-target", "debug", "vhelper")
FEATURE = "breard_r_acmed_verif"
ALLOWED_AXIOMS = {"propext", "Classical.choice", "Quot.sound"}
# `admit` only in tactic position (a constructor named `admit` is legitimate); any use of sorry/admit
# is caught independently by the axiom audit (sorryAx).
FORBIDDEN = re.compile(
    r"\b(sorry|native_decide|bv_decide|implemented_by|unsafe)\b|^\s*axiom\s|maxHeartbeats\s+0"
    r"|(^|\bby|;|·|<;>)\s*admit\b")

os.makedirs(BUILD, exist_ok=True)


def env_offline(extra=None):
    e = dict(os.environ)
    e.update({"CARGO_NET_OFFLINE": "true", "RUST_BACKTRACE": "0", "CARGO_TARGET_DIR": TARGET,
              "CARGO_TERM_COLOR": "never"})
    if extra:
        e.update(extra)
    return e


class Lock:
    def __init__(self, name):
        self.path = os.path.join(BUILD, name + ".lock")

    def __enter__(self):
        self.f = open(self.path, "w")
        fcntl.flock(self.f, fcntl.LOCK_EX)
        return self

    def __exit__(self, *a):
        fcntl.flock(self.f, fcntl.LOCK_UN)
        self.f.close()


def run(cmd, cwd=None, env=None, timeout=None, input=None):
    # never let a child inherit our stdin (cargo runs `rustc -`, which compiles whatever arrives there)
    kw = {"input": input} if input is not None else {"stdin": subprocess.DEVNULL}
    p = subprocess.run(cmd, cwd=cwd, env=env, timeout=timeout,
                       stdout=subprocess.PIPE, stderr=subprocess.STDOUT, text=True, **kw)
    return p.returncode, p.stdout


# --------------------------------------------------------------------------------------------
# builds (always from /repo's current working tree; cargo fingerprints make this a no-op when
# nothing changed)

def build_acmed(release=False):
    import mkindex
    mkindex.main()
    cmd = ["cargo", "build", "--offline", "-p", "acmed", "--features", FEATURE]
    if release:
        cmd.append("--release")
    with Lock("cargo"):
        rc, out = run(cmd, cwd=REPO, env=env_offline(), timeout=1800)
    if rc != 0:
        raise BuildError("cargo build acmed failed:\n" + out[-4000:])
    return ACMED_REL if release else ACMED_DEV


def build_tacd(release=False):
    cmd = ["cargo", "build", "--offline", "-p", "tacd"]
    if release:
        cmd.append("--release")
    with Lock("cargo"):
        rc, out = run(cmd, cwd=REPO, env=env_offline(), timeout=1800)
    if rc != 0:
        raise BuildError("cargo build tacd failed:\n" + out[-4000:])
    return TACD_REL if release else TACD_DEV


def build_helper():
    hdir = os.path.join(VERIF, "helper")
    if os.path.abspath(REPO) != "/repo":
        # checks run against a scratch copy of the repository: vhelper must link THAT acme_common
        import shutil
        src = hdir
        hdir = os.path.join(BUILD, "helper-src-%s" % hashlib.sha1(REPO.encode()).hexdigest()[:8])
        shutil.rmtree(hdir, ignore_errors=True)
        shutil.copytree(src, hdir, ignore=shutil.ignore_patterns("target", "Cargo.lock"))
        ct = os.path.join(hdir, "Cargo.toml")
        with open(ct) as f:
            t = f.read()
        with open(ct, "w") as f:
            f.write(t.replace("/repo/acme_common", os.path.join(os.path.abspath(REPO), "acme_common")))
    lock_src = os.path.join(REPO, "Cargo.lock")
    lock_dst = os.path.join(hdir, "Cargo.lock")
    with Lock("cargo-helper"):
        # the helper resolves with the repository's CURRENT lock file (re-copied whenever it changes)
        import shutil
        with open(lock_src, "rb") as f:
            want = hashlib.sha1(f.read()).hexdigest()
        stamp = lock_dst + ".from"
        have = open(stamp).read().strip() if os.path.exists(stamp) else None
        if not os.path.exists(lock_dst) or have != want:
            shutil.copy(lock_src, lock_dst)
            with open(stamp, "w") as f:
                f.write(want)
        rc, out = run(["cargo", "build", "--offline"], cwd=hdir,
                      env=env_offline({"CARGO_TARGET_DIR": os.path.join(BUILD, "helper-target")}),
                      timeout=1800)
    if rc != 0:
        raise BuildError("cargo build vhelper failed:\n" + out[-4000:])
    return HELPER


class BuildError(Exception):
    pass


def ensure_dev_null():
    """The sandbox runs everything as root and /dev is an ordinary tmpfs: a process that renames a file
    over /dev/null (or unlinks it) turns it into a regular file that then collects what everybody
    discards — and `rustc -`, git (GIT_CONFIG_*=/dev/null) and every `stdin=DEVNULL` child start reading
    it.  Seen once during a long session; repaired here so that a check never judges the code under
    such an environment."""
    import stat
    try:
        st = os.stat("/dev/null")
        if stat.S_ISCHR(st.st_mode):
            return
    except FileNotFoundError:
        pass
    try:
        if os.path.lexists("/dev/null"):
            os.remove("/dev/null")
        os.mknod("/dev/null", 0o666 | stat.S_IFCHR, os.makedev(1, 3))
        os.chmod("/dev/null", 0o666)
        sys.stderr.write("vlib: /dev/null was not a character device; recreated\n")
    except OSError as e:
        raise BuildError("/dev/null is not a character device and cannot be repaired: %s" % e)


def lake_build(targets):
    """Returns (ok, output)."""
    import mkindex
    mkindex.main()
    with Lock("lake"):
        rc, out = run(["lake", "build"] + list(targets), cwd=LEAN, timeout=3600)
    return rc == 0, out


def write_if_changed(path, content):
    old = None
    if os.path.exists(path):
        with open(path) as f:
            old = f.read()
    if old != content:
        os.makedirs(os.path.dirname(path), exist_ok=True)
        with open(path, "w") as f:
            f.write(content)
        return True
    return False


# --------------------------------------------------------------------------------------------
# proof audit

def lean_sources_for(prop):
    """Lean files a property's theorems live in or depend on inside the project."""
    out = []
    for root, _, files in os.walk(os.path.join(LEAN, "AcmedVerif")):
        for fn in files:
            if fn.endswith(".lean"):
                out.append(os.path.join(root, fn))
    return sorted(out)


def strip_comments(text):
    # remove /- ... -/ (nested) and -- comments
    res = []
    i, depth, n = 0, 0, len(text)
    while i < n:
        if text.startswith("/-", i):
            depth += 1
            i += 2
        elif depth > 0 and text.startswith("-/", i):
            depth -= 1
            i += 2
        elif depth > 0:
            i += 1
        elif text.startswith("--", i):
            while i < n and text[i] != "\n":
                i += 1
        else:
            res.append(text[i])
            i += 1
    return "".join(res)


def grep_forbidden():
    hits = []
    for p in lean_sources_for(None) + [os.path.join(LEAN, "Driver.lean")]:
        with open(p) as f:
            body = strip_comments(f.read())
        # string literals may legitimately contain words; drop them
        body = re.sub(r'"(\\.|[^"\\])*"', '""', body)
        for ln, line in enumerate(body.split("\n"), 1):
            if FORBIDDEN.search(line):
                hits.append("%s:%d: %s" % (os.path.relpath(p, VERIF), ln, line.strip()))
    return hits


def audit_files(prop, extra=()):
    """Audit/<prop>.lean plus every Audit/<prop><Suffix>.lean (e.g. C11Store, C17Gen) plus `extra`
    names (e.g. "FlowMisc")."""
    d = os.path.join(LEAN, "AcmedVerif", "Audit")
    names = []
    for fn in sorted(os.listdir(d)):
        if fn.endswith(".lean"):
            n = fn[:-5]
            if n == prop or (n.startswith(prop) and not n[len(prop)].isdigit()) or n in extra:
                names.append(n)
    return names


def audit(prop, extra=()):
    """Builds the Props modules of a property and runs its Audit files (`#print axioms` for every
    property theorem).  Returns dict(obligations, discharged, theorems={name: axioms|None}, ok, log)."""
    mods = audit_files(prop, extra)
    # the theorem modules are whatever the audit files import (normally Props/<same name>)
    props = []
    for m in mods:
        with open(os.path.join(LEAN, "AcmedVerif", "Audit", m + ".lean")) as f:
            for imp in re.findall(r"^import\s+(AcmedVerif\.Props\.\S+)", strip_comments(f.read()), re.M):
                if imp not in props:
                    props.append(imp)
    ok, out = lake_build(props + ["acmed_model"])
    res = {"obligations": 0, "discharged": 0, "theorems": {}, "ok": False, "log": out[-6000:],
           "forbidden": [], "modules": mods, "prop_modules": props}
    names = []
    for m in mods:
        with open(os.path.join(LEAN, "AcmedVerif", "Audit", m + ".lean")) as f:
            names += re.findall(r"#print axioms\s+(\S+)", strip_comments(f.read()))
    res["obligations"] = len(names)
    for n in names:
        res["theorems"][n] = None
    if not ok or not mods:
        res["failed_build"] = True
        return res
    aout = ""
    rc = 0
    for m in mods:
        with Lock("lake"):
            rc1, a1 = run(["lake", "env", "lean", os.path.join(LEAN, "AcmedVerif", "Audit", m + ".lean")],
                          cwd=LEAN, timeout=1800)
        rc = rc or rc1
        aout += a1
    res["audit_log"] = aout[-6000:]
    found = {}
    text = re.sub(r"\n\s+", " ", aout)
    for m in re.finditer(r"'([^']+)' depends on axioms: \[([^\]]*)\]|'([^']+)' does not depend on any axioms", text):
        if m.group(1):
            found[m.group(1)] = [a.strip() for a in m.group(2).split(",") if a.strip()]
        else:
            found[m.group(3)] = []
    bad = []
    for n in names:
        cands = [k for k in found if k == n or k.endswith("." + n) or n.endswith("." + k)]
        if not cands:
            bad.append((n, "no audit output"))
            continue
        axs = found[cands[0]]
        res["theorems"][n] = axs
        if not set(axs) <= ALLOWED_AXIOMS:
            bad.append((n, "axioms " + ",".join(axs)))
        else:
            res["discharged"] += 1
    res["bad"] = bad
    res["forbidden"] = grep_forbidden()
    res["ok"] = (rc == 0 and not bad and not res["forbidden"]
                 and res["discharged"] == res["obligations"] and res["obligations"] > 0)
    return res


def leanchecker(mods):
    outs = []
    ok = True
    for m in mods:
        with Lock("lake"):
            rc, out = run(["lake", "env", "leanchecker", m], cwd=LEAN, timeout=3600)
        ok = ok and rc == 0
        outs.append("%s rc=%d %s" % (m, rc, out[-300:]))
    return ok, outs


# --------------------------------------------------------------------------------------------
# line protocol

def lines_proc(cmd, inputs, env=None, timeout=600, cwd=None, idle=None):
    """Feeds one JSON per line, returns list of parsed outputs (None where missing/garbled)
    plus (returncode, stderr_tail).  A process that is still running after `timeout` seconds, or that has
    written no complete line for `idle` seconds (when given), is killed: the outputs it had written are
    returned, the rest is None, the return code is "hung" — the caller sees which op it hung on."""
    import select
    import threading
    data = "".join(json.dumps(i) + "\n" for i in inputs).encode()
    if cwd is None:
        # never run the code under test with /verif (or whatever the caller's directory is) as its
        # working directory: generated configurations may hold relative paths
        cwd = os.path.join(BUILD, "scratch", "cwd")
        os.makedirs(cwd, exist_ok=True)
    p = subprocess.Popen(cmd, stdin=subprocess.PIPE, stdout=subprocess.PIPE, stderr=subprocess.PIPE, env=env, cwd=cwd)
    errbuf = []

    def feed():
        try:
            p.stdin.write(data)
            p.stdin.close()
        except (BrokenPipeError, OSError, ValueError):
            pass
    threading.Thread(target=feed, daemon=True).start()
    threading.Thread(target=lambda: errbuf.append(p.stderr.read()), daemon=True).start()
    fd = p.stdout.fileno()
    buf = []
    t_end = time.time() + timeout
    last = time.time()
    hung = None
    prev = time.time()
    while True:
        now = time.time()
        if now - prev > 5:
            # the harness itself was not running (machine suspended, DESIGN section 0 episode 17): that time does not count
            last += now - prev
            t_end += now - prev
        prev = now
        if now >= t_end:
            hung = "still running after %d s" % timeout
        elif idle and now - last >= idle:
            hung = "no answer for %d s" % idle
        if hung:
            p.kill()
            break
        r, _, _ = select.select([fd], [], [], 2)
        if r:
            chunk = os.read(fd, 1 << 16)
            if not chunk:
                break
            buf.append(chunk)
            if b"\n" in chunk:
                last = time.time()
    p.wait()
    time.sleep(0.05)
    stdout = b"".join(buf).decode("utf-8", "replace")
    if hung:
        # an unfinished last line is not an answer
        stdout = stdout[:stdout.rfind("\n") + 1]
    stderr = (errbuf[0] if errbuf else b"").decode("utf-8", "replace")
    outs = []
    for ln in stdout.split("\n"):
        if not ln.strip():
            continue
        try:
            outs.append(json.loads(ln))
        except Exception:
            outs.append({"garbled": ln[:200]})
    while len(outs) < len(inputs):
        outs.append(None)
    if hung:
        return outs, "hung", ("hung: " + hung + "; " + stderr)[-2000:]
    return outs, p.returncode, stderr[-2000:]


def probe(inputs, binary=None, timeout=600, extra_env=None, idle=None):
    """Runs ops through the real code.  A process death (abort, stack overflow) is reported on
    the op that was being executed: the batch is resumed after it."""
    binary = binary or ACMED_DEV
    env = env_offline({"ACMED_VERIF_RUN": "lines"})
    if extra_env:
        env.update(extra_env)
    results = []
    todo = list(inputs)
    while todo:
        outs, rc, err = lines_proc([binary], todo, env=env, timeout=timeout, idle=idle)
        got = [o for o in outs if o is not None]
        results.extend(got)
        if len(got) == len(todo):
            break
        # process died (or was killed because it hung) on input number len(got)
        results.append({"died": True, "rc": rc, "stderr": err[-300:], **({"hung": True} if rc == "hung" else {})})
        if rc == "hung" and idle:
            # one hang is already a finding; the ops behind it are still run, with less patience
            idle = max(20, idle // 3)
        todo = todo[len(got) + 1:]
    return results


def model(inputs, timeout=600):
    # the executable may be relinked by a concurrent `lake build` (ETXTBSY / ENOENT for an instant)
    for attempt in range(6):
        try:
            outs, rc, err = lines_proc([MODEL_EXE], inputs, timeout=timeout)
            break
        except OSError:
            if attempt == 5:
                raise
            time.sleep(2.0)
    if rc != 0 or any(o is None for o in outs):
        raise RuntimeError("acmed_model failed rc=%s %s" % (rc, err))
    return outs


# --------------------------------------------------------------------------------------------
# known findings

def load_known(prop):
    path = os.path.join(VERIF, "known-findings.txt")
    out = []
    if os.path.exists(path):
        for ln in open(path):
            ln = ln.strip()
            m = re.match(r"finding:\s+property=(\S+)\s+class=(\S+)\s+(.*)", ln)
            if m and m.group(1) == prop:
                out.append({"class": m.group(2), "text": m.group(3)})
    return out


# --------------------------------------------------------------------------------------------
# the run context: collects results, decides, writes evidence

class Ctx:
    def __init__(self, prop, tier, seed, replay=None):
        self.prop = prop
        self.tier = tier
        self.seed = seed
        self.replay = replay
        self.rng = random.Random(seed)
        self.t0 = time.time()
        ensure_dev_null()
        self.evaluations = 0
        self.distinct = set()
        self.samples = []
        self.traces = 0
        self.hist = {}
        self.violations = []      # (kind, description, replay-object)
        self.broken = []          # theorem / correspondence that no longer checks
        self.known_hits = {}
        self.known = load_known(prop)
        self.audit = None
        self.assumptions = []
        self.notes = []
        self.disagreements = 0

    def quick(self):
        return self.tier == "quick"

    def count(self, key, n=1):
        self.hist[key] = self.hist.get(key, 0) + n

    def case(self, canon, nontrivial=True):
        """Register one evaluated case; `canon` is any JSON-able canonical form."""
        self.evaluations += 1
        if nontrivial:
            self.distinct.add(hashlib.sha1(json.dumps(canon, sort_keys=True).encode()).hexdigest())

    def sample(self, obj, limit=6):
        if len(self.samples) < limit:
            self.samples.append(obj)

    def violation(self, desc, replay_obj, klass=None):
        """A judged behaviour of the implementation fails the property."""
        if klass is not None:
            for k in self.known:
                if k["class"] == klass:
                    self.known_hits.setdefault(klass, {"text": k["text"], "n": 0, "example": replay_obj})
                    self.known_hits[klass]["n"] += 1
                    return
        self.violations.append((desc, replay_obj))

    def broke(self, what, detail, replay_obj=None):
        """A theorem or a correspondence no longer checks (no failing judged input by itself)."""
        self.broken.append((what, detail, replay_obj))

    def prove(self, extra=()):
        a = audit(self.prop, extra)
        self.audit = a
        if a["ok"] and self.tier == "thorough":
            # independent re-check of the compiled theorem modules by Lean's external checker
            ok, outs = leanchecker(a.get("prop_modules", []))
            a["leanchecker"] = {"ok": ok, "modules": outs}
            if not ok:
                self.broke("proof", "leanchecker rejects a compiled module", {"leanchecker": outs})
        if not a["ok"]:
            detail = {"failed_build": a.get("failed_build", False), "bad": a.get("bad"),
                      "forbidden": a.get("forbidden"), "log": a.get("log", "")[-3000:],
                      "audit_log": a.get("audit_log", "")[-2000:]}
            self.broke("proof", "Props/%s does not check or audit fails" % self.prop, detail)
        return a

    def finish(self, level="proof", trusted_base=None, rule="", extra=None):
        wall = time.time() - self.t0
        os.makedirs(os.path.join(VERIF, "replays"), exist_ok=True)
        try:
            import gen
            gen.settle_by_execution()
            for item, msg in gen.SETTLED:
                self.notes.append("translator: %s — %s" % (item, msg))
            for item, msg in gen.failures_for(self.prop):
                self.broke("translator", "py/gen.py no longer recognises the source of `%s` (%s); the previously "
                           "generated definition was kept, so the theorems were checked against a stale table" % (item, msg),
                           {"item": item, "message": msg})
        except ImportError:
            pass
        lines = []
        rc = 0
        for klass, h in sorted(self.known_hits.items()):
            lines.append("KNOWN-FINDING: property=%s class=%s n=%d %s" % (self.prop, klass, h["n"], h["text"]))
        nviol = 0
        if self.violations:
            desc, obj = self.violations[0]
            path = self._write_replay({"property": self.prop, "kind": "failing-input", "what": desc,
                                       "replay": obj, "others": [d for d, _ in self.violations[1:20]],
                                       "how": "./check %s --replay <this file>" % self.prop})
            lines.append("VIOLATION property=%s replay=%s" % (self.prop, path))
            nviol = len(self.violations)
            rc = 1
        elif self.broken:
            what, detail, obj = self.broken[0]
            path = self._write_replay({"property": self.prop, "kind": "no-failing-input-found",
                                       "no_longer_checks": what, "detail": detail, "context": obj,
                                       "all_broken": [(w, d if isinstance(d, str) else "") for w, d, _ in self.broken[:20]],
                                       "searched": self.notes})
            lines.append("VIOLATION property=%s replay=%s no-failing-input-found" % (self.prop, path))
            nviol = 1
            rc = 1
        a = self.audit or {"obligations": 0, "discharged": 0, "theorems": {}}
        cov = {
            "obligations": a["obligations"],
            "discharged": a["discharged"],
            "audit_modules": a.get("modules", []),
            "leanchecker": a.get("leanchecker"),
            "checker_cmd": "lake build AcmedVerif.Props.%s* && lake env lean AcmedVerif/Audit/%s*.lean (axioms of every property theorem within {propext, Classical.choice, Quot.sound}; source grep for sorry/admit/axiom/native_decide/bv_decide/implemented_by/unsafe)" % (self.prop, self.prop),
            "trusted_base": trusted_base or [],
            "theorems": {k: v for k, v in a["theorems"].items()},
            "evaluations": self.evaluations,
            "distinct_nontrivial": len(self.distinct),
            "rule": rule,
            "samples": self.samples if self.samples else ["(no sample)"],
            "traces_validated_against_impl": self.traces,
            "distribution": self.hist,
            "model_impl_disagreements": self.disagreements,
            "known_findings_replayed": {k: v["n"] for k, v in self.known_hits.items()},
        }
        if extra:
            cov.update(extra)
        ev = {"property_id": self.prop, "tier": self.tier, "seed": self.seed, "level": level,
              "coverage": cov, "assumptions": self.assumptions, "wall_s": round(wall, 2),
              "violations": nviol}
        with open(os.path.join(VERIF, "evidence", self.prop + ".json"), "w") as f:
            json.dump(ev, f, indent=1, sort_keys=True, default=str)
        for l in lines:
            print(l)
        print("%s: tier=%s seed=%d theorems=%d/%d evaluations=%d distinct=%d disagreements=%d wall=%.1fs -> %s" % (
            self.prop, self.tier, self.seed, a["discharged"], a["obligations"], self.evaluations,
            len(self.distinct), self.disagreements, wall, "FAIL" if rc else "ok"))
        return rc

    def _write_replay(self, obj):
        blob = json.dumps(obj, indent=1, sort_keys=True, default=str)
        h = hashlib.sha1(blob.encode()).hexdigest()[:10]
        path = os.path.join(VERIF, "replays", "%s-%s.json" % (self.prop, h))
        with open(path, "w") as f:
            f.write(blob)
        return path


def corpus(prop):
    d = os.path.join(VERIF, "corpus", prop)
    out = []
    if os.path.isdir(d):
        for fn in sorted(os.listdir(d)):
            if fn.endswith(".json"):
                with open(os.path.join(d, fn)) as f:
                    out.append(json.load(f))
    return out


def read_repo(rel):
    with open(os.path.join(REPO, rel)) as f:
        return f.read()
