#!/usr/bin/env python3
"""Confirms a seeded change in a scratch worktree of /repo and, if it holds up, files it under
/verif/seeded/<name>/.   usage: confirm_seed.py <name> <outdir> <demo command...>
 1. clean tree + demonstration           -> demo must PASS
 2. clean tree + patch                   -> the 81 existing tests must pass
 3. clean tree + patch + demonstration   -> demo must FAIL
The demo command runs with cwd = the scratch worktree; {out} in it is replaced by the seed's directory."""
import json
import os
import re
import shutil
import subprocess
import sys

W = "/tmp/seedconf"
ENV = dict(os.environ, CARGO_NET_OFFLINE="true", RUST_BACKTRACE="0", CARGO_TARGET_DIR=W + "_target")


def sh(cmd, cwd=W, timeout=1800):
    p = subprocess.run(cmd, shell=True, cwd=cwd, env=ENV, stdout=subprocess.PIPE, stderr=subprocess.STDOUT, text=True,
                       timeout=timeout)
    return p.returncode, p.stdout


def reset():
    if not os.path.isdir(W):
        rc, out = sh("git -C /repo worktree add -q --detach %s HEAD" % W, cwd="/")
        assert rc == 0, out
    sh("git checkout -q --detach && git reset -q --hard && git clean -q -fd")
    rc, out = sh("git -C /repo rev-parse HEAD", cwd="/")
    sh("git checkout -q --detach %s" % out.strip())


def main():
    name, out = sys.argv[1], sys.argv[2]
    demo_cmd = " ".join(sys.argv[3:]).replace("{out}", out)
    patch = os.path.join(out, "patch.diff")
    demo = os.path.join(out, "demo.diff")
    res = {"demo_cmd": demo_cmd}
    # 1. clean + demo
    reset()
    if os.path.exists(demo):
        rc, o = sh("git apply %s" % demo)
        assert rc == 0, "demo.diff does not apply on the clean tree: " + o
    rc, o = sh(demo_cmd)
    res["demo_passes_without_patch"] = rc == 0
    res["clean_demo_tail"] = o[-600:]
    # 2. clean + patch: existing tests
    reset()
    rc, o = sh("git apply %s" % patch)
    assert rc == 0, "patch.diff does not apply: " + o
    rc, o = sh("cargo test --workspace --no-fail-fast --offline 2>&1")
    passed = sum(int(m) for m in re.findall(r"test result: ok\. (\d+) passed", o))
    failed = re.findall(r"test result: FAILED", o)
    res["tests_pass_with_patch"] = rc == 0 and passed >= 81 and not failed
    res["tests_passed_count"] = passed
    # 3. patch + demo
    if os.path.exists(demo):
        rc, o2 = sh("git apply %s" % demo)
        assert rc == 0, "demo.diff does not apply on the patched tree: " + o2
    rc, o = sh(demo_cmd)
    res["demo_fails_with_patch"] = rc != 0
    res["patched_demo_tail"] = o[-900:]
    reset()
    ok = res["demo_passes_without_patch"] and res["tests_pass_with_patch"] and res["demo_fails_with_patch"]
    res["confirmed"] = ok
    print(json.dumps({k: v for k, v in res.items() if not k.endswith("_tail")}, indent=1))
    if not ok:
        print(res["clean_demo_tail"], "\n-----\n", res["patched_demo_tail"])
        sys.exit(1)
    dst = os.path.join("/verif/seeded", name)
    shutil.rmtree(dst, ignore_errors=True)
    shutil.copytree(out, dst, ignore=shutil.ignore_patterns("target", "target_clean", "target*", "work", "*.log"))
    meta = {}
    mp = os.path.join(dst, "meta.json")
    if os.path.exists(mp):
        try:
            meta = json.load(open(mp))
        except Exception:
            meta = {"raw_meta": open(mp).read()}
    meta["confirmed_by_main"] = {k: v for k, v in res.items() if not k.endswith("_tail")}
    meta["confirmed_by_main"]["how"] = ("scratch worktree %s of /repo HEAD: (1) demo on clean tree passes, (2) "
                                        "cargo test --workspace with patch.diff: %d passed, (3) demo with patch fails" % (W, passed))
    json.dump(meta, open(mp, "w"), indent=1)
    print("filed under", dst)


if __name__ == "__main__":
    main()
