#!/bin/sh
# usage: py/mutant.sh <patch.diff> <Cxx> [<Cyy> ...]   — runs checks against a scratch copy of /repo with
# the patch applied (never touches /repo); prints the last lines of each check.
set -e
PATCH="$(readlink -f "$1")"; shift
W=/tmp/mt_repo_$$
rm -rf "$W"; mkdir -p "$W"
rsync -a --exclude target /repo/ "$W/repo/"
git -C "$W/repo" apply "$PATCH"
for c in "$@"; do
  echo "== $c on mutant $(basename "$PATCH")"
  (cd /verif && VERIF_REPO="$W/repo" ./check "$c" 2>&1 | tail -3) || true
done
rm -rf "$W"
