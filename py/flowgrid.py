"""Single-fault grid and multi-fault scripts for the flow properties (C03, C07, C04, C05):
every request position x every fault kind x {no pair, matching pair installed} x kp_reuse."""
import hashlib
import json
import os

import flow
import gen
import mockca

ERR = mockca.ERR
IDENTS = [{"dns": "one.example.org", "challenge": "http-01"}, {"dns": "two.example.org", "challenge": "dns-01"}]

# request positions of one issuance with two identifiers (kind, nth occurrence of that kind)
POSITIONS = [("directory", 0), ("newAccount", 0), ("newOrder", 0),
             ("authz", 0), ("challenge", 0), ("authz", 1), ("authz", 2), ("challenge", 1), ("authz", 3),
             ("order", 0), ("finalize", 0), ("order", 1), ("cert", 0)]
POS_NAMES = {("authz", 0): "authz1-fetch", ("authz", 1): "authz1-poll", ("authz", 2): "authz2-fetch",
             ("authz", 3): "authz2-poll", ("challenge", 0): "challenge1", ("challenge", 1): "challenge2",
             ("order", 0): "order-poll-ready", ("order", 1): "order-poll-valid"}


def pos_name(p):
    return POS_NAMES.get(tuple(p), p[0])


def problem(typ, status=400, nonce="fresh"):
    body = {"detail": "injected", "status": status}
    if typ is not None:
        body["type"] = (ERR + typ) if typ else "urn:example:unknown-error"
    return {"status": status, "ctype": "application/problem+json", "body": body, "nonce": nonce}


def fault_catalogue():
    """(label, answer, times) — times = how many consecutive occurrences get the fault."""
    out = []
    for t in gen.error_suffixes():
        out.append(("err:" + t, problem(t), 1))
        out.append(("err10:" + t, problem(t), 10))
    out.append(("err:unknown-urn", problem(""), 1))
    out.append(("err:no-type", problem(None), 1))
    out.append(("err:no-nonce", problem("serverInternal", 500, nonce="none"), 1))
    out.append(("err:ill-typed-member", {"status": 503, "ctype": "application/problem+json",
                                         "body": {"type": ERR + "serverInternal", "status": "503"}}, 1))
    out.append(("nonjson-500", {"status": 500, "body": "<html>oops</html>", "ctype": "text/html"}, 1))
    out.append(("empty-404", {"status": 404, "body": "", "ctype": "text/plain"}, 1))
    out.append(("drop", {"drop": True}, 1))
    # redirections (mockca `redirect` answers): a GET follows them itself, one rate-limited request at a time;
    # to a POST a 3xx answer is an error answer and nothing is sent to the Location
    out.append(("redirect-302", {"redirect": 302, "hops": 2, "to": "rel"}, 1))
    out.append(("redirect-307", {"redirect": 307, "hops": 1, "to": "abs"}, 1))
    out.append(("2xx-invalid-nonce", {"process": True, "nonce": "invalid"}, 1))
    out.append(("2xx-no-nonce", {"process": True, "nonce": "none"}, 1))
    out.append(("2xx-not-json", {"status": 200, "body": "not json at all", "ctype": "application/json"}, 1))
    out.append(("2xx-empty-object", {"status": 200, "body": {}}, 1))
    out.append(("2xx-no-location", {"process": True, "location": None}, 1))
    out.append(("2xx-status-invalid", {"process": True, "patch": {"status": "invalid"}}, 1))
    out.append(("2xx-status-bogus", {"process": True, "patch": {"status": "bogus"}}, 1))
    out.append(("2xx-status-deactivated", {"process": True, "patch": {"status": "deactivated"}}, 1))
    out.append(("2xx-missing-fields", {"process": True, "drop_keys": ["status", "finalize", "challenges"]}, 1))
    out.append(("2xx-no-certificate-url", {"process": True, "drop_keys": ["certificate"]}, 1))
    out.append(("cert-not-pem", {"status": 200, "body": "oops, not a certificate", "ctype": "text/plain"}, 1))
    out.append(("cert-truncated", {"status": 200, "body": "-----BEGIN CERTIFICATE-----\nMIIB", "ctype": "application/pem-certificate-chain"}, 1))
    out.append(("cert-other-key", {"other_key_cert": True}, 1))
    out.append(("cert-chain-reversed", {"chain_reversed": True}, 1))
    # the first block is the right certificate, a LATER block is not a certificate at all
    garbage = "-----BEGIN CERTIFICATE-----\nMIIBgarbagegarbage\n-----END CERTIFICATE-----\n"
    out.append(("cert-later-block-garbage", {"chain_opts": {"chain_sep": garbage, "chain_len": 3}}, 1))
    out.append(("cert-last-block-garbage", {"chain_opts": {"chain_tail": garbage}}, 1))
    out.append(("cert-last-block-truncated", {"chain_opts": {"chain_tail": "-----BEGIN CERTIFICATE-----\nMIIB"}}, 1))
    return out


SAN_KINDS = ["subset", "cn-only", "no-san", "other-case", "extra", "reordered"]


def san_catalogue():
    """Issuances without any protocol fault whose end-entity certificate carries the key of the CSR but a CHOSEN
    subjectAltName set (mock CA option `leaf_sans`): a subset of the names, the missing name only as subject CN, no
    extension at all, a name in another letter case, one name more, another order.  For C03 such a certificate is a
    parseable chain whose leaf key matches: whether it is installed or refused, certificate and key must go together
    (what the renewal schedule makes of the names is C06's matter).  Position `cert`."""
    return [("cert-san-" + k, {"leaf_sans": k}, 1) for k in SAN_KINDS]


def applicable(pos, label):
    kind = pos[0]
    if label.startswith("cert-"):
        return kind == "cert"
    if label == "2xx-no-location":
        return kind in ("newAccount", "newOrder")
    if label.startswith("2xx-status") or label == "2xx-missing-fields":
        return kind in ("authz", "order", "newOrder", "finalize")
    if label == "2xx-no-certificate-url":
        return pos == ("order", 1) or tuple(pos) == ("order", 1)
    return True


def grid(kp_reuse_values=(False, True), pair_values=(False, True), san=False):
    out = []
    cat = fault_catalogue() + (san_catalogue() if san else [])
    for pos in POSITIONS:
        for label, ans, times in cat:
            if not applicable(pos, label):
                continue
            for pair in pair_values:
                for kp in kp_reuse_values:
                    out.append({"pos": list(pos), "fault": label, "answer": ans, "times": times,
                                "pair": pair, "kp_reuse": kp})
    return out


def key_id(pub_der_hex):
    return int(hashlib.sha256(bytes.fromhex(pub_der_hex)).hexdigest()[:12], 16)


def files_obs(helper, cert_text, key_text):
    """FilesObs of Spec.C03 from file contents (None = absent)."""
    obs = {"cert_present": cert_text is not None, "cert_parses": False, "leaf_key": None, "key_file_key": None}
    if cert_text is not None:
        pc = helper.call({"op": "parse_cert", "pem": cert_text})
        if "pub_der_hex" in pc:
            obs["cert_parses"] = True
            obs["leaf_key"] = key_id(pc["pub_der_hex"])
    if key_text is not None:
        pk = helper.call({"op": "pub_of_key", "pem": key_text})
        if "pub_der_hex" in pk:
            obs["key_file_key"] = key_id(pk["pub_der_hex"])
    return obs


def read_text(path):
    try:
        with open(path) as f:
            return f.read()
    except (FileNotFoundError, UnicodeDecodeError):
        try:
            with open(path, "rb") as f:
                return f.read().decode(errors="replace")
        except FileNotFoundError:
            return None


def run_fault(sc, root, helper, n_postop=1, extra_opts=None, hook_exits=None, timeout=40):
    """One daemon run with one injected fault.  Returns the observation dict."""
    d = os.path.join(root, "g%d" % sc["idx"])
    os.makedirs(os.path.join(d, "certs"), exist_ok=True)
    crt, key = os.path.join(d, "certs", "crt_ecdsa-p256.crt.pem"), os.path.join(d, "certs", "crt_ecdsa-p256.pk.pem")
    if sc.get("pair"):
        r = helper.call({"op": "selfsigned", "dns": [i["dns"] for i in IDENTS], "ips": [],
                         "not_after_offset": 86400, "type": "ecdsa-p256"})
        with open(crt, "w") as f:
            f.write(r["cert_pem"])
        with open(key, "w") as f:
            f.write(r["key_pem"])
    initial = files_obs(helper, read_text(crt), read_text(key))
    initial_raw = (read_text(crt), read_text(key))
    ans = dict(sc["answer"])
    opts = dict(extra_opts or {})
    rules = []
    if ans.pop("chain_reversed", False):
        opts["chain_order"] = "reversed"
        opts["chain_len"] = 3
    elif "chain_opts" in ans:
        opts.update(ans.pop("chain_opts"))
    elif "leaf_sans" in ans:
        opts.setdefault("leaf_sans", ans.pop("leaf_sans"))      # (a scenario's own `ca_opts` may say: per issuance)
    elif ans.pop("other_key_cert", False):
        other = helper.call({"op": "selfsigned", "dns": [i["dns"] for i in IDENTS], "ips": [], "not_after_offset": 90 * 86400})
        opts["cert_body"] = other["cert_pem"]
    else:
        rule = {"kind": sc["pos"][0], "answer": ans, "label": sc["fault"]}
        if sc["times"] == 1:
            rule["nth"] = sc["pos"][1]
        else:
            rule["from"] = sc["pos"][1]
            rule["times"] = sc["times"]
        rules.append(rule)
    # multi-fault scripts: the faults listed under "second" / "more" are injected as well
    for fs in ([sc["second"]] if sc.get("second") else []) + list(sc.get("more") or []):
        add_fault(fs, opts, rules, helper)
    cert = {"name": "crt", "identifiers": IDENTS, "kp_reuse": bool(sc.get("kp_reuse")), "key_type": "ecdsa_p256"}
    if sc.get("random_early_renew"):
        # non-default jitter: with an installed certificate that is already due, the time left is zero
        cert["random_early_renew"] = sc["random_early_renew"]
    obs = flow.run_scenario(d, [cert], ca_opts=opts, rules=rules, n_postop=n_postop, timeout=timeout,
                            helper=helper, hook_exits=hook_exits)
    posts = [h for h in obs["hooks"] if h["name"] == "rec-post-operation"]
    final_raw = (read_text(crt), read_text(key))
    snap = None
    if posts:
        f = posts[0].get("files", {})
        snap = ((f.get(crt) or {}).get("text") if f.get(crt) else None,
                (f.get(key) or {}).get("text") if f.get(key) else None)
    obs.update({"sc": sc, "initial": initial, "initial_raw": initial_raw, "final_raw": final_raw,
                "post_snap": snap, "posts": posts, "crt_path": crt, "key_path": key})
    return obs


def add_fault(fs, opts, rules, helper):
    """One more fault (an entry of `grid()`) for the same run: one more rule of the mock CA, or one
    more switch of it.  When two rules name the same request, the first one answers it."""
    ans = dict(fs["answer"])
    if ans.pop("chain_reversed", False):
        opts["chain_order"] = "reversed"
        opts["chain_len"] = 3
    elif "chain_opts" in ans:
        opts.update(ans.pop("chain_opts"))
    elif "leaf_sans" in ans:
        opts.setdefault("leaf_sans", ans.pop("leaf_sans"))
    elif ans.pop("other_key_cert", False):
        other = helper.call({"op": "selfsigned", "dns": [i["dns"] for i in IDENTS], "ips": [], "not_after_offset": 90 * 86400})
        opts["cert_body"] = other["cert_pem"]
    else:
        rule = {"kind": fs["pos"][0], "answer": ans, "label": fs["fault"]}
        if fs["times"] == 1:
            rule["nth"] = fs["pos"][1]
        else:
            rule["from"] = fs["pos"][1]
            rule["times"] = fs["times"]
        rules.append(rule)


def faults_fired(obs):
    """Labels of the injected rules that answered a request, in the order they fired."""
    return [e["rule"] for e in obs["ca"] if e["kind"] == "req" and e.get("rule")]


def fault_hit(obs):
    """Did the injected fault actually fire (the flow reached that position)?"""
    return any(e.get("rule") for e in obs["ca"] if e["kind"] == "req") or obs["sc"]["fault"] in ("cert-other-key", "cert-chain-reversed") \
        or "-block-" in obs["sc"]["fault"] or any(e["kind"] == "issued" and e.get("leaf_sans") for e in obs["ca"])


def attempts_of(obs):
    """Split the CA log + hook log of one certificate into attempts (each starts with the GET of the
    directory) and pair each with its post-operation records."""
    starts = [e for e in obs["ca"] if e["kind"] == "req" and e["rk"] == "directory"]
    posts = obs["posts"]
    out = []
    for i, s in enumerate(starts):
        t0 = s["t"]
        t1 = starts[i + 1]["t"] if i + 1 < len(starts) else None
        mine = [p for p in posts if p["t"] >= t0 and (t1 is None or p["t"] < t1)]
        served = [e.get("served_cert") for e in obs["ca"] if e["kind"] == "req" and e.get("served_cert")
                  and e["t"] >= t0 and (t1 is None or e["t"] < t1)]
        hooks = [h for h in obs.get("hooks", []) if h["t"] >= t0 and (t1 is None or h["t"] < t1)]
        out.append({"start": t0, "next_start": t1, "posts": mine, "served": served, "hooks": hooks})
    return out
