"""Translators: plain data that lives in /repo's source as literals is regenerated into
lean/AcmedVerif/Gen/*.lean on every run (DESIGN 4.1).  An extractor that does not find the shape it
expects raises GenError: a broken tie, never a silent default."""
import json
import os
import re

import vlib


class GenError(Exception):
    pass


def _eval_int(expr):
    e = expr.strip().replace("_", "")
    e = re.sub(r"\b0o([0-7]+)\b", lambda m: str(int(m.group(1), 8)), e)
    e = re.sub(r"\b0x([0-9a-fA-F]+)\b", lambda m: str(int(m.group(1), 16)), e)
    if not re.fullmatch(r"[0-9+*\-/ ()]+", e):
        raise GenError("cannot evaluate integer expression: %r" % expr)
    return int(eval(e, {"__builtins__": {}}, {}))


# A translator that no longer recognises the source must not take down the checks of properties the
# item has nothing to do with: the failure is recorded, the previously generated definitions of that
# item are kept (so that everything still builds), and `Ctx.finish` turns the record into a broken
# tie ("translator") for exactly the properties the item feeds.
FAILURES = []          # (item, message)
ALL_PROPS = ["C%02d" % i for i in range(1, 21)]
RELEVANT = {
    "backoff": ["C06", "C07"],
    "units": ["C06", "C09", "C14", "C19"],
    "DEFAULT_POOL_NB_TRIES": ["C07", "C08", "C03"], "DEFAULT_POOL_WAIT_SEC": ["C07", "C08"],
    "DEFAULT_HTTP_FAIL_NB_RETRY": ["C07", "C08", "C03", "C18"], "DEFAULT_HTTP_FAIL_WAIT_SEC": ["C07", "C08"],
    "DEFAULT_HTTP_MAX_REDIRECT": ["C09", "C04", "C08"],
    "DEFAULT_CERT_FILE_MODE": ["C13", "C02"], "DEFAULT_PK_FILE_MODE": ["C13", "C02"],
    "DEFAULT_ACCOUNT_FILE_MODE": ["C13", "C11"],
    "DEFAULT_CERT_RANDOM_EARLY_RENEW": ["C06", "C14"], "DEFAULT_CERT_RENEW_DELAY": ["C06", "C14"],
    "MAX_RATE_LIMIT_SLEEP_MILISEC": ["C09", "C19"], "MIN_RATE_LIMIT_SLEEP_MILISEC": ["C09", "C19"],
    "DEFAULT_POOL_TIME": [], "DEFAULT_RENEW_FAIL_WAIT_SEC": ["C07"], "DEFAULT_KP_REUSE": ["C01", "C03"],
    "DEFAULT_HOOK_ALLOW_FAILURE": ["C10", "C20", "C07"], "DEFAULT_CSR_DIGEST": ["C01"],
    "DEFAULT_CERT_KEY_TYPE": ["C01"], "DEFAULT_ACCOUNT_KEY_TYPE": ["C11", "C04"],
    "DEFAULT_EXTERNAL_ACCOUNT_JWA": ["C04", "C11"],
    "MAX_HOOK_GROUP_DEPTH": ["C10", "C14", "C19"], "MAX_HOOK_GROUP_MEMBERS": ["C10", "C14", "C19"],
    "MAX_INCLUDE_DEPTH": ["C14", "C19"],
    "man_vars": ["C10"], "default_hooks": ["C20"], "profile": ["C17"], "global_merge": ["C13", "C14"],
    "trust": ["C18"], "senders": ["C09", "C12", "C04", "C08"],
    "lower": ["C01", "C16", "C05", "C06"],
}


def failures_for(prop):
    return [(i, m) for i, m in FAILURES if prop in RELEVANT.get(i, ALL_PROPS)]


def _settle_global_merge():
    """`mergedOptions` (which [global] options of an included file reach the result) re-established by
    EXECUTION: for every option of the kept list of fields, the real loader reads a main file that sets
    the option to A and includes a file that sets it to B; the option is merged iff B shows in the
    result.  Complete over the options (the domain is the field list)."""
    pend = [(i, m) for i, m in FAILURES if i == "global_merge"]
    if not pend:
        return
    import shutil
    d = os.path.join(vlib.BUILD, "scratch", "gen-settle-%d" % os.getpid())
    try:
        text = open(os.path.join(vlib.LEAN, "AcmedVerif", "Gen", "GlobalMerge.lean")).read()
        fields = json.loads(re.search(r"def globalOptions : List String := (\[.*\])", text).group(1))
        merged = json.loads(re.search(r"def mergedOptions : List String := (\[.*\])", text).group(1))
        shapes = [('"value-a"', '"value-b"'), ("384", "416"), ('["item-a"]', '["item-b"]'), ('{ K = "a" }', '{ L = "b" }')]
        shutil.rmtree(d, ignore_errors=True)
        ops, meta = [], []
        for f in fields:
            for k, (a, b) in enumerate(shapes):
                for which, (ma, inc) in (("a", (a, None)), ("ab", (a, b))):
                    dd = os.path.join(d, "%s-%d-%s" % (f, k, which))
                    os.makedirs(dd)
                    with open(os.path.join(dd, "main.toml"), "w") as fh:
                        fh.write(('include = ["inc.toml"]\n' if inc else "") + "[global]\n%s = %s\n" % (f, ma))
                    if inc:
                        with open(os.path.join(dd, "inc.toml"), "w") as fh:
                            fh.write("[global]\n%s = %s\n" % (f, inc))
                    ops.append({"op": "c14_cnf", "path": os.path.join(dd, "main.toml")})
                    meta.append((f, k, which))
        res = vlib.probe(ops, timeout=600)
        got = {}
        for (f, k, which), r in zip(meta, res):
            got[(f, k, which)] = r.get("cnf", {}).get("global", {}).get(f) if isinstance(r, dict) and "cnf" in r else None
        by_exec = []
        for f in fields:
            ks = [k for k in range(len(shapes)) if got.get((f, k, "a")) is not None and got.get((f, k, "ab")) is not None]
            if not ks:
                raise GenError("no value shape loads for option %s" % f)
            if got[(f, ks[0], "ab")] != got[(f, ks[0], "a")]:
                by_exec.append(f)
        if sorted(by_exec) != sorted(merged):
            _fail("global_merge", "and by execution the included file's value reaches the result for %s, the kept list says %s"
                  % (sorted(by_exec), sorted(merged)))
            return
    except Exception as e:
        _fail("global_merge", "(not re-established by execution: %s)" % e)
        return
    finally:
        shutil.rmtree(d, ignore_errors=True)
    for x in pend:
        FAILURES.remove(x)
    SETTLED.append(("global_merge", "source shape not recognised (%s); the kept list of merged options was re-established "
                    "by loading a two-file configuration per option with the compiled loader" % pend[0][1]))


def settle_by_execution():
    _settle_global_merge()
    _settle_units()


def _settle_units():
    """A table whose SOURCE TEXT is no longer recognised can still be re-established by EXECUTION when
    its domain is small enough to enumerate: the unit table of duration.rs is then read off the
    compiled `parse_duration("1<c>")` for every single character c of Latin-1 (plus a few others); if
    that is exactly the table kept in Gen/Consts.lean, the tie holds (complete, not sampled) and the
    recorded failure is withdrawn."""
    pend = [(i, m) for i, m in FAILURES if i == "units"]
    if not pend:
        return
    try:
        text = open(os.path.join(vlib.LEAN, "AcmedVerif", "Gen", "Consts.lean")).read()
        table = {a: int(b) for a, b in re.findall(r"\('(.)', (\d+)\)", re.search(r"def unitTable .*", text).group(0))}
        chars = re.findall(r"'(.)'", re.search(r"def unitChars .*", text).group(0))
        cand = [chr(c) for c in range(0x20, 0x100)] + ["", "\t", "\n", "ſ", "Ｓ", "ｓ", "µ", "𝐬"]
        res = vlib.probe([{"op": "period", "s": "1" + c} for c in cand], timeout=300)
        for c, r in zip(cand, res):
            want = str(table[c]) if (c in chars and c in table) else None
            got = r.get("ok") if isinstance(r, dict) else "?"
            if got != want:
                _fail("units", "and by execution parse_duration(%r) gives %r where the kept table says %r" % ("1" + c, got, want))
                return
    except Exception as e:          # no usable build: the failure stands
        _fail("units", "(not re-established by execution: %s)" % e)
        return
    for x in pend:
        FAILURES.remove(x)
    SETTLED.append(("units", "source shape not recognised (%s); the kept table was re-established by executing the "
                    "compiled parser on every single-character unit" % pend[0][1]))


SETTLED = []


def _fail(item, msg):
    if (item, msg) not in FAILURES:
        FAILURES.append((item, msg))


def _old_defs(path, names):
    """The `def <name> …` lines of the previously generated file (kept when an item is not recognised)."""
    out = []
    if os.path.exists(path):
        for ln in open(path).read().split("\n"):
            m = re.match(r"def (\w+) ", ln)
            if m and m.group(1) in names:
                out.append(ln)
    return out


def rust_consts(src):
    """pub const NAME: T = EXPR;  honouring `#[cfg(not(feature = "breard_r_acmed_verif"))]` (shipped
    value) and skipping the `#[cfg(feature = ...)]` twin."""
    out = {}
    lines = src.split("\n")
    for i, ln in enumerate(lines):
        m = re.match(r"\s*pub const (\w+): (\w+) = (.*?);", ln)
        if not m:
            continue
        prev = lines[i - 1].strip() if i else ""
        if prev.startswith("#[cfg(feature") and vlib.FEATURE in prev:
            continue
        out[m.group(1)] = (m.group(2), m.group(3))
    return out


def gen_consts():
    main = vlib.read_repo("acmed/src/main.rs")
    c = rust_consts(main)
    path = os.path.join(vlib.LEAN, "AcmedVerif", "Gen", "Consts.lean")
    want_int = ["DEFAULT_POOL_NB_TRIES", "DEFAULT_POOL_WAIT_SEC", "DEFAULT_HTTP_FAIL_NB_RETRY",
                "DEFAULT_HTTP_FAIL_WAIT_SEC", "DEFAULT_HTTP_MAX_REDIRECT", "DEFAULT_CERT_FILE_MODE", "DEFAULT_PK_FILE_MODE",
                "DEFAULT_ACCOUNT_FILE_MODE", "DEFAULT_CERT_RANDOM_EARLY_RENEW",
                "DEFAULT_CERT_RENEW_DELAY", "MAX_RATE_LIMIT_SLEEP_MILISEC",
                "MIN_RATE_LIMIT_SLEEP_MILISEC", "DEFAULT_POOL_TIME", "DEFAULT_RENEW_FAIL_WAIT_SEC",
                "MAX_HOOK_GROUP_DEPTH", "MAX_HOOK_GROUP_MEMBERS", "MAX_INCLUDE_DEPTH"]
    want_bool = ["DEFAULT_KP_REUSE", "DEFAULT_HOOK_ALLOW_FAILURE"]
    L = ["/- GENERATED by /verif/py/gen.py from /repo (acmed/src/main.rs, duration.rs,",
         "   main_event_loop.rs, endpoint.rs) on every run. Do not edit. -/",
         "namespace AcmedVerif.Gen", ""]
    vals = {}

    def section(item, names, fn):
        try:
            L.extend(fn())
        except GenError as e:
            _fail(item, str(e))
            L.extend(_old_defs(path, names))

    for k in want_int:
        def f(k=k):
            if k not in c:
                raise GenError("constant %s not found in main.rs" % k)
            vals[k] = _eval_int(c[k][1])
            return ["def %s : Nat := %d" % (k, vals[k])]
        section(k, [k], f)
    for k in want_bool:
        def f(k=k):
            if k not in c or c[k][1].strip() not in ("true", "false"):
                raise GenError("constant %s not found in main.rs" % k)
            return ["def %s : Bool := %s" % (k, c[k][1].strip())]
        section(k, [k], f)
    for k, rust in (("DEFAULT_CSR_DIGEST", "HashFunction::"), ("DEFAULT_CERT_KEY_TYPE", "KeyType::"),
                    ("DEFAULT_ACCOUNT_KEY_TYPE", "KeyType::"),
                    ("DEFAULT_EXTERNAL_ACCOUNT_JWA", "JwsSignatureAlgorithm::")):
        def f(k=k, rust=rust):
            if k not in c or rust not in c[k][1]:
                raise GenError("constant %s not found" % k)
            return ['def %s : String := "%s"' % (k, c[k][1].split("::")[-1].strip())]
        section(k, [k], f)

    def units():
        # unit table of duration.rs
        dur = vlib.read_repo("acmed/src/duration.rs")
        m = re.search(r"fn get_multiplicator.*?match[^{]*\{(.*?)\n\t\};", dur, re.S)
        if not m:
            raise GenError("get_multiplicator match not found")
        units = re.findall(r"Some\('(.)'\)\s*=>\s*([0-9_]+)\s*,", m.group(1))
        dflt = re.search(r"_\s*=>\s*([0-9_]+)\s*,", m.group(1))
        # EVERY arm must be `pattern => plain literal,`: an arm of another shape (an expression, a guard, an
        # or-pattern) would otherwise be dropped or half-read without notice
        arms = [a for a in (x.split("//")[0].strip() for x in m.group(1).split("\n")) if a]
        plain = re.compile(r"^(Some\('.'\)|_)\s*=>\s*[0-9_]+\s*,$")
        odd = [a for a in arms if not plain.match(a)]
        if not units or not dflt or odd or len(arms) != len(units) + 1:
            raise GenError("unit table not recognised%s" % (" (arm %r)" % odd[0] if odd else ""))
        out = ["def unitTable : List (Char × Nat) := [%s]" % ", ".join(
            "('%s', %d)" % (u, _eval_int(v)) for u, v in units),
            "def unitDefault : Nat := %d" % _eval_int(dflt.group(1))]
        m = re.search(r"fn is_duration_chr\(c: char\) -> bool \{\s*(.*?)\s*\}", dur, re.S)
        if not m:
            raise GenError("is_duration_chr not found")
        chars = re.findall(r"c == '(.)'", m.group(1))
        if "&&" in m.group(1) or not chars:
            raise GenError("is_duration_chr shape not recognised")
        out.append("def unitChars : List Char := [%s]" % ", ".join("'%s'" % ch for ch in chars))
        return out
    section("units", ["unitTable", "unitDefault", "unitChars"], units)

    def backoff():
        # back-off array of renew_certificate: a local `let backoff = [...]` or a constant / static
        # array whose name contains BACKOFF
        mel = vlib.read_repo("acmed/src/main_event_loop.rs")
        ms = re.findall(r"let\s+(?:mut\s+)?backoff\w*\s*(?::[^=]+)?=\s*\[(.*?)\];", mel, re.S)
        ms += re.findall(r"(?:const|static)\s+\w*BACKOFF\w*\s*:[^=]+=\s*\[(.*?)\];", mel, re.S)
        if len(ms) != 1:
            raise GenError("back-off array of renew_certificate not found (or found %d times)" % len(ms))
        bo = [_eval_int(x) for x in ms[0].split(",") if x.strip()]
        return ["def backoff : List Nat := [%s]" % ", ".join(str(b) for b in bo)]
    section("backoff", ["backoff"], backoff)
    L += ["", "end AcmedVerif.Gen", ""]
    vlib.write_if_changed(path, "\n".join(L))
    return vals


def _lstr(xs):
    return "[" + ", ".join(json.dumps(x) for x in xs) + "]"


def gen_global_merge():
    """Fields of `struct GlobalOptions` and the fields assigned in read_cnf's [global] merge block."""
    src = vlib.read_repo("acmed/src/config.rs")
    m = re.search(r"pub struct GlobalOptions \{(.*?)\n\}", src, re.S)
    if not m:
        raise GenError("struct GlobalOptions not found")
    fields = re.findall(r"pub (\w+):", m.group(1))
    m = re.search(r"else if let Some\(new_glob\) = add_cnf\.global \{(.*?)config\.global = Some\(tmp_glob\);", src, re.S)
    if not m:
        raise GenError("[global] merge block of read_cnf not found")
    block = m.group(1)
    merged = []
    for mm in re.finditer(r"set_cfg_attr!\(\s*tmp_glob\.(\w+),\s*new_glob\.(\w+)\s*\)|tmp_glob\.(\w+)\.extend\(new_glob\.(\w+)\)", block):
        a, b = (mm.group(1), mm.group(2)) if mm.group(1) else (mm.group(3), mm.group(4))
        if a != b:
            raise GenError("merge line assigns %s from %s" % (a, b))
        merged.append(a)
    if len(fields) < 5 or not merged:
        raise GenError("GlobalOptions shape not recognised")
    text = ("/- GENERATED by /verif/py/gen.py from /repo/acmed/src/config.rs on every run. Do not edit.\n"
            "   globalOptions = fields of struct GlobalOptions (declaration order); mergedOptions = fields\n"
            "   assigned in the [global] merge block of read_cnf (assignment order). -/\n"
            "namespace AcmedVerif.Gen\n\n"
            "def globalOptions : List String := %s\n"
            "def mergedOptions : List String := %s\n\nend AcmedVerif.Gen\n" % (_lstr(fields), _lstr(merged)))
    vlib.write_if_changed(os.path.join(vlib.LEAN, "AcmedVerif", "Gen", "GlobalMerge.lean"), text)
    return fields, merged


def gen_trust():
    hits = []
    adders = []
    disabled = False
    base = os.path.join(vlib.REPO, "acmed", "src")
    for root, _, files in os.walk(base):
        for fn in sorted(files):
            if not fn.endswith(".rs"):
                continue
            p = os.path.join(root, fn)
            fn_name = "?"
            for ln, line in enumerate(open(p), 1):
                code = line.split("//")[0]
                mfn = re.search(r"\bfn\s+(\w+)", code)
                if mfn:
                    fn_name = mfn.group(1)
                # every place that widens or replaces the trust anchors, with the function it sits in
                if re.search(r"\.add_root_certificate\s*\(|use_preconfigured_tls|\.identity\s*\(|tls_certs_only|"
                             r"\.use_rustls_tls\s*\(", code):
                    adders.append("%s::%s" % (os.path.relpath(p, base)[:-3].replace("/", "::"), fn_name))
                if re.search(r"danger_accept_invalid_(certs|hostnames)", code):
                    hits.append("%s:%d: %s" % (os.path.relpath(p, vlib.REPO), ln, code.strip()))
                if re.search(r"tls_built_in_(root|native|webpki)_certs\(\s*false\s*\)", code):
                    disabled = True
                    hits.append("%s:%d: %s" % (os.path.relpath(p, vlib.REPO), ln, code.strip()))
    text = ("/- GENERATED by /verif/py/gen.py from a scan of /repo/acmed/src/**/*.rs on every run. Do not edit. -/\n"
            "namespace AcmedVerif.Gen\n\n"
            "def dangerCalls : List String := %s\n"
            "def builtinRootsDisabled : Bool := %s\n"
            "/-- functions of acmed/src in which trust anchors are added or the TLS back end is replaced -/\n"
            "def rootAdders : List String := %s\n\nend AcmedVerif.Gen\n"
            % (_lstr(hits), "true" if disabled else "false", _lstr(adders)))
    vlib.write_if_changed(os.path.join(vlib.LEAN, "AcmedVerif", "Gen", "Trust.lean"), text)
    return hits


def error_suffixes():
    src = vlib.read_repo("acmed/src/acme_proto/structs/error.rs")
    suf = re.findall(r'"urn:ietf:params:acme:error:(\w+)"', src)
    if len(suf) < 10:
        raise GenError("ACME error URNs not found in error.rs")
    seen = []
    for x in suf:
        if x not in seen:
            seen.append(x)
    return seen


def gen_tables():
    """Tables produced by the COMPILED code (probe op `tables`): needs the hooked build."""
    t = vlib.probe([{"op": "tables", "error_suffixes": error_suffixes() + [""]}])[0]
    if not isinstance(t, dict) or "acme_errors" not in t:
        raise GenError("probe op tables failed: %r" % (t,))
    rows = ",\n  ".join("(%s, %s, %s)" % (json.dumps(a), json.dumps(b), "true" if c else "false")
                        for a, b, c in t["acme_errors"])
    hm = ",\n  ".join("(%s, %s)" % (json.dumps(k), _lstr(v)) for k, v in t["hook_data_members"])
    kt = ",\n  ".join("(%s, %s, %s)" % (json.dumps(k["name"]), json.dumps(k["default_alg"]),
                                        _lstr([a for a, ok in k["compat"] if ok])) for k in t["key_types"])
    text = ("/- GENERATED by /verif/py/gen.py from the COMPILED Rust code (probe op `tables`) on every run.\n"
            "   Do not edit. -/\nnamespace AcmedVerif.Gen\n\n"
            "/-- (URN suffix, Rust variant, is_recoverable); the last row stands for every other string. -/\n"
            "def acmeErrors : List (String × String × Bool) := [\n  %s]\n\n"
            "/-- serde member names of the three hook data structs. -/\n"
            "def hookDataMembers : List (String × List String) := [\n  %s]\n\n"
            "/-- (key type, default JWS algorithm, compatible algorithms). -/\n"
            "def keyTypes : List (String × String × List String) := [\n  %s]\n\n"
            "def hashFunctions : List String := %s\n"
            "def supportedChallengesDns : List String := %s\n"
            "def supportedChallengesIp : List String := %s\n\nend AcmedVerif.Gen\n"
            % (rows, hm, kt, _lstr(t["hashes"]), _lstr(t["supported_challenges"]["dns"]),
               _lstr(t["supported_challenges"]["ip"])))
    vlib.write_if_changed(os.path.join(vlib.LEAN, "AcmedVerif", "Gen", "Tables.lean"), text)
    return t


def gen_lower():
    """Unicode lower-casing as the COMPILED std does it (probe op `lower_tables`, probe/ops_lower.rs:
    EVERY scalar value is executed, nothing sampled): the per-character table of `char::to_lowercase`
    and the two sets `str::to_lowercase` consults around U+03A3.  Needs the hooked build.  Soft failure
    per item: an item that cannot be re-established keeps its previous definition and is recorded."""
    path = os.path.join(vlib.LEAN, "AcmedVerif", "Gen", "Lower.lean")
    names = ["unicodeVersion", "lowerMap", "ignorableRanges", "casedRanges"]
    head = ["/- GENERATED by /verif/py/gen.py from the COMPILED Rust std (probe op `lower_tables`, probe/ops_lower.rs:",
            "   every Unicode scalar value executed) on every run. Do not edit.",
            "   lowerMap: (c, c.to_lowercase()) for every c whose lower-casing is not [c], sorted by c.",
            "   ignorableRanges / casedRanges: inclusive ranges, sorted, disjoint: the characters `str::to_lowercase`",
            "   skips when it looks for the neighbours of U+03A3, and the not skipped ones that count as cased. -/",
            "set_option maxRecDepth 65536", "namespace AcmedVerif.Gen", ""]
    L = list(head)
    try:
        t = vlib.probe([{"op": "lower_tables"}], timeout=900)[0]
    except Exception as e:          # no usable build
        t = {"error": "probe failed: %s" % e}
    if not isinstance(t, dict) or "lower" not in t:
        _fail("lower", "probe op lower_tables failed: %r" % (t,))
        old = _old_defs(path, names)
        if len(old) == len(names):
            return None
        raise GenError("probe op lower_tables failed and there is no previous Gen/Lower.lean: %r" % (t,))

    def section(item_names, fn):
        try:
            L.extend(fn())
        except GenError as e:
            _fail("lower", str(e))
            L.extend(_old_defs(path, item_names))

    def sorted_ranges(rs, what):
        prev = -2
        for lo, hi in rs:
            if not (prev + 1 < lo <= hi <= 0x10FFFF):
                raise GenError("%s ranges not sorted / disjoint at %r" % (what, (lo, hi)))
            prev = hi
        return rs

    def consistent():
        if t.get("scalars") != 0x110000 - 0x800:
            raise GenError("lower_tables executed %r scalar values, not all of them" % t.get("scalars"))
        if t.get("n_inconsistent") != 0:
            raise GenError("str::to_lowercase is not explained by (per-character table, one skipped set, one cased set): "
                           "%d exceptions, first %r" % (t.get("n_inconsistent"), t.get("inconsistent")))

    def version():
        v = t.get("unicode_version")
        if not isinstance(v, str) or not re.fullmatch(r"\d+\.\d+\.\d+", v):
            raise GenError("unicode version not reported")
        return ['def unicodeVersion : String := "%s"' % v]

    def lower_map():
        consistent()
        rows, prev = [], -1
        for c, out in t["lower"]:
            if not (prev < c <= 0x10FFFF) or not (1 <= len(out) <= 3) or out == [c]:
                raise GenError("lower table row not recognised: %r" % ((c, out),))
            prev = c
            rows.append("(%d, [%s])" % (c, ", ".join(str(x) for x in out)))
        if len(rows) < 1000:
            raise GenError("only %d characters change under to_lowercase" % len(rows))
        return ["def lowerMap : Array (Nat × List Nat) := #[%s]" % ", ".join(rows)]

    def ranges(key, name):
        def f():
            consistent()
            rs = sorted_ranges(t[key], key)
            if len(rs) < 50:
                raise GenError("only %d %s ranges" % (len(rs), key))
            return ["def %s : Array (Nat × Nat) := #[%s]" % (name, ", ".join("(%d, %d)" % (a, b) for a, b in rs))]
        return f

    section(["unicodeVersion"], version)
    section(["lowerMap"], lower_map)
    section(["ignorableRanges"], ranges("ignorable", "ignorableRanges"))
    section(["casedRanges"], ranges("cased", "casedRanges"))
    L += ["", "end AcmedVerif.Gen", ""]
    vlib.write_if_changed(path, "\n".join(L))
    return t


def _braced(code, start):
    """The text from `start` to the brace that closes the first `{` after it (the item's own body, not
    whatever else happens to follow in the file)."""
    i = code.index("{", start)
    depth = 0
    for j in range(i, len(code)):
        if code[j] == "{":
            depth += 1
        elif code[j] == "}":
            depth -= 1
            if depth == 0:
                return code[start:j + 1]
    raise GenError("unbalanced braces")


LISTENER_ACCEPT = r"[\w.$]+\s*\.\s*accept\(\s*\)"      # `listener.accept()` (the TLS `acceptor.accept(stream)` has an argument)
_LEAVES = r"\bbreak\b|\breturn\b|\?|process::exit|panic!|unreachable!|bail!|\b(unwrap|expect)\s*\("


def _err_arm_stays(loop_text, scrutinee):
    """`match <scrutinee> { …, Err(…) => <arm> }` inside the loop: True iff the `Err` arm does not leave the loop."""
    m = re.search(r"\bmatch\s+%s\s*\{" % scrutinee, loop_text)
    if not m:
        return False
    body = _braced(loop_text, m.start())
    a = re.search(r"\bErr\s*\([^)]*\)\s*=>\s*", body)
    if not a:
        return False
    rest = body[a.end():]
    arm = _braced(rest, 0) if rest.startswith("{") else re.split(r"[,}]", rest, maxsplit=1)[0]
    return not re.search(_LEAVES, arm)


def kept_profile():
    """The facts of the Gen/Profile.lean that is in place (used by C17 when the scan fails: the histories are
    played all the same, the failed scan is reported as a broken tie)."""
    text = open(os.path.join(vlib.LEAN, "AcmedVerif", "Gen", "Profile.lean")).read()

    def flag(name):
        m = re.search(r"def %s : Bool := (true|false)" % name, text)
        return bool(m) and m.group(1) == "true"
    return {"panic": "abort" if flag("releasePanicAbort") else "unwind", "unwraps": flag("acceptResultUnwrapped")}


def gen_profile():
    """What the project ships: Cargo.toml [profile.release] panic strategy, the Makefile's --release
    build, and whether tacd's per-connection thread can panic on a failed handshake (an
    `unwrap`/`expect` on the result of `accept`)."""
    cargo = vlib.read_repo("Cargo.toml")
    m = re.search(r"\[profile\.release\](.*?)(\n\[|\Z)", cargo, re.S)
    panic = "unwind"
    if m:
        mm = re.search(r"^\s*panic\s*=\s*['\"](\w+)['\"]", m.group(1), re.M)
        if mm:
            panic = mm.group(1)
    if panic not in ("abort", "unwind"):
        raise GenError("unknown panic strategy %r" % panic)
    mk = vlib.read_repo("Makefile")
    ships_release = bool(re.search(r"cargo build --bin tacd --release", mk))
    srv = vlib.read_repo("tacd/src/openssl_server.rs")
    code = "\n".join(l.split("//")[0] for l in srv.split("\n"))
    # (the handshake's result: `acceptor.accept(stream)` — an argument; `listener.accept()` has none)
    unwraps = bool(re.search(r"\.accept\(\s*[^)\s][^)]*\)\s*\.\s*(unwrap|expect)\s*\(", code))

    def _bad(msg):
        # what was established before the loop scan failed (C17 plays its histories all the same)
        e = GenError(msg)
        e.partial = {"panic": panic, "unwraps": unwraps}
        return e
    by_call = None if ".incoming()" in code else re.search(LISTENER_ACCEPT, code)
    if (".incoming()" not in code and not by_call) or ".accept(" not in code:
        raise _bad("tacd accept loop not recognised")
    # the item (macro or function) that contains the accept loop, and every function it calls per
    # connection in the same file (one level: e.g. a `serve_client` the loop spawns)
    at = by_call.start() if by_call else code.index(".incoming()")
    starts = [m.start() for m in re.finditer(r"macro_rules!\s*\w+|\bfn\s+\w+", code) if m.start() < at]
    if not starts:
        raise _bad("tacd accept loop not recognised (no enclosing item)")
    macro = _braced(code, starts[-1])
    for fname in set(re.findall(r"\b(\w+)\s*\(", macro)):
        m2 = re.search(r"\bfn\s+%s\b" % re.escape(fname), code)
        if m2 and m2.start() != starts[-1] and fname not in ("start",):
            body2 = _braced(code, m2.start())
            if ".accept(" in body2:
                macro += "\n" + body2
    other_panics = len(re.findall(r"\b(unwrap|expect)\s*\(|panic!|unreachable!|\[[a-z_]+\s*\.\.", macro))
    # the loop itself: the block of the `for … in ….incoming()` statement, without the bodies of the
    # closures it spawns (a `return` inside a connection thread does not leave the accept loop)
    item = _braced(code, starts[-1])
    fm = None
    shape = "for"
    if by_call:
        # the listener's `accept()` called in a loop of its own: `while let Ok(…) = listener.accept() { … }`
        # (the loop ENDS at the first Err) or `loop { … listener.accept() … }`
        mw = re.search(r"\bwhile\s+let\s+Ok\s*\([^=]*\)\s*=\s*%s" % LISTENER_ACCEPT, item)
        ml = [m3 for m3 in re.finditer(r"\b(loop|while\s+true)\s*\{", item)
              if re.search(LISTENER_ACCEPT, _braced(item, m3.start()))]
        if mw:
            fm, shape = mw, "while-let"
        elif ml:
            fm, shape = ml[-1], "loop"
        else:
            raise _bad("tacd accept loop not recognised (no loop around the listener's `accept()`)")
    for m3 in ([] if by_call else re.finditer(r"\bfor\b", item)):
        if ".incoming()" in item and m3.start() < item.index(".incoming()") and \
                ".incoming()" in _braced(item, m3.start()).split("{")[0]:
            fm = m3
    if fm is None:
        # the iterator is handed to another function of the file: `accept_loop(listener.incoming(), …)`
        mcall = re.search(r"\b(\w+)\s*\(\s*[\w.]+\.incoming\(\)", item)
        mdef = re.search(r"\bfn\s+%s\b" % re.escape(mcall.group(1)), code) if mcall else None
        if not mdef:
            raise _bad("tacd accept loop not recognised (no `for … in ….incoming()`)")
        item = _braced(code, mdef.start())
        fm = re.search(r"\bfor\b", item)
        if fm is None:
            raise _bad("tacd accept loop not recognised (no loop in %s)" % mcall.group(1))
        macro += "\n" + item
        for fname in set(re.findall(r"\b(\w+)\s*\(", item)):
            m2 = re.search(r"\bfn\s+%s\b" % re.escape(fname), code)
            if m2 and m2.start() != mdef.start():
                body2 = _braced(code, m2.start())
                if ".accept(" in body2:
                    macro += "\n" + body2
        other_panics = len(re.findall(r"\b(unwrap|expect)\s*\(|panic!|unreachable!|\[[a-z_]+\s*\.\.", macro))
    loop_text = _braced(item, fm.start())
    while True:
        mc = re.search(r"\|\|\s*\{|\|\w*\|\s*\{", loop_text)
        if not mc:
            break
        blk = _braced(loop_text, mc.start())
        loop_text = loop_text.replace(blk, "<closure>", 1)
    var = re.search(r"\bfor\s+(\w+)\s+in\b", loop_text)
    v = var.group(1) if var else "stream"
    skips = bool(re.search(r"if\s+let\s+Ok\(\w+\)\s*=\s*%s\b" % v, loop_text)
                 or re.search(r"let\s+Ok\(\w+\)\s*=\s*%s\s+else\s*\{\s*continue" % v, loop_text)
                 or re.search(r"match\s+%s\s*\{[^}]*Err\([^)]*\)\s*=>\s*(continue|\{\s*continue|\(\)|\{\s*\})" % v, loop_text, re.S)
                 or re.search(r"\.incoming\(\)\s*\.\s*(flatten|filter_map)\b", item))
    if shape == "while-let":
        skips = False          # an Err makes the loop condition false
    elif shape == "loop":
        skips = bool(re.search(r"if\s+let\s+Ok\s*\([^=]*\)\s*=\s*%s" % LISTENER_ACCEPT, loop_text)
                     or re.search(r"let\s+Ok\s*\([^=]*\)\s*=\s*%s\s*else\s*\{\s*continue" % LISTENER_ACCEPT, loop_text)
                     or _err_arm_stays(loop_text, LISTENER_ACCEPT))
    # `?` / return / break / exit inside the loop leave it for good
    early = len(re.findall(r"\?\s*[;.)]|\breturn\b|\bbreak\b|process::exit|\b%s\s*\.\s*(unwrap|expect)\s*\(" % v, loop_text))
    early += len(re.findall(r"%s\s*\.\s*(unwrap|expect)\s*\(" % LISTENER_ACCEPT, loop_text))
    loop_exits = (not skips) or early > 0
    text = ("/- GENERATED by /verif/py/gen.py from /repo/Cargo.toml, Makefile, tacd/src/openssl_server.rs on\n"
            "   every run. Do not edit. -/\nnamespace AcmedVerif.Gen\n\n"
            "def releasePanicAbort : Bool := %s\n"
            "def makefileShipsRelease : Bool := %s\n"
            "/-- the per-connection thread unwraps the result of `accept` (panics on a failed handshake) -/\n"
            "def acceptResultUnwrapped : Bool := %s\n"
            "/-- other panic sites (unwrap/expect/panic!/slicing) inside the accept macro -/\n"
            "def acceptMacroPanicSites : Nat := %d\n"
            "/-- the accept loop leaves on an `Err` from `incoming()` instead of skipping it -/\n"
            "def acceptLoopExitsOnErr : Bool := %s\n\nend AcmedVerif.Gen\n"
            % tuple("true" if x is True else "false" if x is False else x for x in
                    (panic == "abort", ships_release, unwraps, other_panics, loop_exits)))
    vlib.write_if_changed(os.path.join(vlib.LEAN, "AcmedVerif", "Gen", "Profile.lean"), text)
    return {"panic": panic, "unwraps": unwraps}


def _tokenise(tpl):
    """MiniJinja subset of the shipped hooks -> token list (see lean/AcmedVerif/Model/TemplateTok.lean)."""
    toks = []
    pos = 0
    for m in re.finditer(r"\{\{(.*?)\}\}", tpl, re.S):
        if m.start() > pos:
            toks.append('.lit %s' % json.dumps(tpl[pos:m.start()]))
        expr = m.group(1).strip()
        mm = re.fullmatch(r"env\.(\w+)\s*\|\s*default\(\s*'([^']*)'\s*\)", expr)
        mv = re.fullmatch(r"env\.(\w+)\s*\|\s*default\(\s*(\w+)\s*\)", expr)
        if mm:
            toks.append('.envDefault %s (.lit %s)' % (json.dumps(mm.group(1)), json.dumps(mm.group(2))))
        elif mv:
            toks.append('.envDefault %s (.var %s)' % (json.dumps(mv.group(1)), json.dumps(mv.group(2))))
        elif re.fullmatch(r"\w+", expr):
            toks.append('.var %s' % json.dumps(expr))
        else:
            raise GenError("template construct not in the modelled subset: {{ %s }}" % expr)
        pos = m.end()
    if "{%" in tpl or "{#" in tpl:
        raise GenError("template construct not in the modelled subset: %r" % tpl)
    if pos < len(tpl):
        toks.append('.lit %s' % json.dumps(tpl[pos:]))
    return "[" + ", ".join(toks) + "]"


def gen_default_hooks():
    """The shipped default_hooks.toml IS the model of C20: regenerated into Gen/DefaultHooks.lean."""
    import tomllib
    with open(os.path.join(vlib.REPO, "acmed", "config", "default_hooks.toml"), "rb") as f:
        t = tomllib.load(f)
    L = ["/- GENERATED by /verif/py/gen.py from /repo/acmed/config/default_hooks.toml on every run.",
         "   Do not edit. Shape documented in AcmedVerif/Model/TemplateTok.lean. -/",
         "import AcmedVerif.Model.TemplateTok", "namespace AcmedVerif.Gen", "", "def defaultHooks : List GHook := ["]
    rows = []
    for h in t.get("hook", []):
        extra = set(h) - {"name", "type", "cmd", "args", "stdout", "allow_failure"}
        if extra:
            raise GenError("hook %s uses keys outside the modelled subset: %s" % (h.get("name"), sorted(extra)))
        rows.append("  { name := %s, types := %s, cmd := %s,\n    args := [%s],\n    stdout := %s, allowFailure := %s }" % (
            json.dumps(h["name"]), _lstr(h["type"]), json.dumps(h["cmd"]),
            ", ".join(_tokenise(a) for a in h.get("args", [])),
            ("some " + _tokenise(h["stdout"])) if "stdout" in h else "none",
            "true" if h.get("allow_failure", False) else "false"))
    L.append(",\n".join(rows) + "]")
    L.append("")
    L.append("def defaultGroups : List (String × List String) := [")
    L.append(",\n".join("  (%s, %s)" % (json.dumps(g["name"]), _lstr(g["hooks"])) for g in t.get("group", [])) + "]")
    L += ["", "end AcmedVerif.Gen", ""]
    vlib.write_if_changed(os.path.join(vlib.LEAN, "AcmedVerif", "Gen", "DefaultHooks.lean"), "\n".join(L))
    return t


def gen_man_vars():
    """Documented template variables per hook type, extracted from man/en/acmed.toml.5 (mdoc):
    `.It Ic <hook-type>` opens a type, the `.It Cm <name>` items of the list that follows are its
    variables; `-clean` types documented as "same as" inherit."""
    man = vlib.read_repo("man/en/acmed.toml.5")
    lines = man.split("\n")
    try:
        start = next(i for i, l in enumerate(lines) if "available types and the associated template variable" in l)
    except StopIteration:
        raise GenError("hook type section not found in the man page")
    types, cur, depth = {}, None, 0
    order = []
    refs = {}
    for li, l in enumerate(lines[start:]):
        if cur and "same as those available for the" in l:
            nxt = lines[start + li + 1] if start + li + 1 < len(lines) else ""
            m2 = re.match(r"\.Em ([\w-]+)", nxt)
            if m2:
                refs[cur] = m2.group(1)
        m = re.match(r"\.It Ic ((challenge|file|post)[\w-]*)", l)
        if m and depth <= 1:
            cur = m.group(1)
            types[cur] = []
            order.append(cur)
            continue
        if l.startswith(".Bl"):
            depth += 1
        elif l.startswith(".El"):
            depth -= 1
            if depth <= 0:
                break
        m = re.match(r"\.It Cm (\w+)", l)
        if m and cur and depth >= 2:
            types[cur].append(m.group(1))
    if len(order) < 9:
        raise GenError("only %d hook types recognised in the man page" % len(order))
    # a type without its own list refers to another one ("…see challenge-x" / clean variants)
    for t in order:
        if not types[t] and refs.get(t) in types and types[refs[t]]:
            types[t] = list(types[refs[t]])
        elif not types[t] and t.endswith("-clean") and types.get(t[:-6]):
            types[t] = list(types[t[:-6]])
        if not types[t]:
            raise GenError("no documented variables recognised for hook type %s" % t)
    rows = ",\n  ".join("(%s, %s)" % (json.dumps(t), _lstr(sorted(types[t]))) for t in order)
    text = ("/- GENERATED by /verif/py/gen.py from /repo/man/en/acmed.toml.5 on every run. Do not edit.\n"
            "   (hook type, documented template variables sorted by name) -/\nnamespace AcmedVerif.Gen\n\n"
            "def manHookVars : List (String × List String) := [\n  %s]\n\nend AcmedVerif.Gen\n" % rows)
    vlib.write_if_changed(os.path.join(vlib.LEAN, "AcmedVerif", "Gen", "ManVars.lean"), text)
    return types


def gen_senders():
    """Every async function of the two HTTP layers (acmed/src/http.rs, acme_proto/http.rs) with whether
    its parameter list has `&mut Endpoint`, and the functions in which a request is actually sent
    (`.send()`).  `&mut Endpoint` is what ties a send to the endpoint's write guard (Props/C09Serial)."""
    rows, send_in = [], []
    for rel in ("acmed/src/http.rs", "acmed/src/acme_proto/http.rs"):
        src = vlib.read_repo(rel)
        code = "\n".join(l.split("//")[0] for l in src.split("\n"))
        for m in re.finditer(r"\basync\s+fn\s+(\w+)\s*(<[^>]*>)?\s*\(", code):
            name = m.group(1)
            # parameter list up to the matching parenthesis
            i, depth = m.end() - 1, 0
            for j in range(i, len(code)):
                if code[j] == "(":
                    depth += 1
                elif code[j] == ")":
                    depth -= 1
                    if depth == 0:
                        break
            params = code[i:j + 1]
            if name.startswith("test_") or "&self" in params or name == "from_response":
                continue
            rows.append((rel.split("/")[-2] + "::" + name if "acme_proto" in rel else "http::" + name,
                         bool(re.search(r"&\s*mut\s+Endpoint", params))))
            body = _braced(code, j)
            if re.search(r"\.send\s*\(\s*\)", body):
                send_in.append(rows[-1][0])
    if len(rows) < 5 or not send_in:
        raise GenError("HTTP layer not recognised (%d async functions, %d senders)" % (len(rows), len(send_in)))
    import gen_redirect        # all of acmed/src: send sites and their limiter calls, client construction, redirect policy
    extra = gen_redirect.extra_defs()
    text = ("/- GENERATED by /verif/py/gen.py from /repo/acmed/src/http.rs and acme_proto/http.rs on every run.\n"
            "   Do not edit. -/\nnamespace AcmedVerif.Gen\n\n"
            "/-- (async function of the HTTP layers, its parameters include `&mut Endpoint`) -/\n"
            "def asyncHttpFns : List (String × Bool) := [\n  %s]\n\n"
            "/-- the functions whose body calls `.send()` -/\n"
            "def sendingFns : List String := %s\n\n%send AcmedVerif.Gen\n"
            % (",\n  ".join('(%s, %s)' % (json.dumps(n), "true" if b else "false") for n, b in rows), _lstr(send_in), extra))
    vlib.write_if_changed(os.path.join(vlib.LEAN, "AcmedVerif", "Gen", "Senders.lean"), text)
    return rows, send_in


def gen_all(with_tables=False):
    """Every translator; one that no longer recognises its source is recorded for the properties it
    feeds (its previous output stays in place) instead of stopping the others."""
    for item, fn in (("man_vars", gen_man_vars), ("default_hooks", gen_default_hooks), ("profile", gen_profile),
                     ("consts", gen_consts), ("global_merge", gen_global_merge), ("trust", gen_trust),
                     ("senders", gen_senders)):
        try:
            fn()
        except GenError as e:
            _fail(item, str(e))
    if with_tables:
        gen_tables()
