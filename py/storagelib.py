"""Shared machinery of the storage checks (C02, C13): histories of writes run through the real
storage layer (probe op `write_history`) and through `Storage.runHistory` (model op `storage_history`),
owner resolution from /etc/passwd and /etc/group done by the harness (independent of the code)."""
import concurrent.futures
import hashlib
import json
import os
import shutil
import sys

import flow
import vlib

FILE_HOOK_TYPES = ["file-pre-create", "file-post-create", "file-pre-edit", "file-post-edit"]
NAME_FORMAT = "{{ name }}_{{ key_type }}.{{ file_type }}.{{ ext }}"
U32 = 2 ** 32


def read_db(path):
    """name -> id, first entry wins (what getpwnam/getgrnam on the files back-end answers)."""
    out = {}
    with open(path) as f:
        for ln in f:
            p = ln.rstrip("\n").split(":")
            if len(p) >= 3 and p[0] and not p[0].startswith(("+", "-", "#")):
                try:
                    out.setdefault(p[0], int(p[2]))
                except ValueError:
                    pass
    return out


def world():
    return {"users": read_db("/etc/passwd"), "groups": read_db("/etc/group")}


def is_digits(s):
    return all(c in "0123456789" for c in s)


def resolve(s, table):
    """What 'the configured user/group, named or numeric' designates.  Returns ('none', None) when
    nothing is configured, ('id', n) for a number that is an id or a known name, ('unknown', None)
    for a name the database does not know, ('invalid', None) for something that is neither a name
    nor an id (empty string, number beyond 32 bits)."""
    if s is None:
        return ("none", None)
    if is_digits(s):
        if s == "" or int(s) >= U32:
            return ("invalid", None)
        return ("id", int(s))
    if s in table:
        return ("id", table[s])
    return ("unknown", None)


def owner_keys(ftype):
    if ftype == "key":
        return "pk_file_user", "pk_file_group"
    if ftype == "cert":
        return "cert_file_user", "cert_file_group"
    return None, None


def base_fm(name="crt", key_type="ecdsa-p256", account_name="acc", **kw):
    """Directories are relative to the scratch root of the history (joined by `probe_op`)."""
    fm = {"dir": "certs", "account_dir": "accounts",
          "name": name, "key_type": key_type, "account_name": account_name, "name_format": NAME_FORMAT}
    fm.update(kw)
    return fm


def file_hooks(log, spec):
    """spec: None (no hook) or {"record": bool, "pre_exit": n, "pre_allow": bool, "post_exit": n,
    "post_allow": bool}.  The same pre/post behaviour is given to the create and the edit hooks: the
    code under test chooses which pair runs."""
    if not spec:
        return []
    out = []
    for t in FILE_HOOK_TYPES:
        side = "pre" if "-pre-" in t else "post"
        code = spec.get(side + "_exit", 0)
        allow = spec.get(side + "_allow", False)
        if spec.get("record"):
            out.append(flow.recorder_hook("rec-" + t, t, log, code, allow_failure=allow))
        else:
            out.append({"name": "rec-" + t, "type": [t], "cmd": "false" if code else "true",
                        "allow_failure": allow})
    return out


def hook_ok(spec):
    if not spec:
        return {"pre_create": True, "post_create": True, "pre_edit": True, "post_edit": True}
    pre = spec.get("pre_exit", 0) == 0 or spec.get("pre_allow", False)
    post = spec.get("post_exit", 0) == 0 or spec.get("post_allow", False)
    return {"pre_create": pre, "post_create": post, "pre_edit": pre, "post_edit": post}


def step_log(root, i):
    return os.path.join(root, "hooks.%d.log" % i)


def probe_op(hist, root):
    """hist: {"umask": u, "steps": [{ftype, via?, fm, hook_spec?, data_hex|pem|account fields, pre?}]}"""
    steps = []
    for i, s in enumerate(hist["steps"]):
        log = step_log(root, i)
        fm = dict(s["fm"])
        for k in ("dir", "account_dir"):
            fm[k] = os.path.join(root, fm[k]) if not os.path.isabs(fm[k]) else fm[k]
        st = {k: v for k, v in s.items() if k not in ("fm", "hook_spec")}
        st["fm"] = fm
        st["hooks"] = file_hooks(log, s.get("hook_spec"))
        steps.append(st)
    dirs = sorted({st["fm"]["dir"] for st in steps} | {st["fm"]["account_dir"] for st in steps})
    return {"op": "write_history", "root": root, "dirs": dirs, "umask": hist["umask"], "steps": steps}


def run_histories(hists, scratch, workers=8, chunk=None):
    """Runs every history through the real code (several probe processes side by side; a history is
    always run sequentially inside one process, under its own umask).  Returns, per history,
    (root, probe output)."""
    ops = []
    for i, h in enumerate(hists):
        root = os.path.join(scratch, "h%d" % i)
        os.makedirs(root, exist_ok=True)
        ops.append(probe_op(h, root))
    n = len(ops)
    if n == 0:
        return []
    chunk = chunk or max(1, (n + workers - 1) // workers)
    parts = [ops[i:i + chunk] for i in range(0, n, chunk)]
    with concurrent.futures.ThreadPoolExecutor(max_workers=workers) as ex:
        res = list(ex.map(lambda p: vlib.probe(p, timeout=1800), parts))
    outs = [o for part in res for o in part]
    return [(op["root"], op, o) for op, o in zip(ops, outs)]


def result_class(step_out):
    r = step_out.get("result")
    if r == "ok":
        return "ok"
    msg = (r or {}).get("err", "")
    if "unable to parse the UID" in msg:
        return "parseUid"
    if "unable to parse the GID" in msg:
        return "parseGid"
    if "rec-file-pre-" in msg:
        return "preHook"
    if "rec-file-post-" in msg:
        return "postHook"
    return "other:" + msg[-80:]


def stat3(st):
    if not st:
        return None
    return {"mode": st["mode"], "uid": st["uid"], "gid": st["gid"]}


def model_op(hist, out, w, trunc=True):
    """The same history for `Storage.runHistory`: the paths are the ones the real code computed, the
    initial file system is what the probe found before the first write to each path."""
    init, seen, steps = [], set(), []
    for s, o in zip(hist["steps"], out["steps"]):
        p = o["path"]
        if p not in seen:
            seen.add(p)
            if o.get("before") is not None:
                b = o["before"]
                init.append({"path": p, "content_hex": o.get("before_content_hex") or "", "mode": b["mode"],
                             "uid": str(b["uid"]), "gid": str(b["gid"])})
        steps.append({"ftype": s["ftype"], "path": p, "data_hex": o["data_hex"], "fm": s["fm"],
                      "hook_ok": hook_ok(s.get("hook_spec"))})
    return {"op": "storage_history", "umask": hist["umask"], "uid": out["euid"], "gid": out["egid"],
            "fsetid": out["fsetid"], "trunc": trunc, "init": init, "steps": steps,
            "users": [[k, v] for k, v in w["users"].items()],
            "groups": [[k, v] for k, v in w["groups"].items()], "chown_ok": True}


def compare_step(o, m, aspects=("content", "mode", "owner")):
    """Differences between the real code and the model after one step (empty = agree).  Only the
    aspects the property at hand talks about are compared (C02: content; C13: mode and owner)."""
    diffs = []
    rc = result_class(o)
    # an error whose TEXT is not recognised still agrees with any error of the model: the wording of
    # messages is not part of any property, and the step at which the operation stopped is visible in
    # the file's existence / content / mode / owner compared below
    if rc != m["result"] and not (rc.startswith("other:") and m["result"] != "ok"):
        diffs.append("result impl=%s model=%s" % (rc, m["result"]))
    a, f = o.get("after"), m.get("file")
    if (a is None) != (f is None):
        diffs.append("existence impl=%s model=%s" % (a is not None, f is not None))
    elif a is not None:
        if "content" in aspects and o.get("content_hex") != f["content_hex"]:
            diffs.append("content impl=%d bytes model=%d bytes" % (len(o.get("content_hex") or "") // 2,
                                                                   len(f["content_hex"]) // 2))
        if "mode" in aspects and a["mode"] != f["mode"]:
            diffs.append("mode impl=%o model=%o" % (a["mode"], f["mode"]))
        if "owner" in aspects and (str(a["uid"]) != str(f["uid"]) or str(a["gid"]) != str(f["gid"])):
            diffs.append("owner impl=%s:%s model=%s:%s" % (a["uid"], a["gid"], f["uid"], f["gid"]))
    return diffs


def short(hexs, n=48):
    if hexs is None:
        return None
    return hexs if len(hexs) <= n else "%s…(%d bytes, sha256 %s)" % (
        hexs[:n], len(hexs) // 2, hashlib.sha256(bytes.fromhex(hexs)).hexdigest()[:16])


def read_hex(path):
    try:
        with open(path, "rb") as f:
            return f.read().hex()
    except FileNotFoundError:
        return None
