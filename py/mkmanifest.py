#!/usr/bin/env python3
"""Writes /verif/MANIFEST.json from the table below (keeps it schema-valid at all times)."""
import json
import os
import subprocess

VERIF = os.path.dirname(os.path.dirname(os.path.abspath(__file__)))
TECH = "Lean 4 model + kernel-checked theorems; tables regenerated from source; differential correspondence of the model with the real code; judge on implementation behaviour"

def load_claims():
    d = os.path.join(VERIF, "claims")
    out = {}
    for fn in sorted(os.listdir(d)):
        if fn.endswith(".json"):
            out[fn[:-5]] = json.load(open(os.path.join(d, fn)))
    return out


def main():
    CLAIMS = load_claims()
    props = [json.loads(l)["id"] for l in open(os.path.join(VERIF, "properties.jsonl"))]
    checks = []
    for pid in props:
        if pid not in CLAIMS:
            continue
        c = CLAIMS[pid]
        checks.append({
            "property_id": pid,
            "quick_cmd": "./check %s --tier quick" % pid,
            "thorough_cmd": "./check %s --tier thorough" % pid,
            "evidence_file": "/verif/evidence/%s.json" % pid,
            "replay_cmd_template": "./check %s --replay {path}" % pid,
            "engine": "lean4-model-proof+correspondence",
            "level_claimed": {"category": "proof", "text": c["text"], "design_ref": c["ref"]},
            "level_note": c["note"],
            "technique": TECH,
        })
    hooks = subprocess.run(["git", "-C", "/repo", "log", "--format=%H %s"], capture_output=True, text=True).stdout
    hook_commits = [l.split()[0] for l in hooks.split("\n") if "verif hook:" in l]
    m = {
        "version": 1,
        "setup_cmd": "./setup.sh",
        "hooks": {
            "guard": "breard_r_acmed_verif",
            "enable": "cargo build --offline -p acmed --features breard_r_acmed_verif (CARGO_TARGET_DIR=/verif/.build/target); the feature compiles /verif/probe/*.rs into the acmed binary and sets the poll/retry waits to 0 s",
            "baseline_off_cmd": "cd /repo && cargo test --workspace --no-fail-fast --offline",
            "source_commits": hook_commits,
            "add_only": True,
        },
        "engines": [{
            "name": "lean4-model-proof+correspondence",
            "path": "/verif/check",
            "serves_properties": [c["property_id"] for c in checks],
            "kind_free_text": "Lean 4 models (lean/AcmedVerif/Model), theorems (Props), axiom audit (Audit), compiled model driver acmed_model; in-crate probe (probe/), vhelper (helper/), mock CA and generators (py/)",
        }],
        "checks": checks,
        "not_applicable": [
            {"property_id": pid, "reason": "claim in preparation: machinery for this property is being built (see DESIGN.md section 11); not yet decided, no technique switch"}
            for pid in props if pid not in CLAIMS],
        "notes": "All checks: ./check Cxx --tier quick|thorough; evidence in /verif/evidence; repaired defects and known findings in /verif/known-findings.txt.",
    }
    with open(os.path.join(VERIF, "MANIFEST.json"), "w") as f:
        json.dump(m, f, indent=1)
    print("MANIFEST.json: %d checks, %d not_applicable" % (len(checks), len(m["not_applicable"])))


if __name__ == "__main__":
    main()
