#!/usr/bin/env python3
"""Writes /verif/MANIFEST.json from the table below (keeps it schema-valid at all times)."""
import json
import os
import subprocess

VERIF = os.path.dirname(os.path.dirname(os.path.abspath(__file__)))
TECH = "Lean 4 model + kernel-checked theorems; tables regenerated from source; differential correspondence of the model with the real code; judge on implementation behaviour"

CLAIMS = {
    "C06": dict(
        text="Proof: for every disk state, identifier list, renew_delay, random_early_renew and admissible random amount, schedule_meets_spec shows the model of schedule_renewal returns 0 when a file is missing or an identifier is not covered and otherwise a wait inside [notAfter - delay - (rer - 1 ns), notAfter - delay] truncated at 0; never_longer, never_negative_or_overflowing, no_empty_range, fresh_cert_waits, backoff_in_bounds complete the statement; far_future_old_is_false / old_agrees_below_limit keep the repaired i32 overflow expressible. Tie: the real Certificate::schedule_renewal is run on certificates made by vhelper (notAfter from far past to far future, SAN subsets/supersets/permutations, files absent or corrupt) and judged by Spec.C06.holdsOutcome, the same predicate the theorem is about.",
        note="Trusted: Lean kernel + {propext, Classical.choice, Quot.sound}; Lean compiler; probe; vhelper; OpenSSL's ASN1_TIME_diff and X.509 parsing (modelled: the difference in seconds is an input); the jitter distribution is not tested (whole interval accepted); 2 s clock slack.",
        ref="DESIGN.md section 7 C06"),
    "C19": dict(
        text="Proof (partial): period_grammar proves, for every string, that the model of parse_duration accepts exactly the documented grammar with every number/product/sum fitting 64 bits and returns the sum of the parts, and period_total that it has no panic outcome; the model is tied to duration.rs by the regenerated unit table (gen_unit_table) and by exact comparison with the real parse_duration on generated strings. Start-up totality for whole configurations (hook-group cycles, include cycles, zero/huge rate limits, malformed TOML) is validated by driving the real start-up path and first request on a hazard catalogue and field mutations; the toml/serde layer is modelled-not-verified.",
        note="Trusted: Lean kernel + {propext, Classical.choice, Quot.sound}; the Lean compiler for acmed_model; py/gen.py; the in-crate probe; nom/toml/serde semantics (transliterated or validated, not proved).",
        ref="DESIGN.md section 7 C19"),
    "C09": dict(
        text="Proof: window_safe shows for every limit set (longest period first, which mkLimits_headMax proves of RateLimit::new), every number of passes and every non-decreasing sequence of clock readings that no window (t-p, t] contains more than n admissions (ghost history, not the pruned log); admits_when_room / admits_after_quiet give progress; sleepMs_bounds totality. Tie: the child probe of endpoint.rs runs the real request_allowed / prune_log / get_sleep_duration on injected logs and the real block_until_allowed in real time; results are compared with the model and judged by the window bracket.",
        note="Proved at the admission instant (what the limiter controls); wire latency after admission, tokio timers and the kernel's monotonic clock are trusted. Call-site coverage (every HTTP path passes the limiter) is checked by the flow runs.",
        ref="DESIGN.md section 7 C09"),
}


def main():
    props = [json.loads(l)["id"] for l in open(os.path.join(VERIF, "properties.jsonl"))]
    checks = []
    for pid in props:
        if pid not in CLAIMS:
            continue
        c = CLAIMS[pid]
        checks.append({
            "property_id": pid,
            "quick_cmd": "./check %s --tier quick" % pid,
            "thorough_cmd": "./check %s --tier thorough" % pid,
            "evidence_file": "/verif/evidence/%s.json" % pid,
            "replay_cmd_template": "./check %s --replay {path}" % pid,
            "engine": "lean4-model-proof+correspondence",
            "level_claimed": {"category": "proof", "text": c["text"], "design_ref": c["ref"]},
            "level_note": c["note"],
            "technique": TECH,
        })
    hooks = subprocess.run(["git", "-C", "/repo", "log", "--format=%H %s"], capture_output=True, text=True).stdout
    hook_commits = [l.split()[0] for l in hooks.split("\n") if "verif hook:" in l]
    m = {
        "version": 1,
        "setup_cmd": "./setup.sh",
        "hooks": {
            "guard": "breard_r_acmed_verif",
            "enable": "cargo build --offline -p acmed --features breard_r_acmed_verif (CARGO_TARGET_DIR=/verif/.build/target); the feature compiles /verif/probe/*.rs into the acmed binary and sets the poll/retry waits to 0 s",
            "baseline_off_cmd": "cd /repo && cargo test --workspace --no-fail-fast --offline",
            "source_commits": hook_commits,
            "add_only": True,
        },
        "engines": [{
            "name": "lean4-model-proof+correspondence",
            "path": "/verif/check",
            "serves_properties": [c["property_id"] for c in checks],
            "kind_free_text": "Lean 4 models (lean/AcmedVerif/Model), theorems (Props), axiom audit (Audit), compiled model driver acmed_model; in-crate probe (probe/), vhelper (helper/), mock CA and generators (py/)",
        }],
        "checks": checks,
        "not_applicable": [
            {"property_id": pid, "reason": "claim in preparation: machinery for this property is being built (see DESIGN.md section 11); not yet decided, no technique switch"}
            for pid in props if pid not in CLAIMS],
        "notes": "All checks: ./check Cxx --tier quick|thorough; evidence in /verif/evidence; repaired defects and known findings in /verif/known-findings.txt.",
    }
    with open(os.path.join(VERIF, "MANIFEST.json"), "w") as f:
        json.dump(m, f, indent=1)
    print("MANIFEST.json: %d checks, %d not_applicable" % (len(checks), len(m["not_applicable"])))


if __name__ == "__main__":
    main()
