#!/usr/bin/env python3
"""Hook recorder: `hookrec.py LOG NAME EXIT [--snap FILE]... -- ARGS...`
Appends one JSON line to LOG: monotonic time (same clock as the mock CA), hook name, rendered
arguments, stdin, selected environment, sha256/len/mode of the snapshot files; holds a lock file
while it runs so that overlapping hook executions are detected; exits with EXIT (EXIT < 0: kills
itself with signal -EXIT instead)."""
import fcntl
import hashlib
import json
import os
import sys
import time


def main():
    a = sys.argv[1:]
    log, name, code = a[0], a[1], int(a[2])
    rest = a[3:]
    snaps, lss, conns, outs, errs = [], [], [], [], []
    while rest and rest[0] in ("--snap", "--ls", "--connect", "--out", "--err"):
        {"--snap": snaps, "--ls": lss, "--connect": conns, "--out": outs, "--err": errs}[rest[0]].append(rest[1])
        rest = rest[2:]
    if rest and rest[0] == "--":
        rest = rest[1:]
    t0 = time.monotonic_ns()
    overlap = False
    lockf = open(log + ".lock", "a+")
    try:
        fcntl.flock(lockf, fcntl.LOCK_EX | fcntl.LOCK_NB)
    except OSError:
        overlap = True
        fcntl.flock(lockf, fcntl.LOCK_EX)
    stdin = ""
    try:
        if not sys.stdin.isatty():
            stdin = sys.stdin.read()
    except Exception:
        pass
    files = {}
    for s in snaps:
        try:
            with open(s, "rb") as f:
                data = f.read()
            st = os.stat(s)
            files[s] = {"sha256": hashlib.sha256(data).hexdigest(), "len": len(data),
                        "mode": st.st_mode & 0o7777, "uid": st.st_uid, "gid": st.st_gid,
                        "text": data.decode(errors="replace") if len(data) < 20000 else None}
        except (FileNotFoundError, IsADirectoryError, PermissionError):
            files[s] = None
    listings = {}
    for d in lss:
        try:
            listings[d] = sorted(os.listdir(d))
        except OSError:
            listings[d] = None
    connects = {}
    for a in conns:
        import socket
        try:
            if a.startswith("unix:"):
                c = socket.socket(socket.AF_UNIX)
                c.settimeout(0.3)
                c.connect(a[5:])
            else:
                host, port = a.rsplit(":", 1)
                c = socket.create_connection((host.strip("[]"), int(port)), timeout=0.3)
            c.close()
            connects[a] = True
        except OSError:
            connects[a] = False
    sleep_ms = int(os.environ.get("HOOKREC_SLEEP_MS", "0"))
    if sleep_ms:
        time.sleep(sleep_ms / 1000.0)
    prefixes = tuple(os.environ.get("HOOKREC_ENV_PREFIXES", "VT_").split(","))
    env = {k: v for k, v in os.environ.items() if k.startswith(prefixes)}
    rec = {"kind": "hook", "t": t0, "t_end": time.monotonic_ns(), "name": name, "args": rest,
           "stdin": stdin, "env": env, "files": files, "ls": listings, "connect": connects, "exit": code, "overlap": overlap, "pid": os.getpid()}
    with open(log, "a") as f:
        fcntl.flock(f, fcntl.LOCK_EX)
        f.write(json.dumps(rec) + "\n")
    # --out TEXT / --err TEXT: what the hook itself writes to its standard output / error
    for t in outs:
        sys.stdout.write(t)
    for t in errs:
        sys.stderr.write(t)
    sys.stdout.flush()
    sys.stderr.flush()
    if code < 0:
        # "killed by a signal": no exit code at all (ExitStatus::code() == None on the Rust side)
        fcntl.flock(lockf, fcntl.LOCK_UN)
        os.kill(os.getpid(), -code)
        time.sleep(5)
    sys.exit(code)


if __name__ == "__main__":
    main()
