"""C03 extension: more of the input space of `py/flowgrid.py` (nothing here changes a judge).

`stratified(grid)`        quick tier: every request position x {an ACME error, a dropped connection, an
                          invalid object status where that applies} x the four (pair, kp_reuse) classes
                          — a random sample of the grid leaves most (position, class) cells empty.
`two_fault(rng, g, n)`    scripts with TWO faults in one attempt (`flowgrid.run_fault` injects `second`).
`sequences(rng)`          several attempts of ONE daemon process: a fault in the first attempt (or in the
                          first two), then a clean one; every attempt's end is judged (`judge_attempts`).
`initial_states()`        files found by the attempt other than {nothing, a matching ecdsa-p256 pair}:
                          the key file alone, a matching pair of ANOTHER key type than the configured
                          one, an expired pair, a pair whose certificate lacks a configured name.
`positions()`             request positions the 13 of `flowgrid.POSITIONS` do not reach: newNonce (CA that
                          sends no nonce with GET answers), second / third polls of an authorization and
                          of the order (CA that answers "pending" / "processing" first).
`run(sc, root, helper)`   runs one such scenario (prepares the files, passes the CA options and the
                          number of attempts to `flowgrid.run_fault`).
`judge_attempts(...)`     Spec.C03.holds on every attempt after the first one of a run (initial = the
                          snapshot taken by the previous post-operation hook)."""
import os

import flow
import flowgrid
import vlib

CLASSES = [(False, False), (False, True), (True, False), (True, True)]   # (pair, kp_reuse)


def _cat():
    return {label: (ans, times) for label, ans, times in flowgrid.fault_catalogue() + flowgrid.san_catalogue()}


def _sc(pos, label, pair, kp, cat=None, **kw):
    cat = cat or _cat()
    ans, times = cat[label]
    sc = {"pos": list(pos), "fault": label, "answer": ans, "times": times, "pair": pair, "kp_reuse": kp}
    sc.update(kw)
    return sc


LATE = ("finalize", "order", "cert")      # from the first order poll on: the positions where a key exists


def _classes(pos, i, quick, late_only=False):
    """All four (pair, kp_reuse) classes where the key pair is in play (or in the thorough tier); one
    class in rotation for the early positions of the quick tier."""
    if not quick or (pos[0] in LATE and not (pos[0] == "order" and pos[1] == 0 and late_only)):
        return CLASSES
    return [CLASSES[i % 4]]


def stratified(quick=True):
    cat = _cat()
    out = []
    i = 0
    for pos in flowgrid.POSITIONS:
        for label in ("err:malformed", "drop", "2xx-status-invalid") + (() if quick else ("err:serverInternal", "nonjson-500")):
            if not flowgrid.applicable(pos, label) or (quick and label == "2xx-status-invalid" and pos[0] not in LATE):
                continue
            i += 1
            for pair, kp in _classes(pos, i, quick):
                out.append(_sc(pos, label, pair, kp, cat))
    return out


def two_fault(rng, g, n):
    """Pairs of faults at two DIFFERENT requests; two times out of three the first is one the attempt
    survives (a recoverable error, an answer without a nonce) and the second comes later in the
    sequence, so that both are reached."""
    order = {tuple(p): i for i, p in enumerate(flowgrid.POSITIONS)}
    soft = [s for s in g if s["fault"] in ("err:badNonce", "err:serverInternal", "err:rateLimited", "err:no-nonce",
                                           "2xx-no-nonce", "err:connection", "err:dns", "err:tls")
            and s["times"] == 1]
    out = []
    # always: a fault the attempt survives at a LATE position (the key pair exists by then), followed by a
    # download that cannot be installed
    cat = _cat()
    for i, (p1, l1) in enumerate(((("finalize", 0), "2xx-no-nonce"), (("order", 1), "2xx-no-nonce"), (("order", 1), "err:badNonce"),
                                  (("finalize", 0), "err:badNonce"), (("order", 0), "err:no-nonce"), (("order", 1), "err:serverInternal"))):
        for j, l2 in enumerate(("cert-not-pem", "cert-other-key", "drop")):
            if (i + j) % 3 == 0 or i < 2:
                pair, kp = (True, bool((i + j) % 2)) if j < 2 else CLASSES[(i + j) % 4]
                b = {"pos": ["cert", 0], "fault": l2, "answer": cat[l2][0], "times": cat[l2][1]}
                out.append(dict(_sc(p1, l1, pair, kp, cat), second=b, family="two-fault"))
    # the same survivable faults followed by a FAULTLESS download whose certificate lacks a configured name (the CSR's key,
    # a chosen subjectAltName set: `flowgrid.san_catalogue`), with an installed pair, new key and re-used key
    for i, (p1, l1) in enumerate(((("finalize", 0), "2xx-no-nonce"), (("order", 1), "err:badNonce"))):
        for kp in (False, True):
            l2 = ("cert-san-cn-only", "cert-san-subset")[(i + kp) % 2]
            b = {"pos": ["cert", 0], "fault": l2, "answer": cat[l2][0], "times": cat[l2][1]}
            out.append(dict(_sc(p1, l1, True, kp, cat), second=b, family="two-fault"))
    n += len(out)
    while len(out) < n:
        first_soft = bool(soft) and rng.random() < 0.67
        a = rng.choice(soft) if first_soft else rng.choice(g)
        b = rng.choice(g)
        if a["pos"] == b["pos"] or (first_soft and order[tuple(b["pos"])] < order[tuple(a["pos"])]):
            continue
        pair, kp = rng.choice(CLASSES)
        out.append(dict(a, pair=pair, kp_reuse=kp, second={k: b[k] for k in ("pos", "fault", "answer", "times")},
                        family="two-fault"))
    return out


def sequences(quick=True):
    """Scenarios with `attempts` > 1.  The first attempt fails for good (no error the HTTP layer
    retries by itself); the retry comes 2 s later in the hooked build, so these runs are few."""
    cat = _cat()
    out = []
    firsts = [(("cert", 0), "cert-not-pem"), (("cert", 0), "drop"), (("order", 1), "err:unauthorized"),
              (("cert", 0), "cert-truncated"), (("order", 1), "drop"),
              (("finalize", 0), "err:badCSR"), (("finalize", 0), "drop"),
              (("challenge", 1), "err:unauthorized"), (("newOrder", 0), "err:rejectedIdentifier")]
    for i, (pos, label) in enumerate(firsts):
        for pair, kp in (CLASSES if (i < 2 or not quick) else [CLASSES[i % 4]]):
            out.append(_sc(pos, label, pair, kp, cat, attempts=2, family="sequence"))
    # the same download fault in the first TWO attempts, the third is clean
    for pair, kp in (CLASSES[1:3] if quick else CLASSES):
        sc = _sc(("cert", 0), "cert-not-pem", pair, kp, cat, attempts=3, family="sequence")
        sc["more"] = [{"pos": ["cert", 1], "fault": "cert-not-pem#2", "answer": cat["cert-not-pem"][0], "times": 1}]
        out.append(sc)
    # a REPEATED order (kp_reuse: same key, same names) answered with the end-entity certificate already issued for it
    # (mock CA option `same_leaf`; good for a day, so due at once) under other and fewer upper certificates: the second
    # download is cut short (the installed pair stays), the third succeeds / two such renewals succeed, the third fails
    for pos, label, pair in ((("cert", 1), "cert-truncated", False), (("cert", 2), "cert-not-pem", True)):
        sc = _sc(pos, label, pair, True, cat, attempts=3, family="sequence")
        sc["ca_opts"] = {"same_leaf": "leaf", "valid_secs": 86400, "chain_len": [3, 2, 1]}
        out.append(sc)
    # the CA includes its self-signed ROOT as the last certificate of every chain (mock CA option `chain_root`): chains of
    # 3, 2 and 4 served to one process, the second download cut short
    sc = _sc(("cert", 1), "cert-truncated", True, True, cat, attempts=3, family="sequence")
    sc["ca_opts"] = {"same_leaf": "leaf", "valid_secs": 86400, "chain_len": [3, 2, 4], "chain_root": True}
    out.append(sc)
    # the FIRST issuance of the process is served for a subset of the names (no protocol fault at all), the following ones
    # for all of them: whatever the first attempt does with that certificate, every attempt ends with a matching pair
    for pair, kp in (CLASSES[2:] if quick else CLASSES):
        sc = _sc(("cert", 0), "cert-san-subset", pair, kp, cat, attempts=2, family="sequence")
        sc["ca_opts"] = {"leaf_sans": ["subset", None]}
        out.append(sc)
    # a certificate for another key in the first attempt only: the rule answers the first download
    other = {"status": 200, "ctype": "application/pem-certificate-chain", "body_from": "other-key"}
    for pair, kp in CLASSES:
        out.append({"pos": ["cert", 0], "fault": "cert-other-key-once", "answer": other, "times": 1,
                    "pair": pair, "kp_reuse": kp, "attempts": 2, "family": "sequence"})
    return out


INITIAL_KINDS = ["key-only", "pair-rsa2048", "pair-ed25519", "pair-expired", "pair-missing-name"]


def initial_states(quick=True):
    """Attempts that fail (the files found must stay) AND attempts that succeed after a survivable fault (the
    files found are replaced: what is there afterwards must be a pair again)."""
    cat = _cat()
    out = []
    faults = [(("cert", 0), "cert-not-pem"), (("finalize", 0), "err:badNonce"), (("cert", 0), "cert-other-key"),
              (("finalize", 0), "err:badCSR"), (("order", 1), "drop"), (("directory", 0), "drop"), (("cert", 0), "2xx-no-nonce"),
              (("newOrder", 0), "err:serverInternal")]
    for k, kind in enumerate(INITIAL_KINDS):
        for j, (pos, label) in enumerate(faults):
            for kp in (False, True):
                if quick and (j >= 3 or (j == 2 and kp != bool(k % 2))):
                    continue
                out.append(_sc(pos, label, False, kp, cat, initial_kind=kind, family="initial"))
    return out


def positions(quick=True):
    cat = _cat()
    out = []
    slow = {"polls_before_valid": 2, "order_polls_before_ready": 1, "order_polls_before_valid": 2}
    for i, label in enumerate(("err:serverInternal", "drop", "err:no-nonce", "2xx-invalid-nonce", "2xx-no-nonce", "nonjson-500")):
        for pair, kp in ([CLASSES[i % 4]] if quick else CLASSES):
            out.append(_sc(("newNonce", 0), label, pair, kp, cat, ca_opts={"nonce_on_get": False},
                           pos_label="newNonce", family="position"))
    # with the slow CA: directory, newAccount, newOrder, authz 0 (fetch) 1 2 3 (polls; the third says
    # valid), challenge 0, authz 4 (fetch) 5 6 7, challenge 1, order 0 1 (ready polls), finalize,
    # order 2 3 (valid polls), cert
    i = 0
    for pos, name in ((("authz", 2), "authz1-poll2"), (("authz", 3), "authz1-poll3"), (("authz", 6), "authz2-poll2"),
                      (("order", 1), "order-ready-poll2"), (("order", 2), "order-valid-poll1"),
                      (("order", 3), "order-valid-poll2")):
        late = pos[0] == "order" and pos[1] >= 2
        for label in ("err:unauthorized", "drop", "2xx-status-invalid") + (() if quick else ("2xx-missing-fields", "2xx-not-json")):
            i += 1
            if quick and not late and label == "2xx-status-invalid":
                continue
            for pair, kp in (CLASSES if not quick else [CLASSES[i % 4], CLASSES[(i + 2) % 4]] if late else [CLASSES[i % 4]]):
                out.append(_sc(pos, label, pair, kp, cat, ca_opts=dict(slow), pos_label=name, family="position"))
    return out


def prepare_initial(sc, d, helper):
    kind = sc.get("initial_kind")
    if not kind:
        return
    os.makedirs(os.path.join(d, "certs"), exist_ok=True)
    crt = os.path.join(d, "certs", "crt_ecdsa-p256.crt.pem")
    key = os.path.join(d, "certs", "crt_ecdsa-p256.pk.pem")
    names = [i["dns"] for i in flowgrid.IDENTS]
    req = {"op": "selfsigned", "dns": names, "ips": [], "not_after_offset": 86400, "type": "ecdsa-p256"}
    if kind == "pair-rsa2048":
        req["type"] = "rsa2048"
    elif kind == "pair-ed25519":
        req["type"] = "ed25519"
    elif kind == "pair-expired":
        req.update(not_after_offset=-3600, not_before_offset=-30 * 86400)
    elif kind == "pair-missing-name":
        req["dns"] = names[:1]
    r = helper.call(req)
    if "cert_pem" not in r:
        raise RuntimeError("vhelper selfsigned: %s" % r)
    if kind != "key-only":
        with open(crt, "w") as f:
            f.write(r["cert_pem"])
    with open(key, "w") as f:
        f.write(r["key_pem"])


def run(sc, root, helper):
    d = os.path.join(root, "g%d" % sc["idx"])
    prepare_initial(sc, d, helper)
    sc2 = sc
    if isinstance(sc["answer"], dict) and sc["answer"].get("body_from") == "other-key":
        other = helper.call({"op": "selfsigned", "dns": [i["dns"] for i in flowgrid.IDENTS], "ips": [],
                             "not_after_offset": 90 * 86400})
        sc2 = dict(sc, answer={"status": 200, "ctype": "application/pem-certificate-chain", "body": other["cert_pem"]})
    n = sc.get("attempts", 1)
    obs = flowgrid.run_fault(sc2, root, helper, n_postop=n, extra_opts=sc.get("ca_opts"),
                             timeout=45 if n > 1 else 40)
    obs["sc"] = sc
    return obs


def snap_of(obs, post):
    f = post.get("files", {}) or {}
    c, k = f.get(obs["crt_path"]), f.get(obs["key_path"])
    return ((c or {}).get("text") if c else None, (k or {}).get("text") if k else None)


def judge_attempts(ctx, helper, results):
    """Every attempt after the first of each run (the first one is judged by c03.judge)."""
    jin, keep = [], []
    for obs in results:
        sc = obs["sc"]
        want = sc.get("attempts", 1)
        posts = obs["posts"]
        # (an attempt that succeeds is not followed by another one: the certificate is good for months)
        if want > 1 and len(posts) < want and not (posts and flow.hook_args(posts[-1]).get("is_success") == "true"):
            ctx.violation("the daemon made %d attempt(s) where %d were awaited (fault %s at %s): an attempt never ended "
                          "or the process stopped, rc %s" % (len(posts), want, sc["fault"], flowgrid.pos_name(sc["pos"]), obs["rc"]),
                          {"sc": sc, "stderr": obs["stderr"][-800:]})
            continue
        for k in range(1, len(posts)):
            before = flowgrid.files_obs(helper, *snap_of(obs, posts[k - 1]))
            after = flowgrid.files_obs(helper, *snap_of(obs, posts[k]))
            ok = flow.hook_args(posts[k]).get("is_success") == "true"
            jin.append({"op": "c03_judge", "initial": before, "final": after, "failed_before_obtained": not ok})
            keep.append((obs, k, before, after, ok))
    verdicts = vlib.model(jin) if jin else []
    for (obs, k, before, after, ok), v in zip(keep, verdicts):
        sc = obs["sc"]
        ctx.case({"attempt": k + 1, "pos": sc["pos"], "fault": sc["fault"], "pair": sc["pair"], "kp_reuse": sc["kp_reuse"],
                  "more": [m["fault"] for m in sc.get("more", [])]})
        ctx.count("attempt-%d:%s" % (k + 1, "success" if ok else "failed"))
        if not v["holds"]:
            what = "certificate and key no longer match" if not v["final_consistent"] else \
                "a failed attempt changed the previously installed matching pair"
            ctx.violation("%s at the end of attempt %d of one process: fault %s at %s in the first attempt, pair installed=%s, "
                          "kp_reuse=%s, attempt %d %s" % (what, k + 1, sc["fault"], flowgrid.pos_name(sc["pos"]), sc["pair"],
                                                          sc["kp_reuse"], k + 1, "reported success" if ok else "failed"),
                          {"sc": sc, "attempt": k + 1, "initial": before, "final": after, "verdict": v})
        elif (not ok) and before["cert_present"] and v["initial_consistent"]:
            if snap_of(obs, obs["posts"][k]) != snap_of(obs, obs["posts"][k - 1]):
                ctx.violation("a failed attempt (number %d of the process) rewrote the installed files: fault %s at %s"
                              % (k + 1, sc["fault"], flowgrid.pos_name(sc["pos"])), {"sc": sc, "attempt": k + 1})
    ctx.traces += len(keep)
