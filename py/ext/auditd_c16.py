"""C16 input-space extension.  Further servers, generated here and run / judged by `props/c16.py`
exactly like its own (same probe for the acmeIdentifier text, same DER parsing, same `Spec.C16.holds`):

* all 9 (domain source, extension source) pairs of tacd(8) — option, file, standard input —, the short
  options -d / -e / -l, files that are FIFOs or /dev/stdin, standard input written in one piece, in
  pieces 0.3 s apart, with and without a final newline, CRLF and repeated line ends, white space
  around either value;
* the default arms of --crt-signature-alg / --crt-digest (option not given);
* listeners `[::1]:port` and `localhost:port` next to `127.0.0.1:port` and unix sockets;
* domain classes the pools of c16.py lack: A-label input (`xn--…`, any case), a 63-character ASCII
  label, an internationalised label whose A-label is exactly 63 octets, a 253-character name, labels
  outside the BMP, digits-only labels, 8 labels, case-randomised non-ASCII labels, a trailing dot
  (judged against either spelling of the SAN: with or without the dot); and — OBSERVED ONLY, they are
  not domain names — a 64-character label, a label whose A-label exceeds 63 octets, a 254-character name;
* client offers that nearly are acme-tls/1 (longer, shorter, other case, the wire bytes of acme-tls/1
  embedded in another name, 255-byte name, acme-tls/1 after 20 others, acme-tls/1 twice) and SNI
  variants (the A-label a CA sends, none, an unrelated name): the certificate must not depend on it."""
import os
import socket

import tacdrun
from ext import auditd_tacd as T

PAIRS = [(a, b) for a in ("flag", "file", "stdin") for b in ("flag", "file", "stdin")]
LISTENERS = ["tcp", "tcp6", "localhost", "unix", "tcp", "localhost", "tcp6"]
SNI = ["fixed", "alabel", "none", "other"]
STDIN_MODES = ["once", "pieces", "no-final-newline", "crlf"]
FILE_KINDS = ["regular", "fifo", "regular", "devstdin", "regular"]
LEAD = ["", " ", "\t", " \t "]
TAIL_FILE = ["", " ", "\n", " \n", "\r\n", "\n\n\n", " \r\n", "\t"]
TAIL_LINE = ["", " ", "\t", "\r"]
CLASSES = ["alabel-input", "label-63", "idn-alabel-63", "name-253", "nonbmp", "digits", "labels-8", "case-idn",
           "trailing-dot", "pool", "label-64", "alabel-over-63", "name-254"]
OUT_OF_CLASS = ("label-64", "alabel-over-63", "name-254")

ACME = "acme-tls/1"
NEAR_OFFERS = [["acme-tls/10"], ["acme-tls/"], ["ACME-TLS/1"], ["acme-tls/1\x00"], ["x\nacme-tls/1"], ["x" * 255],
               ["p%02d" % i for i in range(20)] + [ACME], [ACME, ACME], ["acme-tls/1.1", "h2"], [" acme-tls/1"]]

ASCII_LABELS = ["example", "www", "a", "test-1", "x9", "sub", "acme", "org", "net", "k"]
IDN_CASE = ["bücher", "münchen", "пример", "παράδειγμα", "école", "ñandú", "øre", "żółć"]
NONBMP = ["😀", "a😀b", "𠮷野家", "𝒳", "🦀rust"]
ALABELS_IN = ["xn--bcher-kva", "XN--BCHER-KVA", "xn--e1afmkfd", "Xn--Mnchen-3Ya", "xn--caf-dma"]
L36 = "abcdefghijklmnopqrstuvwxyz0123456789"


def _ascii_label(rng, n):
    if n == 1:
        return rng.choice(L36)
    mid = "".join(rng.choice(L36 + "-") for _ in range(n - 2))
    return rng.choice(L36) + mid.replace("--", "-a") + rng.choice(L36)


def _recase(rng, lab):
    out = []
    for c in lab:
        u = c.upper()
        out.append(u if rng.random() < 0.5 and len(u) == 1 and u.lower() == c else c)
    return "".join(out)


def _puny_len(lab):
    return 4 + len(lab.lower().encode("punycode"))


def gen_domain(rng, cls):
    tail = [rng.choice(ASCII_LABELS) for _ in range(rng.randint(0, 2))]
    if cls == "alabel-input":
        labs = [rng.choice(ALABELS_IN)] + tail
    elif cls == "label-63":
        labs = [_ascii_label(rng, 63)] + tail
    elif cls == "label-64":
        labs = [_ascii_label(rng, 64)] + tail
    elif cls == "idn-alabel-63":
        n = 40
        while _puny_len("ü" + "a" * n) < 63:
            n += 1
        while _puny_len("ü" + "a" * n) > 63:
            n -= 1
        labs = ["ü" + "a" * n] + tail
    elif cls == "alabel-over-63":
        labs = ["пример" * 7] + tail           # 42 characters, an A-label far beyond 63 octets
    elif cls == "name-253":
        labs = [_ascii_label(rng, 63), _ascii_label(rng, 63), _ascii_label(rng, 63), _ascii_label(rng, 61)]
    elif cls == "name-254":
        labs = [_ascii_label(rng, 63), _ascii_label(rng, 63), _ascii_label(rng, 63), _ascii_label(rng, 62)]
    elif cls == "nonbmp":
        labs = [rng.choice(NONBMP)] + tail + ["example"]
    elif cls == "digits":
        labs = [rng.choice(["123", "0", "007", "1e1"])] + tail + ["example"]
    elif cls == "labels-8":
        labs = [rng.choice(ASCII_LABELS) for _ in range(8)]
    elif cls == "case-idn":
        labs = [_recase(rng, rng.choice(IDN_CASE)) for _ in range(rng.randint(1, 2))] + [_recase(rng, l) for l in tail]
    elif cls == "trailing-dot":
        labs = [rng.choice(ASCII_LABELS + ["bücher"]), "example", ""]
    else:
        labs = [rng.choice(ASCII_LABELS + IDN_CASE) for _ in range(rng.randint(1, 5))]
    rng.shuffle(labs) if cls in ("alabel-input", "label-63", "nonbmp", "digits") else None
    return ".".join(labs)


def specs(ctx, n0, key_names, keytypes, digests):
    """Specifications in the format of c16.build_scenarios (plus the new fields)."""
    rng = ctx.rng
    n = 54 if ctx.quick() else 450
    token_chars = "ABCDEFGHIJKLMNOPQRSTUVWXYZabcdefghijklmnopqrstuvwxyz0123456789-_"
    kts = [k for k in keytypes if not (ctx.quick() and k == "rsa4096")]
    out = []
    for j in range(n):
        dom_src, ext_src = PAIRS[j % 9]
        cls = CLASSES[(j // 9 + j) % len(CLASSES)]
        dom = gen_domain(rng, cls)
        lead, tail = rng.choice(LEAD), rng.choice(TAIL_FILE)
        lw = [rng.choice(LEAD), rng.choice(TAIL_LINE), rng.choice(LEAD), rng.choice(TAIL_LINE)]
        file_kind = FILE_KINDS[j % len(FILE_KINDS)]
        if file_kind == "devstdin" and "stdin" in (dom_src, ext_src):
            file_kind = "fifo"
        listener = LISTENERS[j % len(LISTENERS)]
        if listener == "unix" and len(dom) > 60:
            listener = "tcp"
        out.append({
            "auditd": True, "domain": dom, "domain_class": cls, "out_of_class": cls in OUT_OF_CLASS,
            "domain_text": dom if dom_src == "flag" else lead + dom + tail if dom_src == "file" else lw[0] + dom + lw[1],
            "ext_ws": [rng.choice(LEAD), rng.choice(TAIL_FILE)], "line_ws": lw,
            "source": "%s/%s" % (dom_src, ext_src), "dom_src": dom_src, "ext_src": ext_src,
            "short": j % 2 == 1, "stdin_mode": STDIN_MODES[(j // 3) % len(STDIN_MODES)], "file_kind": file_kind,
            "acct_key": rng.choice(key_names),
            "token": "".join(rng.choice(token_chars) for _ in range(rng.randint(8, 43))),
            # the default arms: every 5th server is not told the key type, every 7th not the digest
            "crt_key": None if j % 5 == 4 else kts[j % len(kts)],
            "crt_digest": None if j % 7 == 6 else digests[(j // len(kts)) % 3],
            "listener": listener, "sni": SNI[(j // 2) % len(SNI)], "prelude": None,
            "offers": NEAR_OFFERS})
    return out


def free_port6():
    s = socket.socket(socket.AF_INET6)
    s.bind(("::1", 0))
    p = s.getsockname()[1]
    s.close()
    return p


def one(sc, binary, scratch, offers):
    """(the port chosen for tacd may be taken by another program between the choice and tacd's bind(): then
    tacd is started again on another one — that is the harness's problem, not tacd's)"""
    for attempt in range(4):
        res = _one(sc, binary, scratch, offers, attempt)
        if not res.pop("port_taken", False):
            break
    return res


def _one(sc, binary, scratch, offers, attempt):
    d = os.path.join(scratch, "s%d-%d" % (sc["idx"], attempt))
    os.makedirs(d, exist_ok=True)
    dom, ext = sc["domain"], sc["ext"]
    short = sc["short"]
    argv, fifos, stdin_parts = [], {}, None
    lines = []           # what goes to standard input, in the order tacd reads it (domain first)
    whole_stdin = None   # a value read from /dev/stdin as a FILE (read to its end)

    def as_file(name, text):
        nonlocal whole_stdin
        if sc["file_kind"] == "devstdin" and whole_stdin is None:
            whole_stdin = text
            return "/dev/stdin"
        p = os.path.join(d, name)
        if sc["file_kind"] == "fifo":
            os.mkfifo(p)
            fifos[p] = text
        else:
            with open(p, "w", newline="") as f:
                f.write(text)
        return p
    lw = sc["line_ws"]
    if sc["dom_src"] == "flag":
        argv += ["-d" if short else "--domain", dom]
    elif sc["dom_src"] == "file":
        argv += ["--domain-file", as_file("dom", sc["domain_text"])]
    else:
        lines.append(sc["domain_text"])
    if sc["ext_src"] == "flag":
        argv += ["-e" if short else "--acme-ext", ext]
    elif sc["ext_src"] == "file":
        argv += ["--acme-ext-file", as_file("ext", sc["ext_ws"][0] + ext + sc["ext_ws"][1])]
    else:
        lines.append(lw[2] + ext + lw[3])
    if whole_stdin is not None:
        stdin_parts = [whole_stdin]
    elif lines:
        mode = sc["stdin_mode"]
        nl = "\r\n" if mode == "crlf" else "\n"
        parts = [l + nl for l in lines]
        if mode == "no-final-newline":
            parts[-1] = parts[-1][:-len(nl)]
        if mode == "pieces":
            # each line in two pieces, and the lines apart
            stdin_parts = [x for p in parts for x in (p[:len(p) // 2], p[len(p) // 2:])]
        else:
            stdin_parts = ["".join(parts)]
    if sc["crt_key"]:
        argv += ["--crt-signature-alg", sc["crt_key"]]
    if sc["crt_digest"]:
        argv += ["--crt-digest", sc["crt_digest"]]
    kind = sc["listener"]
    if kind == "unix":
        listen = "unix:" + os.path.join(d, "t.sock")
    elif kind == "tcp6":
        listen = "[::1]:%d" % free_port6()
    elif kind == "localhost":
        listen = "localhost:%d" % tacdrun.free_port()
    else:
        listen = None
    t = T.Tacd(binary, listen, argv, short=short, stdin_parts=stdin_parts, fifos=fifos)
    res = {"idx": sc["idx"], "started": False, "shakes": [], "argv": argv}
    sni = {"fixed": "example.org", "alabel": sc["alabel"].rstrip(".") or None, "none": None,
           "other": "unrelated.invalid"}[sc["sni"]]
    if sni is not None and (len(sni) > 253 or any(len(l) > 63 or not l for l in sni.split("."))):
        sni = "example.org"       # (the TLS library of the CLIENT refuses to send such a name)
    try:
        up = T.wait_own(t, timeout=90 if sc["crt_key"] == "rsa4096" else 25)
        if not up or not t.alive():
            rc, err = t.stop()
            res["stderr"] = err[-500:]
            res["rc"] = rc
            res["port_taken"] = kind != "unix" and "ddress already in use" in err or "ddress in use" in err
            return res
        res["started"] = True
        for k, offer in enumerate(list(offers) + sc["offers"]):
            res["shakes"].append((offer, tacdrun.handshake(t.listen, offer, server_name=sni, timeout=6.0,
                                                           max_tls12=(sc["idx"] + k) % 2 == 1)))
        res["alive"] = t.alive()
    finally:
        try:
            rc, err = t.stop()
            res.setdefault("stderr", err[-300:])
        except Exception:
            pass
    return res


def offer_label(offer):
    if offer is None:
        return "none"
    s = "+".join(offer)
    return s if len(s) <= 40 else "%s…(%d names, %d bytes)" % (s[:16].encode("unicode_escape").decode(), len(offer), len(s))


def observe_only(ctx, sc, r):
    """Names that are not domain names (a label or the whole name too long): what tacd does is recorded,
    nothing is demanded."""
    if not sc.get("out_of_class"):
        return False
    ctx.count("not-a-domain-name:%s:%s" % (sc["domain_class"], "served" if r["started"] else "refused-at-start"))
    return True


def count(ctx, sc):
    if not sc.get("auditd"):
        return
    ctx.count("domain-class:" + sc["domain_class"])
    ctx.count("options:" + ("short" if sc["short"] else "long"))
    ctx.count("sni:" + sc["sni"])
    ctx.count("listener-form:" + sc["listener"])
    if "file" in (sc["dom_src"], sc["ext_src"]):
        ctx.count("file-kind:" + sc["file_kind"])
    if "stdin" in (sc["dom_src"], sc["ext_src"]) or sc["file_kind"] == "devstdin":
        ctx.count("stdin:" + sc["stdin_mode"])
    ctx.count("crt-key:%s" % (sc["crt_key"] or "default"))
    ctx.count("crt-digest:%s" % (sc["crt_digest"] or "default"))


def judge_names(ctx, sc, cert):
    """(domain text, A-label) handed to the judge.  A name given with a trailing dot: the SAN may spell it
    with or without that dot (the property does not say); everything else: as computed."""
    if sc.get("domain_class") == "trailing-dot" and cert and cert.get("dns") == [sc["alabel"].rstrip(".")]:
        ctx.count("trailing-dot:san-without-dot")
        return sc["domain_text"].strip().rstrip("."), sc["alabel"].rstrip(".")
    if sc.get("domain_class") == "trailing-dot" and cert:
        ctx.count("trailing-dot:san-with-dot")
    return sc["domain_text"], sc["alabel"]


def observe_daemonised(ctx, scenarios, binary, scratch, helper):
    """OBSERVED ONLY (outside the property as stated: it quantifies over value sources and listeners of a
    tacd that serves, not over the way tacd is put into the background): tacd started WITHOUT -f, as the
    shipped hooks do, with the values given by option / absolute file / relative file / standard input.
    tacd detaches (standard input becomes /dev/null, the working directory /) BEFORE it reads the values."""
    import signal
    import subprocess
    import time
    import vlib
    base = [sc for sc in scenarios if not sc.get("out_of_class")][:1]
    if not base:
        return
    sc = base[0]
    for how in ("flag", "file-absolute", "file-relative", "stdin"):
        d = os.path.join(scratch, "daemon-" + how)
        os.makedirs(d, exist_ok=True)
        port = tacdrun.free_port()
        listen = "127.0.0.1:%d" % port
        pidf = os.path.join(d, "tacd.pid")
        cmd = [binary, "--pid-file", pidf, "--listen", listen]
        stdin_text = None
        if how == "flag":
            cmd += ["--domain", sc["domain"], "--acme-ext", sc["ext"]]
        elif how == "stdin":
            stdin_text = sc["domain"] + "\n" + sc["ext"] + "\n"
        else:
            for name, text in (("dom", sc["domain"] + "\n"), ("ext", sc["ext"] + "\n")):
                with open(os.path.join(d, name), "w") as f:
                    f.write(text)
            pre = d + "/" if how == "file-absolute" else ""
            cmd += ["--domain-file", pre + "dom", "--acme-ext-file", pre + "ext"]
        outcome = "not-serving"
        try:
            p = subprocess.run(cmd, input=(stdin_text or "").encode(), cwd=d, env=vlib.env_offline(),
                               stdout=subprocess.DEVNULL, stderr=subprocess.DEVNULL, timeout=20)
            hs = None
            t0 = time.time()
            while time.time() - t0 < 4:
                hs = tacdrun.handshake(listen, [ACME], timeout=2.0)
                if hs.get("ok") or not os.path.exists(pidf):
                    break
                time.sleep(0.1)
            if hs and hs.get("ok") and hs.get("cert_pem"):
                pc = helper.call({"op": "parse_cert", "pem": hs["cert_pem"]})
                exts = pc.get("acme_ext") or []
                good = pc.get("dns") == [sc["alabel"]] and len(exts) == 1 and \
                    exts[0]["value_hex"] == "0420" + sc["digest_hex"]
                outcome = "served-correct-certificate" if good else "served-another-certificate"
            elif p.returncode != 0:
                outcome = "not-serving(exit %d)" % p.returncode
        except (subprocess.TimeoutExpired, OSError) as e:
            outcome = "harness:%s" % type(e).__name__
        finally:
            try:
                with open(pidf) as f:
                    os.kill(int(f.read().strip()), signal.SIGTERM)
            except (OSError, ValueError):
                pass
            subprocess.run(["pkill", "-f", "--", "--listen %s" % listen], stdout=subprocess.DEVNULL,
                           stderr=subprocess.DEVNULL)
        ctx.count("observed-only:daemonised(no -f):values by %s:%s" % (how, outcome))
