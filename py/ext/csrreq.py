"""C01 extension: the CSR the real daemon sends at finalization, field by field, against the CSR
`Model/CsrReq.lean` predicts for the same `[[certificate]]` configuration (driver op `csr_expect`:
`Certificate.ofCfg` + `finalizeCsr`; theorems `Props/C01Csr.lean`).

`vary` widens the scenario generator of `py/props/c01.py` (subject attributes, csr_digest incl.
absent, all 7 key types), `mismatch_scenarios` adds certificates whose stored key (kp_reuse) is of
ANOTHER type than the configured `key_type` (the digest decision of `get_digest` looks at the key
pair, not at the configuration), `extend` compares.

Compared exactly: signature algorithm name, subject as a multiset of (OpenSSL short name, value),
dNSName / iPAddress SANs as multisets, type of the CSR's public key.  Only counted: whether the SANs
come in the order the model lists them (`Vec` order: nothing in the property fixes it).  Not compared:
the order of the subject's RDNs (iteration order of a `HashMap`)."""
import ipaddress
import random

# configuration key -> (OpenSSL short name, kind of value OpenSSL's string table accepts)
#   country: PrintableString of exactly 2 characters; email: IA5String (ASCII); the others: any
#   UTF-8 text of 1..64 characters (DirectoryString, or no table entry at all)
ATTR_KIND = {
    "country_name": "country", "pkcs9_email_address": "email",
    "generation_qualifier": "short", "initials": "short", "postal_code": "code",
    "given_name": "text", "locality_name": "text", "name": "text", "organization_name": "text",
    "organizational_unit_name": "text", "postal_address": "text", "state_or_province_name": "text",
    "street": "text", "surname": "text", "title": "text"}
ALL_ATTRS = sorted(ATTR_KIND)
VALUES = {
    "country": ["FR", "DE", "JP", "BR", "US"],
    "email": ["admin@example.org", "pki+acme@example.net", "it ops@example.org"],
    "short": ["Jr.", "III", "J. Q.", "É. M.", "x"],
    "code": ["75001", "SW1A 1AA", "〒100-0001"],
    "text": ["Zoë Müller", "Société d'Essai, S.A.", "京都 市", "Ål", "R&D / PKI", "São Paulo", "Example Org",
             "Ünï cörp  two  spaces", "Тест Организация", "a=b+c", "x"],
}
KEYTYPES = ["ecdsa_p256", "ecdsa_p384", "ecdsa_p521", "ed25519", "ed448", "rsa2048", "rsa4096"]
KT_DISPLAY = {"ecdsa_p256": "ecdsa-p256", "ecdsa_p384": "ecdsa-p384", "ecdsa_p521": "ecdsa-p521",
              "ed25519": "ed25519", "ed448": "ed448", "rsa2048": "rsa2048", "rsa4096": "rsa4096"}
DIGESTS = ["sha256", "sha384", "sha512", None]      # None = option absent
DEFAULT_DIGEST = "sha256"                           # acmed.toml(5): csr_digest, "sha256 <default>"


def gen_attrs(rng, idx):
    """0..4 subject attributes; attribute number idx mod 15 is always among them when there is one."""
    k = rng.randint(0, 4)
    if k == 0:
        return {}
    keys = [ALL_ATTRS[idx % len(ALL_ATTRS)]]
    keys += rng.sample([a for a in ALL_ATTRS if a != keys[0]], k - 1)
    return {a: rng.choice(VALUES[ATTR_KIND[a]]) for a in keys}


def vary(sc, seed, quick):
    """Re-draws the CSR-relevant options of a scenario of c01.gen_cert (identifiers, kp_reuse and
    the pre-existing key file stay as generated)."""
    idx = sc["idx"]
    rng = random.Random(seed * 1000003 + idx)
    sc = dict(sc)
    sc["attrs"] = gen_attrs(rng, idx)
    sc["digest"] = DIGESTS[idx % len(DIGESTS)]
    kt = KEYTYPES[idx % len(KEYTYPES)]
    if quick and kt == "rsa4096" and idx >= 14:
        kt = "rsa2048"          # quick tier: rsa4096 (slow key generation) twice only
    sc["key_type"] = kt
    return sc


def mismatch_scenarios(gen_cert, rng, seed, first_idx, quick):
    """kp_reuse with a stored, usable key whose type differs from the configured key_type."""
    if quick:
        pairs = [("rsa2048", "ed25519"), ("ed25519", "ecdsa_p256"), ("ecdsa_p384", "ed448"), ("ed448", "rsa2048"),
                 ("ecdsa_p256", "ecdsa_p521")]
    else:
        pairs = [(a, b) for a in KEYTYPES for b in KEYTYPES if a != b]
    out = []
    for n, (cfg_kt, stored_kt) in enumerate(pairs):
        idx = first_idx + n
        sc = vary(gen_cert(rng, idx, quick), seed, quick)
        sc.update(key_type=cfg_kt, old_key="usable", old_key_type=stored_kt, kp_reuse=True,
                  digest=DIGESTS[(n + 1) % len(DIGESTS)])
        out.append(sc)
    return out


def stored_key_type(sc):
    """Type of the key written into the key file before the run (scenario key names)."""
    return sc.get("old_key_type", sc["key_type"])


def signing_key_type(sc):
    """Type of the key pair the CSR is for: the stored key when it is reused, else a fresh key of the
    configured type (the check of c01.py `kp_reuse … CSR carries THAT key` asserts the former)."""
    if sc["kp_reuse"] and sc["old_key"] == "usable":
        return stored_key_type(sc)
    return sc["key_type"]


def effective_digest(sc):
    return sc["digest"] or DEFAULT_DIGEST


SPKI = [("2a8648ce3d0301 07".replace(" ", ""), "ecdsa-p256"), ("2b81040022", "ecdsa-p384"), ("2b81040023", "ecdsa-p521"),
        ("06032b6570", "ed25519"), ("06032b6571", "ed448")]


def pub_kind(pub_der_hex):
    """Key type from the SubjectPublicKeyInfo (algorithm / curve OID, RSA modulus size)."""
    h = pub_der_hex.lower()
    head = h[:60]
    if "2a864886f70d010101" in head:
        n = len(h) // 2
        return "rsa2048" if 280 <= n <= 300 else "rsa4096" if 540 <= n <= 560 else "rsa?%d" % n
    for oid, name in SPKI:
        if oid in head:
            return name
    return "?"


def expect_input(sc):
    reuse = sc["kp_reuse"] and sc["old_key"] == "usable"
    return {"op": "csr_expect", "csr_digest": sc["digest"], "key_type": sc["key_type"], "subject": sc["attrs"],
            "ids": [{"type": i["type"], "value": i["expected"]} for i in sc["ids"]],
            "key_pair_type": KT_DISPLAY[stored_key_type(sc)] if reuse else None}


def extend(ctx, model, results):
    """results: what c01.run_cert returned for scenarios whose CSR was observed and parsed."""
    rs = [r for r in results if isinstance(r.get("csr"), dict) and "err" not in r["csr"]]
    if not rs:
        return
    exp = model([expect_input(r["sc"]) for r in rs])
    for r, m in zip(rs, exp):
        sc, csr = r["sc"], r["csr"]
        real = {
            "sig_alg": csr.get("sig_alg", ""),
            "subject": sorted([list(p) for p in csr.get("subject", [])]),
            "dns": list(csr.get("dns", [])),
            "ip": [str(ipaddress.ip_address(bytes.fromhex(h))) for h in csr.get("ip_hex", [])],
            "pub_kind": pub_kind(csr.get("pub_der_hex", "")),
        }
        ctx.count("csrreq:compared")
        ctx.count("csrreq:attrs:%d" % len(sc["attrs"]))
        for a in sc["attrs"]:
            ctx.count("csrreq:attr:" + a)
        ctx.count("csrreq:non-ascii-values", sum(1 for v in sc["attrs"].values() if any(ord(c) > 127 for c in v)))
        ctx.count("csrreq:values-with-space", sum(1 for v in sc["attrs"].values() if " " in v))
        ctx.count("csrreq:digest:%s" % (sc["digest"] or "absent"))
        ctx.count("csrreq:key:%s%s" % (sc["key_type"], "" if signing_key_type(sc) == sc["key_type"]
                                      else "(stored:%s)" % signing_key_type(sc)))
        diffs = []
        if not m.get("loads") or not m.get("csr_built"):
            diffs.append("the model builds no CSR (%s) but the daemon sent one" % m)
        else:
            ctx.count("csrreq:md:" + m["md"])
            mod = {"sig_alg": m["sig_alg"], "subject": sorted(m["subject_sorted"]), "dns": m["san_dns"], "ip": m["san_ip"],
                   "pub_kind": m["key_pair_type"]}
            if real["sig_alg"] != mod["sig_alg"]:
                diffs.append("signature algorithm %r, model %r (digest %s, key pair %s, md %s)" % (
                    real["sig_alg"], mod["sig_alg"], m["digest"], m["key_pair_type"], m["md"]))
            if real["subject"] != mod["subject"]:
                diffs.append("subject %s, model %s" % (real["subject"], mod["subject"]))
            if sorted(real["dns"]) != sorted(mod["dns"]):
                diffs.append("dNSName SANs %s, model %s" % (real["dns"], mod["dns"]))
            if sorted(real["ip"]) != sorted(mod["ip"]):
                diffs.append("iPAddress SANs %s, model %s" % (real["ip"], mod["ip"]))
            if real["pub_kind"] != mod["pub_kind"]:
                diffs.append("public key of type %s, model: key pair of type %s" % (real["pub_kind"], mod["pub_kind"]))
            if real["dns"] == mod["dns"] and real["ip"] == mod["ip"]:
                ctx.count("csrreq:san-in-model-order")
        if diffs:
            ctx.disagreements += 1
            ctx.broke("correspondence", "the CSR differs from Model.CsrReq.finalizeCsr: " + "; ".join(diffs),
                      {"sc": sc, "csr": {k: csr.get(k) for k in ("sig_alg", "subject", "dns", "ip_hex", "verify")},
                       "model": m})
