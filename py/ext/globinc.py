"""C14 extension, clause "glob expansion relative to the including file": tie of `Model/Glob.lean` (the `glob`
crate's `Pattern::new` / `matches` / `escape`, its directory walk `glob()`, and `get_cnf_path` of
acmed/src/config.rs; theorems `Props/C14Glob.lean`) and of the judge `Spec/C14Glob.lean` to the real code.

`extend(ctx)`
  (i) pattern level.  Seeded patterns (literals, `?`, `*`, `**` in and out of place, classes with ranges,
      negation, `]` first, `-` at the edges, `Pattern::escape` of strings full of metacharacters, malformed
      ones, random soup) x texts derived from the pattern (so that matches are frequent) and near misses:
      the REAL `glob::Pattern::new(p)` (probe op `glob_pattern`: Debug text of the compiled pattern = its
      tokens, error position and message, `.matches(text)`) against the model (`glob_tokens`), compared
      EXACTLY (tokens, `is_recursive`, error position and kind, every match verdict); `Pattern::escape`
      against `glob_escape`, and "the escape of s matches s and none of its near misses" on the real crate.
  (ii) tree level.  Seeded small directory trees written to disk under `.build/scratch` whose directory NAMES
      hold `[ ] * ? ! -`, blanks, dots, non-ASCII letters, with look-alike siblings (`a*b` next to `aXb`,
      `conf[1]` next to `conf1`), symbolic links to files and directories, a dangling link, directories
      without read and/or search permission, files and directories with the same stem.  Include strings:
      relative literals, `./x`, `../x`, globs (`inc/*.toml`, `conf.d/??_*.toml`, `**/*.toml`, classes),
      generalisations of paths that exist, absolute patterns, patterns that name directories, patterns
      without a match, malformed patterns.  For every (tree, including file, include): the REAL private
      `get_cnf_path` (probe op `c14_cnf_path`; one probe batch for all trees; a second one under an
      unprivileged uid for the trees with permission bits when the harness runs as root) against the model
      `cnf_resolve` fed with the listing of the tree as walked on disk: compared EXACTLY, order included
      (a difference = ctx.broke("correspondence")).  JUDGE, independent of the model: `Spec.C14Glob.holds`
      (driver op `c14_glob_judge`) on what the real code returned: for a relative include every path lies in
      the including file's directory, literally, an existing regular file the include names literally is
      returned, and an include of the shape `names/*suffix` returns every regular file with that suffix of that
      (real, listable) directory - a failure is a VIOLATION with the tree and the include as replay.
`replay(obj)`  one stored (tree, from, file) again: verdict 0 / 1.
"""
import json
import os
import shutil
import stat
import subprocess

import vlib

META = "?*[]"
ERR_KINDS = (("wildcards are either", "wildcards"), ("recursive wildcards must", "recursive-wildcards"),
             ("invalid range", "invalid-range"))
UNPRIV = 65534
# Observation OUTSIDE the property (file-system permissions are not in C14's quantifier), reproduced on the code
# after 3e3e4c9: the escaped directory component is no longer free of metacharacters, so glob lists the PARENT
# directory instead of checking that the entry exists; a parent that can be searched but not listed (0711,
# unprivileged daemon) makes every relative include match nothing (Lean: escaped_dir_needs_listable_parent).
# Such trees go through the model-vs-code correspondence (which agrees); the judge is not applied to them.


# --------------------------------------------------------------------------------------------------------
# pattern level: generator

LIT = "abcxyz019._-!^~ ,"
UNI = "éßü日"


def _lit(rng, lo=1, hi=4):
    return "".join(rng.choice(LIT + ("é" if rng.random() < 0.1 else "")) for _ in range(rng.randint(lo, hi)))


def _class(rng):
    """(pattern text, sampler of a member, sampler of a non-member or None)"""
    neg = rng.random() < 0.35
    items = []
    body = ""
    shape = rng.random()
    if shape < 0.12:
        body, items = "]", ["]"]                       # `]` first
        if rng.random() < 0.5:
            c = rng.choice("ab-")
            body += c
            items.append(c)
    elif shape < 0.22:
        c = rng.choice("abc")
        body, items = rng.choice(["-" + c, c + "-"]), ["-", c]     # `-` at an edge
    elif shape < 0.30:
        body, items = rng.choice(["--0", "!-0", "+--"]), None      # ranges whose ends are punctuation
    elif shape < 0.36:
        body, items = rng.choice(["a-c-e", "a-", "-", "a-a", "c-a", "!", "!!", "^a", "[", "*", "?", "*?[", "a-]"]), None
    else:
        for _ in range(rng.randint(1, 3)):
            if rng.random() < 0.5:
                a = rng.choice("abcdwxyz0123AB" + UNI)
                b = chr(min(ord(a) + rng.randint(0, 4), 0x10FFFF))
                body += a + "-" + b
                items.append((a, b))
            else:
                c = rng.choice("abcxyz09._" + UNI)
                body += c
                items.append(c)
    if neg and body.startswith("!"):
        pass
    text = "[" + ("!" if neg else "") + body + "]"
    return text, neg, items


def _member(rng, items):
    it = rng.choice(items)
    if isinstance(it, tuple):
        return chr(rng.randint(ord(it[0]), ord(it[1])))
    return it


def gen_pattern(rng):
    """One pattern with the texts to try on it: (kind, pattern, [texts])."""
    r = rng.random()
    if r < 0.08:
        p = _lit(rng, 0, 6)
        return "literal", p, _near(rng, p)
    if r < 0.20:                                        # malformed on purpose
        p = rng.choice(["***", "a***", "a**", "**a", "a/**b", "a**/b", "**/*/***", "[", "[!", "[a", "[!a", "[]", "[!]",
                        "a[", "a[b", "x/[/y]", "[/]", "]", "a]b", "[]a", "**[", "*[!", "?[", "[[]", "[]]", "[!]]", "[]-]",
                        "**/**", "**/**/**", "a/**/**/b", "**//a", "/**", "**/", "/**/", "**", "*", "?", "", "/", "//",
                        "a/**", "a/**/", "*/**", "**/*"])
        if rng.random() < 0.3:
            p = _lit(rng, 0, 2) + p + _lit(rng, 0, 2)
        return "catalogue", p, _near(rng, p) + ["a/b", "a", "", "a/x/y/b", "/", "x/a", "a/b/c"]
    if r < 0.30:                                        # random soup
        p = "".join(rng.choice("ab/.*?[]!-^x*[]") for _ in range(rng.randint(1, 9)))
        return "soup", p, _near(rng, p) + ["".join(rng.choice("ab/.x]-!") for _ in range(rng.randint(0, 6))) for _ in range(4)]
    # structured: parts with a sampler each
    parts = []
    pat = ""
    n = rng.randint(1, 6)
    for k in range(n):
        x = rng.random()
        if x < 0.28:
            s = _lit(rng, 1, 3)
            pat += s
            parts.append(("lit", s))
        elif x < 0.42:
            pat += "?"
            parts.append(("q",))
        elif x < 0.58:
            if pat.endswith("*"):
                pat += "a"
                parts.append(("lit", "a"))
            pat += "*"
            parts.append(("star",))
        elif x < 0.68:
            if pat == "" or pat.endswith("/"):
                if rng.random() < 0.8 or k == n - 1:
                    pat += "**/" if k < n - 1 else "**"
                else:
                    pat += "**"                         # followed by something: malformed
                parts.append(("rec",))
            else:
                pat += "/"
                parts.append(("lit", "/"))
        elif x < 0.76:
            pat += "/"
            parts.append(("lit", "/"))
        else:
            t, neg, items = _class(rng)
            pat += t
            parts.append(("cls", t, neg, items))
    texts = []
    for _ in range(3):
        s = ""
        for part in parts:
            if part[0] == "lit":
                s += part[1]
            elif part[0] == "q":
                s += rng.choice("abz./-]é")
            elif part[0] == "star":
                s += "".join(rng.choice("ab./x") for _ in range(rng.choice([0, 0, 1, 2, 4])))
            elif part[0] == "rec":
                s += rng.choice(["", "", "x/", "x/y/", ".h/", "x"])
            else:
                _, t, neg, items = part
                if items and not neg:
                    s += _member(rng, items)
                elif items:
                    s += rng.choice("qQ7/~")
                else:
                    s += rng.choice("-!.0a]^[*?+,")
        texts.append(s)
    out = []
    for s in texts:
        out.append(s)
        out += _near(rng, s)[:2]
    return "structured", pat, out


def _near(rng, s):
    """`s` and near misses of it."""
    out = [s]
    if s:
        i = rng.randrange(len(s))
        out.append(s[:i] + s[i + 1:])
        out.append(s[:i] + rng.choice("aXb/.]") + s[i + 1:])
        out.append(s[:i] + s[i].swapcase() + s[i + 1:])
    out.append(s + rng.choice("a/]"))
    out.append(rng.choice("a/.") + s)
    return out


def rust_char(c):
    return "'" + {"'": "\\'", "\\": "\\\\"}.get(c, c) + "'"


def rust_str(s):
    return '"' + "".join({'"': '\\"', "\\": "\\\\"}.get(c, c) for c in s) + '"'


def rust_debug(pattern, m):
    """The Debug text of the real `Pattern` that has the model's tokens."""
    def spec(x):
        return "SingleChar(%s)" % rust_char(x["s"]) if "s" in x else "CharRange(%s, %s)" % (rust_char(x["a"]), rust_char(x["b"]))
    toks = []
    for t in m["tokens"]:
        k = t["t"]
        if k == "Char":
            toks.append("Char(%s)" % rust_char(t["c"]))
        elif k in ("AnyWithin", "AnyExcept"):
            toks.append("%s([%s])" % (k, ", ".join(spec(x) for x in t["cs"])))
        else:
            toks.append(k)
    return "Pattern { original: %s, tokens: [%s], is_recursive: %s }" % (
        rust_str(pattern), ", ".join(toks), "true" if m["recursive"] else "false")


def err_kind(msg):
    for frag, kind in ERR_KINDS:
        if frag in (msg or ""):
            return kind
    return "unknown:" + str(msg)


def crashed(r):
    return (not isinstance(r, dict)) or "panic" in r or r.get("died") or "garbled" in r


def pattern_part(ctx, n):
    rng = ctx.rng
    # escapes first: strings full of metacharacters through the REAL Pattern::escape
    raw = []
    for _ in range(max(20, n // 6)):
        raw.append("".join(rng.choice("ab[]*?!-/.[]*?" + ("é" if rng.random() < 0.1 else "")) for _ in range(rng.randint(0, 8))))
    raw += ["", "[", "]", "[]", "][", "[!]", "*", "**", "***", "?", "a*b", "conf[1]", "[a-c]", "[!a]", "**/x", "a/**/b", "!-"]
    esc_i = vlib.probe([{"op": "glob_escape", "text": s} for s in raw])
    esc_m = vlib.model([{"op": "glob_escape", "text": s} for s in raw])
    cases = []
    for s, i, m in zip(raw, esc_i, esc_m):
        ctx.count("glob:escape")
        if crashed(i) or i.get("escaped") != m.get("escaped"):
            ctx.disagreements += 1
            ctx.broke("correspondence", "Pattern::escape(%r): code %r, model %r" % (s, i, m), {"kind": "globinc-escape", "text": s})
            continue
        cases.append(("escape", i["escaped"], _near(rng, s), s))
    for _ in range(n):
        kind, p, texts = gen_pattern(rng)
        cases.append((kind, p, texts, None))
    ops = [{"pattern": p, "texts": list(dict.fromkeys(t))} for _, p, t, _ in cases]
    impl = vlib.probe([dict(o, op="glob_pattern") for o in ops])          # ONE probe batch
    mod = vlib.model([dict(o, op="glob_tokens") for o in ops])            # ONE model batch
    agree = 0
    for (kind, p, _, orig), o, i, m in zip(cases, ops, impl, mod):
        ctx.count("glob:pattern:" + kind)
        replay_obj = {"kind": "globinc-pattern", "pattern": p, "texts": o["texts"]}
        if crashed(i):
            ctx.violation("glob::Pattern::new(%r) / matches crashed: %r" % (p, i), replay_obj)
            continue
        ok = True
        if i.get("ok") != m.get("ok"):
            ok = False
        elif i["ok"]:
            n_match = sum(1 for x in i["matches"] if x)
            ctx.case({"glob-pattern": p, "texts": o["texts"]}, nontrivial=n_match > 0)
            ctx.count("glob:verdicts", len(i["matches"]))
            ctx.count("glob:verdicts:match", n_match)
            for t in m["tokens"]:
                ctx.count("glob:token:" + t["t"])
                if t["t"] in ("AnyWithin", "AnyExcept"):
                    ctx.count("glob:class:range" if any("a" in x for x in t["cs"]) else "glob:class:singles-only")
            if m["recursive"]:
                ctx.count("glob:recursive-pattern")
            if i["debug"] != rust_debug(p, m) or i["matches"] != m["matches"]:
                ok = False
            if orig is not None:
                # the real escape of `orig`: matches `orig` and nothing else of what was tried
                want = [t == orig for t in o["texts"]]
                if i["matches"] != want:
                    ctx.violation("Pattern::escape(%r) = %r does not match exactly %r among %r: %r"
                                  % (orig, p, orig, o["texts"], i["matches"]), replay_obj)
        else:
            ctx.case({"glob-pattern": p}, nontrivial=True)
            ik = err_kind(i.get("msg"))
            ctx.count("glob:error:" + ik)
            if ik != m.get("kind") or i.get("pos") != m.get("pos"):
                ok = False
            if orig is not None:
                ctx.violation("Pattern::escape(%r) = %r is not a pattern: %r" % (orig, p, i), replay_obj)
        if ok:
            agree += 1
        else:
            ctx.disagreements += 1
            ctx.broke("correspondence", "glob pattern %r: code %r, model %r" % (p, i, m), replay_obj)
    ctx.count("glob:pattern-agree", agree)
    ctx.traces += len(cases)
    if cases:
        k = next((j for j, c in enumerate(cases) if c[0] == "structured" and impl[j].get("ok") and any(impl[j]["matches"])), 0)
        ctx.sample({"glob_pattern": cases[k][1], "texts": ops[k]["texts"], "code": impl[k], "model": mod[k]}, limit=8)
    return len(cases)


# --------------------------------------------------------------------------------------------------------
# tree level: generator

DIR_NAMES = ["a*b", "aXb", "a?b", "ab", "conf[1]", "conf1", "conf[!1]", "conf2", "[", "]", "[]", "x]y", "[a-c]", "b",
             "**", "*", "?", "-", "a-z", "!bang", "sp ace", ".hid", "..x", "dot.d", "ünï", "日本", "inc", "conf.d",
             "sub", "x.toml", "x", "{a,b}", "a\\b", "[[]", "[!]"]
LOOKALIKE = {"a*b": ["aXb", "ab", "a*b2"], "a?b": ["aXb", "a*b"], "conf[1]": ["conf1"], "conf[!1]": ["conf2", "conf1"],
             "[a-c]": ["b", "a"], "**": ["x"], "*": ["x", "sub"], "?": ["x"], "[": ["x"], "[]": ["x"], "x]y": ["xy"],
             "[[]": ["["], "[!]": ["x", "!"]}
FILE_NAMES = ["x.toml", "y.toml", "01_a.toml", "02_b.toml", "1_c.toml", "ab_d.toml", ".h.toml", "main.toml", "z.conf",
              "x.toml.bak", "a*b.toml", "aXb.toml", "q[1].toml", "q1.toml", "ü.toml", "inc", "x", "-.toml", "[.toml"]


def gen_tree(rng, idx):
    """A tree spec: relative paths below the tree's top directory (JSON-able, replayable)."""
    dirs, files, links, modes = [], [], {}, {}

    def add_dir(rel):
        if rel not in dirs and rel not in files and rel not in links:
            dirs.append(rel)
            return True
        return False

    top = []
    want = rng.sample(DIR_NAMES, rng.randint(2, 4))
    for n in want:
        top.append(n)
        if n in LOOKALIKE and rng.random() < 0.9:
            top += rng.sample(LOOKALIKE[n], rng.randint(1, len(LOOKALIKE[n])))
    for n in dict.fromkeys(top):
        add_dir(n)
    # the same skeleton below the look-alikes, so that a pattern-like name finds something in its siblings
    skeleton = []
    for _ in range(rng.randint(1, 3)):
        d = rng.choice(["inc", "conf.d", "sub", rng.choice(DIR_NAMES)])
        skeleton.append(d)
        if rng.random() < 0.4:
            skeleton.append(d + "/" + rng.choice(["inc", "deep", rng.choice(DIR_NAMES)]))
    for t in list(dirs):
        for s in skeleton:
            if rng.random() < 0.85:
                for k in range(1, s.count("/") + 2):
                    add_dir(t + "/" + "/".join(s.split("/")[:k]))
    for d in list(dirs):
        for f in rng.sample(FILE_NAMES, rng.randint(0, 4)):
            rel = d + "/" + f
            if rel not in dirs and rel not in files:
                files.append(rel)
        if rng.random() < 0.3:                       # a file and a directory with the same stem
            stem = rng.choice(["inc", "x", "sub"])
            if d + "/" + stem in dirs and d + "/" + stem + ".toml" not in files and d + "/" + stem + ".toml" not in dirs:
                files.append(d + "/" + stem + ".toml")
    for t in dict.fromkeys(top):
        if t + "/main.toml" not in files and t + "/main.toml" not in dirs:
            files.append(t + "/main.toml")
    # links
    for _ in range(rng.randint(0, 3)):
        d = rng.choice(dirs)
        name = rng.choice(["lnk.toml", "l*k.toml", "ldir", "l[1]", "dangling.toml"])
        rel = d + "/" + name
        if rel in dirs or rel in files or rel in links:
            continue
        if name == "dangling.toml":
            links[rel] = "nowhere/x.toml"
        elif name.endswith(".toml") and files:
            tgt = rng.choice(files)
            links[rel] = os.path.relpath(tgt, d)
        else:
            # never an ancestor, and nothing that holds a link itself: no cycles for `**` to run around
            cands = [x for x in dirs if not (d + "/").startswith(x + "/") and x != d
                     and not any(l.startswith(x + "/") for l in links)]
            if cands:
                links[rel] = os.path.relpath(rng.choice(cands), d)
    # permissions
    if rng.random() < 0.35:
        cands = [d for d in dirs if "/" in d and not any(os.path.normpath(os.path.join(os.path.dirname(l), t)).startswith(d)
                                                           for l, t in links.items())
                 and not any(l.startswith(d + "/") for l in links)]
        if cands:
            modes[rng.choice(cands)] = rng.choice([0o000, 0o000, 0o711, 0o744])
    return {"label": "globinc-%d" % idx, "dirs": dirs, "files": files, "links": links, "modes": modes}


def write_tree(spec, top):
    shutil.rmtree(top, ignore_errors=True)
    os.makedirs(top)
    for d in spec["dirs"]:
        os.makedirs(os.path.join(top, d), exist_ok=True)
    for f in spec["files"]:
        p = os.path.join(top, f)
        os.makedirs(os.path.dirname(p), exist_ok=True)
        with open(p, "w") as fh:
            fh.write("")
    for rel, tgt in spec["links"].items():
        p = os.path.join(top, rel)
        os.makedirs(os.path.dirname(p), exist_ok=True)
        os.symlink(tgt, p)


def set_modes(spec, top, restore=False):
    for d, m in spec["modes"].items():
        try:
            os.chmod(os.path.join(top, d), 0o755 if restore else m)
        except OSError:
            pass


def comps(path):
    return [c for c in path.split("/") if c]


def listing(rng, top, spec, privileged):
    """What the disk holds, as walked (before the permission bits are applied; they are taken from the spec):
    every directory with its entries in the order the OS lists them (shuffled again), links with the components
    of their final target.  `privileged`: permission bits do not bind (root)."""
    top = os.path.realpath(top)
    L = []
    cs = comps(top)
    for i in range(len(cs)):
        L.append({"path": cs[:i], "list": True, "search": True, "entries": [[cs[i], "d", None]]})
    restricted = {os.path.join(top, d): m for d, m in spec["modes"].items()}
    for dirpath, dirnames, filenames in os.walk(top, followlinks=False):
        entries = []
        names = os.listdir(dirpath)
        rng.shuffle(names)
        for name in names:
            p = os.path.join(dirpath, name)
            st = os.lstat(p)
            if stat.S_ISLNK(st.st_mode):
                entries.append([name, "l", comps(os.path.realpath(p)) if os.path.exists(p) else None])
            elif stat.S_ISDIR(st.st_mode):
                entries.append([name, "d", None])
            else:
                entries.append([name, "f", None])
        m = restricted.get(dirpath, 0o755)
        L.append({"path": comps(dirpath), "list": privileged or bool(m & 0o004), "search": privileged or bool(m & 0o001),
                  "entries": entries})
    return L


def _escape(s):
    return "".join("[" + c + "]" if c in META else c for c in s)


def gen_includes(rng, spec, top, d):
    """Include strings for a file in directory `d` (relative to the tree's top)."""
    out = []
    below = [f[len(d) + 1:] for f in spec["files"] + list(spec["links"]) if f.startswith(d + "/")]
    belowd = [x[len(d) + 1:] for x in spec["dirs"] if x.startswith(d + "/")]
    sibs = [x for x in spec["dirs"] if "/" not in x and x != d.split("/")[0]]
    fixed = ["*.toml", "inc/*.toml", "conf.d/??_*.toml", "**/*.toml", "*/*.toml", "inc/x.toml", "x.toml", "./x.toml",
             "./inc/*.toml", "**", "*", "*/", "inc/", "inc", ".*", ".*/*.toml", "[!.]*.toml", "[a-y]*.toml", "**/inc/**/*.toml",
             "**/x.toml", "**/", "", ".", "..", "nothing.toml", "no/such/x.toml", "*.nomatch", "inc//x.toml", "inc/./x.toml",
             "??.toml", "[xy].toml", "[!x].toml", "*/**/*.toml", "**/**/*.toml", "inc/**", "x.toml/", "*.toml/", "**/*"]
    out += rng.sample(fixed, 9)
    out += rng.sample(["***", "a**", "**a", "inc/**x", "[", "[!", "inc/[", "[]", "x[", "*[", "inc/***/x", "[!]"], 2)
    depth = d.count("/") + 1
    for f in rng.sample(below, min(4, len(below))):
        out.append(f)                                           # as written: a name full of metacharacters IS a pattern
        out.append(_escape(f))                                  # escaped: names exactly it
        out.append("./" + f)
        cs = f.split("/")
        k = rng.randrange(len(cs))
        g = list(cs)
        g[k] = rng.choice(["*", "?" * len(cs[k]), cs[k][:1] + "*", "*" + cs[k][-5:], "[" + cs[k][:1].replace("]", "x").replace("!", "x") + "]*"
                           if cs[k][:1] not in "[" else "?*", "**"])
        out.append("/".join(g))
        if len(cs) > 1:
            out.append("**/" + _escape(cs[-1]))
    for x in rng.sample(belowd, min(2, len(belowd))):
        out += [x, x + "/", x + "/*", _escape(x) + "/*.toml"]
    for s in rng.sample(sibs, min(2, len(sibs))):
        up = "/".join([".."] * depth)
        out += [up + "/" + s + "/main.toml", up + "/" + _escape(s) + "/*.toml", up + "/*/main.toml"]
    if depth > 1:
        out += ["../*.toml", "../main.toml", "../*/x.toml", "*/../*.toml"]
    # absolute
    out.append(top + "/" + d + "/*.toml")                       # the directory as a PATTERN (what the old code did for all)
    out.append(top + "/" + _escape(d) + "/*.toml")
    out.append(top + "/*/main.toml")
    if rng.random() < 0.3:
        out.append(top + "/**/x.toml")
    if rng.random() < 0.1:
        out.append("/")
    return list(dict.fromkeys(out))


def gen_queries(rng, spec, top, per_tree):
    mains = [f for f in spec["files"] if not any((f + "/").startswith(d + "/") and m != 0o755 for d, m in spec["modes"].items())]
    # prefer including files in directories whose name is a pattern
    mains.sort(key=lambda f: (not any(c in os.path.dirname(f) for c in META), rng.random()))
    qs = []
    for f in mains[:per_tree]:
        d = os.path.dirname(f)
        for inc in gen_includes(rng, spec, top, d):
            qs.append({"from": f, "file": inc})
    # through a link to a directory / to a file: canonicalize resolves it
    for l in list(spec["links"])[:2]:
        if l.endswith(".toml") and not l.endswith("dangling.toml"):
            for inc in ["*.toml", "inc/*.toml", "x.toml"]:
                qs.append({"from": l, "file": inc})
    return qs


# --------------------------------------------------------------------------------------------------------
# tree level: run

def _probe_as(ops, uid):
    """The probe under another uid (the permission bits of the tree then bind)."""
    env = vlib.env_offline({"ACMED_VERIF_RUN": "lines"})
    cwd = os.path.join(vlib.BUILD, "scratch", "cwd")
    os.makedirs(cwd, exist_ok=True)
    data = "".join(json.dumps(o) + "\n" for o in ops)
    p = subprocess.run([vlib.ACMED_DEV], input=data, stdout=subprocess.PIPE, stderr=subprocess.PIPE, text=True, env=env,
                       timeout=600, cwd=cwd, user=uid, group=uid, extra_groups=[])
    outs = [json.loads(ln) for ln in p.stdout.split("\n") if ln.strip()]
    if len(outs) != len(ops):
        raise RuntimeError("probe as uid %d: %d answers for %d ops, rc=%s %s" % (uid, len(outs), len(ops), p.returncode, p.stderr[-300:]))
    return outs


def can_drop():
    if os.geteuid() != 0:
        return False
    try:
        _probe_as([{"op": "glob_escape", "text": "x"}], UNPRIV)
        return True
    except Exception:
        return False


def features(spec):
    out = []
    names = set(os.path.basename(d) for d in spec["dirs"])
    if any(any(c in n for c in META) for n in names):
        out.append("dir-name-with-metacharacter")
    for a, bs in LOOKALIKE.items():
        if a in names and any(b in names for b in bs):
            out.append("look-alike-siblings")
            break
    if any(any(ord(c) > 127 for c in n) for n in names):
        out.append("non-ascii-dir-name")
    if any(" " in n for n in names):
        out.append("blank-in-dir-name")
    if any(n.startswith(".") for n in names):
        out.append("dot-dir")
    for l, t in spec["links"].items():
        out.append("link:" + ("dangling" if t.startswith("nowhere") else "file" if t.endswith(".toml") else "dir"))
    for m in spec["modes"].values():
        out.append("mode:%03o" % m)
    stems = set(spec["dirs"])
    if any(f.endswith(".toml") and f[:-5] in stems for f in spec["files"]):
        out.append("file-and-dir-same-stem")
    return sorted(set(out))


def classify_include(inc, top):
    ks = []
    if inc.startswith("/"):
        ks.append("absolute")
    else:
        ks.append("relative")
    if inc.startswith("./") or "/./" in inc or inc == ".":
        ks.append("dot")
    if ".." in inc.split("/"):
        ks.append("dotdot")
    if "**" in inc:
        ks.append("recursive")
    body = inc[len(top):] if inc.startswith(top) else inc
    if not any(c in body for c in "?*["):
        ks.append("literal")
    if "[" in body:
        ks.append("class")
    if inc.endswith("/"):
        ks.append("trailing-slash")
    if inc == "":
        ks.append("empty")
    return ks


def check_trees(ctx, specs, scratch, drop):
    """specs: tree specs with "queries".  Writes them, runs the real code and the model, compares, judges."""
    rng = ctx.rng
    runs = []                                        # (spec, top, privileged?, listing)
    for k, spec in enumerate(specs):
        top = os.path.realpath(scratch) + "/t%d" % k
        write_tree(spec, top)
        views = [True] if os.geteuid() == 0 else [False]
        if spec["modes"] and os.geteuid() == 0:
            views = [True, False] if drop else [True]
            if not drop:
                ctx.count("globinc:permission-bits-skipped(root, no unprivileged uid)")
        for priv in views:
            runs.append((spec, top, priv, listing(rng, top, spec, priv)))
    for spec, top, _, _ in runs:
        set_modes(spec, top)
    try:
        ops = {True: [], False: []}
        for ri, (spec, top, priv, _) in enumerate(runs):
            for qi, q in enumerate(spec["queries"]):
                ops[priv].append((ri, qi, {"op": "c14_cnf_path", "from": top + "/" + q["from"],
                                           "file": q["file"].replace("${TOP}", top)}))
        res = {}
        if os.geteuid() == 0:
            outs = vlib.probe([o for _, _, o in ops[True]])
            for (ri, qi, _), o in zip(ops[True], outs):
                res[(ri, qi)] = o
            if ops[False]:
                outs = _probe_as([o for _, _, o in ops[False]], UNPRIV)
                for (ri, qi, _), o in zip(ops[False], outs):
                    res[(ri, qi)] = o
        else:
            outs = vlib.probe([o for _, _, o in ops[False]])
            for (ri, qi, _), o in zip(ops[False], outs):
                res[(ri, qi)] = o
    finally:
        for spec, top, _, _ in runs:
            set_modes(spec, top, restore=True)
    # the model and the judge: one op per run each
    mops, jops = [], []
    for ri, (spec, top, priv, L) in enumerate(runs):
        qs = []
        cases = []
        for qi, q in enumerate(spec["queries"]):
            frm = top + "/" + q["from"]
            d = os.path.dirname(os.path.realpath(frm))
            f = q["file"].replace("${TOP}", top)
            qs.append({"dir": d, "file": f})
            r = res.get((ri, qi))
            cases.append({"dir": d, "file": f, "returned": r["ok"] if isinstance(r, dict) and "ok" in r else []})
        mops.append({"op": "cnf_resolve", "fs": L, "queries": qs})
        jops.append({"op": "c14_glob_judge", "fs": L, "cases": cases})
    mouts = vlib.model(mops + jops)
    old_cache = {}

    def old_says(ri, qi):
        """What the construction before 3e3e4c9 (model `cnfPatternOld`) answers: only for the diagnosis."""
        if ri not in old_cache:
            old_cache[ri] = vlib.model([dict(mops[ri], old=True)])[0]["results"]
        return old_cache[ri][qi]
    n_viol = 0
    for ri, (spec, top, priv, L) in enumerate(runs):
        mo, jo = mouts[ri], mouts[len(runs) + ri]
        if not mo.get("wf"):
            ctx.broke("harness", "globinc: the listing of %s is not well-formed for the model" % spec["label"], None)
            continue
        for f in features(spec):
            ctx.count("globinc:tree:" + f)
        ctx.count("globinc:trees" + ("" if priv else ":unprivileged-view"))
        for qi, q in enumerate(spec["queries"]):
            i = res.get((ri, qi))
            m = mo["results"][qi]
            v = jo["verdicts"][qi]
            f = q["file"].replace("${TOP}", top)
            one = dict(spec, queries=[q])
            replay_obj = {"kind": "globinc", "tree": one, "privileged": priv}
            ctx.traces += 1
            for kcls in classify_include(f, top):
                ctx.count("globinc:include:" + kcls)
            if any(c in os.path.dirname(q["from"]) for c in META):
                ctx.count("globinc:from-dir-has-metacharacter")
            if crashed(i):
                ctx.violation("get_cnf_path crashed on include %r of %s: %r" % (f, q["from"], i), replay_obj)
                n_viol += 1
                continue
            agree = True
            if "ok" in i:
                n = len(i["ok"])
                ctx.case({"tree": spec["label"], "q": q, "priv": priv}, nontrivial=n > 0)
                ctx.count("globinc:result:%s" % ("0" if n == 0 else "1" if n == 1 else "2+"))
                if len(set(i["ok"])) != n:
                    ctx.count("globinc:result-with-duplicates")
                if any(p.endswith("/.") or p.endswith("/..") for p in i["ok"]):
                    ctx.count("globinc:result-with-dot-entries")
                if m.get("ok") != i["ok"]:
                    agree = False
            else:
                ctx.case({"tree": spec["label"], "q": q, "priv": priv}, nontrivial=True)
                ctx.count("globinc:result:error")
                if "err" not in m:
                    agree = False
                elif m["err"] == "pattern":
                    ctx.count("globinc:error:" + m.get("kind", "?"))
                else:
                    agree = False
            if m.get("err") == "fuel":
                ctx.broke("harness", "globinc: the model ran out of fuel on %r" % f, replay_obj)
            if not agree:
                ctx.disagreements += 1
                note = ""
                if "ok" in i and old_says(ri, qi).get("ok") == i["ok"]:
                    note = " (exactly what the construction before 3e3e4c9, model cnfPatternOld, gives)"
                ctx.broke("correspondence", "include %r of %s (directory %r%s): get_cnf_path returned %r, the model %r%s"
                          % (f, q["from"], os.path.dirname(os.path.realpath(top + "/" + q["from"])),
                             "" if priv else ", unprivileged", i, m, note), replay_obj)
            # the judge, on what the REAL code returned
            if "ok" in i and not priv and unlistable_parent(spec, q):
                ctx.count("globinc:not-judged:unlistable-parent-of-including-directory")
                if not v.get("holds"):
                    ctx.count("globinc:observed:include-lost-below-unlistable-parent")
            elif "ok" in i:
                if v.get("names_file"):
                    ctx.count("globinc:judge:names-existing-file-literally")
                if v.get("relative"):
                    ctx.count("globinc:judge:relative")
                if v.get("star_files"):
                    ctx.count("globinc:judge:star-suffix-include-with-files")
                if not v.get("holds"):
                    n_viol += 1
                    what = []
                    if not v.get("inside"):
                        outside = [p for p in i["ok"] if not (p == cases_dir(top, q) or p.startswith(cases_dir(top, q).rstrip("/") + "/"))]
                        what.append("paths outside the including file's directory: %r" % outside[:4])
                    if v.get("names_file") and v.get("named") not in i["ok"]:
                        what.append("the existing file %r it names literally is not returned" % v.get("named"))
                    lost = [p for p in v.get("star_files", []) if p not in i["ok"]]
                    if lost:
                        what.append("existing regular files with the suffix it asks for are not returned: %r" % lost[:4])
                    ctx.violation("include %r of %s (directory %r%s): %s; returned %r"
                                  % (f, q["from"], cases_dir(top, q), "" if priv else ", unprivileged uid",
                                     "; ".join(what), i["ok"][:6]), replay_obj)
        if ri == 0:
            k = next((qi for qi, q in enumerate(spec["queries"]) if "ok" in (res.get((ri, qi)) or {})
                      and len(res[(ri, qi)]["ok"]) > 1 and any(c in q["from"] for c in META)), 0)
            ctx.sample({"globinc_tree": spec["label"], "from": spec["queries"][k]["from"], "include": spec["queries"][k]["file"],
                        "get_cnf_path": res.get((ri, k)), "model": mo["results"][k], "judge": jo["verdicts"][k]}, limit=8)
    return n_viol


def cases_dir(top, q):
    return os.path.dirname(os.path.realpath(top + "/" + q["from"]))


def unlistable_parent(spec, q):
    """The including file's directory has, on its way, a name with a metacharacter below a directory that the
    unprivileged uid cannot list."""
    cs = os.path.dirname(q["from"]).split("/")
    for k in range(1, len(cs)):
        parent = "/".join(cs[:k])
        if any(c in cs[k] for c in META) and parent in spec["modes"] and not spec["modes"][parent] & 0o004:
            return True
    return False


def catalogue():
    """Hand-written trees: the two shapes of the repaired defect, the duplicate-producing pattern, specials."""
    out = []
    base = {"label": "globinc-cat-lookalikes",
            "dirs": ["r/a*b/inc", "r/aXb/inc", "r/conf[1]/inc", "r/conf1/inc", "r/plain/inc", "r/sp ace/inc", "r/[/inc", "r/]/inc",
                     "r/**/inc", "r/x/inc", "r/?/inc", "r/-/inc", "r/日本/inc", "r/.hid/inc"],
            "files": [], "links": {}, "modes": {}}
    for d in base["dirs"]:
        base["files"] += [d + "/x.toml", d + "/y.toml", d[:-4] + "/main.toml", d[:-4] + "/x.toml"]
    qs = []
    for d in base["dirs"]:
        for inc in ["inc/x.toml", "inc/*.toml", "x.toml", "*.toml", "**/*.toml", "./x.toml", "../*/x.toml", "inc/../x.toml", ""]:
            qs.append({"from": d[:-4] + "/main.toml", "file": inc})
    out.append(dict(base, queries=qs))
    dup = {"label": "globinc-cat-two-recursive-groups", "dirs": ["d/x/x/x", "d/x/y"], "links": {}, "modes": {},
           "files": ["d/main.toml", "d/x/x/x/y", "d/x/y/y", "d/x/x/y"]}
    dup["queries"] = [{"from": "d/main.toml", "file": f} for f in
                      ["**/x/**/y", "**/x/**", "**/**/y", "x/**/x/**/y", "**/y", "**", "**/", "**/*/*", ".*", ".*/x", "x/.*/y",
                       "x/../x/y/y", "x/./y/y", "x//y//y", "x/y/y/", "x/y/", "*/", "*/*/", "x/y/y/.", "x/..", "../d/x/y/y", "x/y/y/.."]]
    out.append(dup)
    lnk = {"label": "globinc-cat-links", "dirs": ["m/real/inc", "m/other", "m/a*b"], "modes": {},
           "files": ["m/main.toml", "m/real/inc/x.toml", "m/real/r.toml", "m/other/o.toml", "m/a*b/s.toml"],
           "links": {"m/ldir": "real", "m/l*r": "a*b", "m/lfile.toml": "other/o.toml", "m/other/back.toml": "../main.toml",
                     "m/dangling.toml": "nowhere", "m/other/via.toml": "../ldir/r.toml", "m/other/up": ".."}}
    lnk["queries"] = [{"from": f, "file": inc} for f in ["m/main.toml", "m/other/back.toml", "m/ldir/r.toml", "m/l*r/s.toml", "m/other/via.toml"]
                      for inc in ["*.toml", "*/*.toml", "ldir/inc/*.toml", "l*r/*.toml", "l[*]r/*.toml", "dangling.toml", "dang*",
                                  "lfile.toml", "*/", "ldir/", "lfile.toml/", "ldir/..", "ldir/../*.toml", "inc/*.toml", "../*.toml",
                                  "other/up/*.toml", "real/**/*.toml", "ldir/**"]]
    out.append(lnk)
    perm = {"label": "globinc-cat-permissions", "links": {},
            "dirs": ["p/d000/sub", "p/d711/sub", "p/d744/sub", "p/d711/conf[1]/inc", "p/d744/conf[1]", "p/open"],
            "files": ["p/main.toml", "p/d000/x.toml", "p/d711/x.toml", "p/d744/x.toml", "p/d000/sub/y.toml", "p/d711/sub/y.toml",
                      "p/d744/sub/y.toml", "p/open/x.toml", "p/d711/conf[1]/main.toml", "p/d711/conf[1]/inc/x.toml",
                      "p/d711/conf[1]/x.toml", "p/d711/main.toml"],
            "modes": {"p/d000": 0o000, "p/d711": 0o711, "p/d744": 0o744}}
    perm["queries"] = [{"from": "p/main.toml", "file": inc} for inc in
                       ["*/x.toml", "d000/x.toml", "d711/x.toml", "d744/x.toml", "d000/*.toml", "d711/*.toml", "d744/*.toml",
                        "**/*.toml", "d711/sub/*.toml", "d711/sub/y.toml", "d744/sub/y.toml", "d744/*/y.toml", "d744/*", "d000",
                        "d000/", "d*", "d*/", "d711/conf[[]1[]]/x.toml", "d711/conf[[]1]/inc/*.toml", "d000/..", "d000/.", "d744/."]]
    perm["queries"] += [{"from": "p/d711/main.toml", "file": inc} for inc in ["x.toml", "*.toml", "sub/y.toml", "sub/*.toml"]]
    out.append(perm)
    if True:
        unl = {"label": "globinc-cat-unlistable-parent", "links": {}, "dirs": ["p/d711/conf[1]/inc", "p/d711/conf1/inc"],
               "files": ["p/d711/conf[1]/main.toml", "p/d711/conf[1]/inc/x.toml", "p/d711/conf[1]/x.toml",
                         "p/d711/conf1/main.toml", "p/d711/conf1/inc/x.toml", "p/d711/conf1/x.toml"],
               "modes": {"p/d711": 0o711}}
        unl["queries"] = [{"from": f, "file": inc} for f in ["p/d711/conf[1]/main.toml", "p/d711/conf1/main.toml"]
                          for inc in ["x.toml", "inc/x.toml", "inc/*.toml", "*.toml", "../x.toml"]]
        out.append(unl)
    return out


def extend(ctx, n_patterns=None, n_trees=None):
    quick = ctx.quick()
    n_patterns = n_patterns if n_patterns is not None else (3000 if quick else 40000)
    n_trees = n_trees if n_trees is not None else (80 if quick else 1200)
    pattern_part(ctx, n_patterns)
    scratch = os.path.join(vlib.BUILD, "scratch", "globinc-%d" % os.getpid())
    shutil.rmtree(scratch, ignore_errors=True)
    os.makedirs(scratch)
    drop = can_drop()
    ctx.count("globinc:unprivileged-probe-available" if drop else "globinc:unprivileged-probe-unavailable")
    ctx.notes.append("py/ext/globinc.py: include-pattern expansion is Model/Glob.lean (the glob crate's Pattern::new / matches / "
                     "escape and its directory walk, get_cnf_path), tied to the real glob::Pattern and the real private "
                     "get_cnf_path by exact comparison (tokens, error position and kind, match verdicts; returned paths in "
                     "order) on generated patterns and on generated trees written to disk, permission bits %s; "
                     "Spec.C14Glob.holds judged on what the real get_cnf_path returned"
                     % ("exercised under uid %d" % UNPRIV if drop else "not exercised (no unprivileged uid available)"))
    try:
        specs = catalogue()
        done = 0
        while done < n_trees:
            k = min(100, n_trees - done)
            for i in range(k):
                spec = gen_tree(ctx.rng, done + i)
                # ${TOP} in an absolute include is replaced by the directory the tree is written to
                top = "${TOP}"
                spec["queries"] = gen_queries(ctx.rng, spec, top, 3 if quick else 4)
                specs.append(spec)
            check_trees(ctx, specs, scratch, drop)
            shutil.rmtree(scratch, ignore_errors=True)
            os.makedirs(scratch)
            specs = []
            done += k
    finally:
        shutil.rmtree(scratch, ignore_errors=True)


def replay(obj, ctx=None):
    if obj.get("kind") in ("globinc-pattern", "globinc-escape"):
        if obj["kind"] == "globinc-escape":
            i = vlib.probe([{"op": "glob_escape", "text": obj["text"]}])[0]
            m = vlib.model([{"op": "glob_escape", "text": obj["text"]}])[0]
            print("impl", i, "model", m)
            return 0 if i == m else 1
        o = {"pattern": obj["pattern"], "texts": obj["texts"]}
        i = vlib.probe([dict(o, op="glob_pattern")])[0]
        m = vlib.model([dict(o, op="glob_tokens")])[0]
        print("impl", i)
        print("model", m)
        if crashed(i) or i.get("ok") != m.get("ok"):
            return 1
        if i["ok"]:
            return 0 if (i["debug"] == rust_debug(obj["pattern"], m) and i["matches"] == m["matches"]) else 1
        return 0 if (err_kind(i.get("msg")) == m.get("kind") and i.get("pos") == m.get("pos")) else 1
    ctx = ctx or vlib.Ctx("C14", "quick", 0)
    scratch = os.path.join(vlib.BUILD, "scratch", "globinc-replay-%d" % os.getpid())
    shutil.rmtree(scratch, ignore_errors=True)
    os.makedirs(scratch)
    try:
        spec = obj["tree"]
        drop = (not obj.get("privileged", True)) and can_drop()
        check_trees(ctx, [spec], scratch, drop)
    finally:
        shutil.rmtree(scratch, ignore_errors=True)
    for d, _ in ctx.violations:
        print(d)
    for w, d, _ in ctx.broken:
        print("%s: %s" % (w, d))
    print("C14 globinc replay %s: %s" % (obj["tree"].get("label"), "property violated" if ctx.violations else
                                        "correspondence broken" if ctx.broken else "holds"))
    return 1 if (ctx.violations or ctx.broken) else 0
