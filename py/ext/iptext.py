"""C01 extension, clause "IP addresses in canonical text form": tie of `Model/IpText.lean` (Rust's
`IpAddr::from_str(..)?.to_string()`, theorems `Props/C01Ip.lean`) and of the judges `Spec/C01Ip.lean`
to the real code.

`extend(ctx)`        generated spellings (see `gen_spellings`) through the REAL `Identifier::new`
                     (probe op `ident`, type ip) in ONE probe batch and through the model (driver ops
                     `ip_canon`, `c01_ip_judge`) in ONE model batch.
                     Compared exactly (correspondence): accepted / refused, and the canonical text.
                     Judged (violation): `Spec.C01Ip.holds configured value` on what the real code
                     produced — the value is THE canonical text of the configured address (lower case, no
                     leading zeros, first longest zero run compressed: `rfc5952`, written on the text without
                     the printer) —, a crash, and a spelling that is an address for the model and for the
                     generator but refused by the code.
                     Third opinion: the generator knows which address it spelled; the model's octets must
                     be that address (else the model / generator pair is wrong: reported as broken).
`extend_flows(ctx, model, results)`
                     the IP identifiers of the C01 flow runs: for the i-th configured identifier the value
                     of the i-th entry of the newOrder payload the mock CA received (`sent`) and the octets
                     of the matching iPAddress entry of the CSR (`sent_octets_hex`, paired through the
                     model's octets of the configured text; no text rendering by Python involved) are given
                     to `c01_ip_judge`.
`replay(obj)`        one stored spelling again: verdict 0 / 1.
"""
import vlib

HEX = "0123456789abcdef"


# --------------------------------------------------------------------------------------------------------
# generator

def _rand_groups(rng):
    """Eight 16-bit groups, biased towards what the printer distinguishes: zero runs (several, ties),
    the IPv4-mapped / IPv4-compatible prefixes, small and full-width values."""
    r = rng.random()
    if r < 0.06:
        g = [0] * 5 + [0xffff] + [rng.getrandbits(16), rng.getrandbits(16)]          # IPv4-mapped
        if rng.random() < 0.2:
            g[6] = g[7] = 0
        return g
    if r < 0.10:
        return [0] * 6 + [rng.getrandbits(16), rng.getrandbits(16)]                  # IPv4-compatible
    if r < 0.12:
        return [0x64, 0xff9b] + [0] * 4 + [rng.getrandbits(16), rng.getrandbits(16)]  # NAT64 prefix
    if r < 0.15:
        return rng.choice([[0] * 8, [0] * 7 + [1], [1] + [0] * 7, [0] * 5 + [0xffff, 0, 0], [0] * 4 + [0xffff, 0, 0, 0],
                           [0] * 5 + [0xfffe, 1, 2], [1, 0, 0, 2, 0, 0, 0, 3], [1, 0, 0, 0, 2, 0, 0, 0],
                           [0, 0, 1, 0, 0, 1, 0, 0], [1, 0, 1, 0, 1, 0, 1, 0], [0xffff] * 8])
    pz = rng.choice([0.0, 0.2, 0.5, 0.5, 0.7, 0.9])
    g = []
    for _ in range(8):
        x = rng.random()
        if x < pz:
            g.append(0)
        elif x < pz + (1 - pz) * 0.3:
            g.append(rng.choice([1, 2, 9, 0xa, 0xf, 0x10, 0xff, 0x100, 0xfff, 0x1000, 0xffff, 0xdb8, 0x2001, 0xfe80]))
        else:
            g.append(rng.getrandbits(16))
    return g


def _group_text(rng, v, style):
    """One 16-bit group in a legal spelling: 1..4 hex digits, either case."""
    s = "%x" % v
    if style == "pad4":
        s = s.rjust(4, "0")
    elif style == "padr":
        s = s.rjust(rng.randint(len(s), 4), "0")
    case = rng.random()
    if case < 0.35:
        s = s.upper()
    elif case < 0.5:
        s = "".join(c.upper() if rng.random() < 0.5 else c for c in s)
    return s


def _quad(o):
    return "%d.%d.%d.%d" % tuple(o)


def spell_v6(rng, g, force=None):
    """A legal spelling of the address with groups g, and a tag describing the choices.
    Compression: none, or "::" for ANY run of 1..n zero groups (not only the longest / first one).
    Embedded IPv4: the last two groups as a dotted quad, when they are written at all."""
    style = rng.choice(["min", "min", "pad4", "padr"])
    zero_runs = []            # every contiguous stretch of zero groups, every sub-stretch of it
    for a in range(8):
        for b in range(a + 1, 9):
            if all(x == 0 for x in g[a:b]):
                zero_runs.append((a, b))
    comp = None
    want = force or rng.choice(["none", "any", "any", "longest"])
    if zero_runs and want != "none":
        if want == "longest":
            m = max(b - a for a, b in zero_runs)
            comp = [r for r in zero_runs if r[1] - r[0] == m][0]
        else:
            comp = rng.choice(zero_runs)
    tail_written = comp is None or comp[1] <= 6
    v4tail = tail_written and rng.random() < (0.6 if g[:5] == [0] * 5 else 0.2)
    n_hex = 6 if v4tail else 8

    def part(lo, hi):
        out = [_group_text(rng, g[i], style) for i in range(lo, min(hi, n_hex))]
        if v4tail and hi == 8:
            out.append(_quad([g[6] >> 8, g[6] & 255, g[7] >> 8, g[7] & 255]))
        return ":".join(out)
    if comp is None:
        text = part(0, 8)
        tag = "v6:full"
    else:
        text = part(0, comp[0]) + "::" + (part(comp[1], 8) if comp[1] < 8 else "")
        tag = "v6:compressed-%d%s" % (comp[1] - comp[0], "" if want == "longest" else "-free")
    if v4tail:
        tag += "+v4tail"
    return text, tag + ":" + style


def addr_hex_v6(g):
    return "".join("%04x" % x for x in g)


def _rand_octets(rng):
    return [rng.choice([0, 1, 9, 10, 99, 100, 127, 192, 199, 200, 249, 250, 255, rng.randrange(256), rng.randrange(256)])
            for _ in range(4)]


def invalid_spellings(rng):
    """Texts that are NOT IP addresses for Rust's parser, each with the reason."""
    g = _rand_groups(rng)
    if all(x == 0 for x in g):
        g[3] = 0x1f
    full = ["%x" % x for x in g]
    o = _rand_octets(rng)
    q = _quad(o)
    good6, _ = spell_v6(rng, g)
    k = rng.randrange(8)
    out = []

    def add(why, text):
        out.append((text, "invalid:" + why))
    five = list(full)
    five[k] = rng.choice(["0" + full[k].rjust(4, "0"), "12345", "00000", "fffff", "1" + full[k].rjust(4, "0")])
    add("5-digit-group", ":".join(five))
    add("5-digit-group", "::" + five[k])
    a, b = sorted(rng.sample(range(1, 7), 2))
    if b - a >= 1:
        add("two-double-colons", ":".join(full[:a]) + "::" + ":".join(full[a + 1:b]) + "::" + ":".join(full[b + 1:]))
    add("two-double-colons", "::" + full[0] + "::")
    add("triple-colon", full[0] + ":::" + full[1])
    lz = [str(x) for x in o]
    j = rng.randrange(4)
    lz[j] = rng.choice(["0", "00"]) + lz[j]
    add("leading-zero-octet", ".".join(lz))
    add("leading-zero-octet", "::ffff:" + ".".join(lz))
    big = [str(x) for x in o]
    big[j] = str(rng.choice([256, 260, 300, 999, 1000, 1234, 65535]))
    add("octet-out-of-range", ".".join(big))
    add("octet-out-of-range", "::" + ".".join(big))
    add("zone-id", good6 + rng.choice(["%eth0", "%1", "%", "%25eth0"]))
    add("empty", "")
    ws = rng.choice([" ", "\t", "\n", "\r\n", " "])
    add("whitespace", rng.choice([ws + q, q + ws, ws + good6, good6 + ws, q.replace(".", ". ", 1), good6.replace(":", " :", 1)]))
    add("trailing-colon", ":".join(full) + ":")
    add("trailing-colon", ":".join(full[:rng.randint(1, 6)]) + ":")
    add("leading-colon", ":" + ":".join(full))
    add("leading-colon", ":" + ":".join(full[:rng.randint(1, 6)]))
    add("too-many-groups", ":".join(full + full[:rng.randint(1, 3)]))
    add("eight-groups-and-double-colon", rng.choice([":".join(full) + "::", "::" + ":".join(full),
                                                    ":".join(full[:4]) + "::" + ":".join(full[4:])]))
    add("too-few-groups", ":".join(full[:rng.randint(2, 7)]))
    add("brackets-or-port", rng.choice(["[" + good6 + "]", "[" + good6 + "]:443", q + ":80", "[" + q + "]"]))
    add("prefix-length", rng.choice([q + "/24", good6 + "/64", "::/0"]))
    parts = [str(x) for x in o]
    add("v4-part-count", rng.choice([".".join(parts[:3]), ".".join(parts + ["7"]), ".".join(parts[:2]), parts[0],
                                     ".".join(parts) + ".", "." + ".".join(parts), parts[0] + ".." + ".".join(parts[2:])]))
    add("v4-not-decimal", rng.choice(["0x7f.0.0.1", "1.2.3.a", "1.2.3.-4", "+1.2.3.4", "1.2.3.4e0", "1.2.3.0x4",
                                      "１.2.3.4", "1.2.3.٤", "1,2,3,4"]))
    add("v4-not-at-end", rng.choice([q + "::", q + "::1", "::" + q + ":5", q + ":1:2:3:4:5:6", "1:" + q + ":2::"]))
    add("v4-tail-no-room", ":".join(full[:7]) + ":" + q)
    add("v4-tail-too-many", ":".join(full[:rng.choice([7, 8])]) + ":" + q)
    add("v4-tail-too-few", ":".join(full[:rng.randint(1, 5)]) + ":" + q)
    add("bad-hex-digit", ":".join(full[:k] + [rng.choice(["g", "1g", "xyz", "-1", "0x1", "١", "ａ"])] + full[k + 1:]))
    add("not-an-address", rng.choice(["localhost", "example.org", "ffff::ffff::", ":", ".", "...", "::.",
                                      "1.2.3.4.5.6", "::1.2.3", "::1.2.3.4.5", "1::2.3.4", "1.2::3.4"]))
    return out


def gen_spellings(rng, n_valid, n_invalid_rounds):
    """[(text, tag, expected)] — expected = hex of the 4 / 16 octets the text denotes, None = not an address."""
    out = []
    fixed = [
        ("2001:DB8::1", "20010db8000000000000000000000001"), ("2001:0db8:0:0:0:0:0:1", "20010db8000000000000000000000001"),
        ("0:0:0:0:0:0:0:1", "0" * 31 + "1"), ("::ffff:192.0.2.1", "0" * 20 + "ffffc0000201"),
        ("1:0:0:2:0:0:0:3", "0001000000000002000000000000" + "0003"), ("::", "0" * 32), ("0::0", "0" * 32),
        ("::FFFF:1.2.3.4", "0" * 20 + "ffff01020304"), ("::1.2.3.4", "0" * 24 + "01020304"),
        ("0:0:0:0:0:ffff:102:304", "0" * 20 + "ffff01020304"), ("1:2:3:4:5:6:7::", "0001000200030004000500060007" + "0000"),
        ("::2:3:4:5:6:7:8", "0000" + "0002000300040005000600070008"), ("1:2:3:4:5:6:77.88.99.100", "000100020003000400050006" + "4d586364"),
        ("0.0.0.0", "00000000"), ("255.255.255.255", "ffffffff"), ("192.0.2.1", "c0000201"), ("10.0.0.1", "0a000001"),
    ]
    for t, e in fixed:
        out.append((t, "valid:fixed", e))
    for _ in range(n_valid):
        if rng.random() < 0.18:
            o = _rand_octets(rng)
            out.append((_quad(o), "valid:v4", "".join("%02x" % x for x in o)))
        else:
            g = _rand_groups(rng)
            t, tag = spell_v6(rng, g)
            out.append((t, "valid:" + tag, addr_hex_v6(g)))
    for _ in range(n_invalid_rounds):
        for t, tag in invalid_spellings(rng):
            out.append((t, tag, None))
    return out


# --------------------------------------------------------------------------------------------------------
# the tie on generated spellings

def _probe_op(s):
    return {"op": "ident", "type": "ip", "value": s, "challenge": "http-01"}


def _verdict(ctx, s, tag, expected, i, m, jv):
    """One spelling: i = probe answer, m = ip_canon answer, jv = c01_ip_judge answer (None when the
    code produced no value).  Returns True when everything agrees."""
    robj = {"kind": "iptext", "value": s, "tag": tag, "impl": i, "model": m}
    if not isinstance(i, dict) or "panic" in i or i.get("died"):
        ctx.violation("Identifier::new(ip, %r) crashed: %s" % (s, i), robj)
        return False
    impl_ok = "ok" in i
    value = i["ok"]["value"] if impl_ok else None
    good = True
    # generator <-> model (third opinion: which address was spelled)
    if (expected is not None) != bool(m.get("ok")) or (m.get("ok") and m.get("octets_hex") != expected):
        ctx.broke("correspondence", "generator and Model.IpText disagree on %r (%s): generator %s, model %s"
                  % (s, tag, expected, m), robj)
        good = False
    if impl_ok:
        ctx.count("iptext:accepted")
        if not m.get("ok"):
            ctx.disagreements += 1
            ctx.broke("correspondence", "Identifier::new accepts the IP text %r (value %r); Model.IpText (Rust's parser) "
                      "refuses it" % (s, value), robj)
            return False
        if not jv or not jv.get("holds"):
            why = []
            if jv and not jv.get("is_canon"):
                why.append("the canonical text of this address is %r" % jv.get("expected"))
            if jv and not jv.get("shape"):
                why.append("not in the RFC 5952 / dotted-quad shape")
            ctx.violation("IP identifier configured as %r is used as %r: %s" % (s, value, "; ".join(why) or jv), robj)
            return False
        if value != m.get("canon"):
            # cannot happen when the judge holds (judge_iff_canon); kept as a cross-check of the two ops
            ctx.disagreements += 1
            ctx.broke("correspondence", "canonical text of %r: code %r, model %r" % (s, value, m.get("canon")), robj)
            return False
    else:
        ctx.count("iptext:refused")
        if m.get("ok"):
            ctx.disagreements += 1
            if expected is not None:
                ctx.violation("the IP identifier %r (address %s) is refused by Identifier::new" % (s, expected), robj)
            else:
                ctx.broke("correspondence", "Identifier::new refuses %r; Model.IpText accepts it as %r"
                          % (s, m.get("canon")), robj)
            return False
    return good


def extend(ctx, probe=None, model=None):
    probe = probe or vlib.probe
    model = model or vlib.model
    quick = ctx.quick()
    items = gen_spellings(ctx.rng, 2600 if quick else 60000, 24 if quick else 400)
    impl = probe([_probe_op(s) for s, _, _ in items])                      # ONE probe batch
    ops = [{"op": "ip_canon", "text": s} for s, _, _ in items]
    jidx = {}
    for k, ((s, _, _), i) in enumerate(zip(items, impl)):
        if isinstance(i, dict) and "ok" in i:
            jidx[k] = len(ops)
            ops.append({"op": "c01_ip_judge", "configured": s, "sent": i["ok"]["value"]})
    outs = model(ops)                                                      # ONE model batch
    n_ok = 0
    for k, ((s, tag, expected), i) in enumerate(zip(items, impl)):
        m = outs[k]
        jv = outs[jidx[k]] if k in jidx else None
        canon = m.get("canon")
        ctx.case({"ip-text": s}, nontrivial=bool(m.get("ok")) and canon != s)
        kind = tag.split(":")[0] + ":" + tag.split(":")[1]
        ctx.count("iptext:" + kind)
        if m.get("ok"):
            ctx.count("iptext:family:" + m["family"])
            ctx.count("iptext:already-canonical" if canon == s else "iptext:respelled")
            if canon.startswith("::ffff:") and "." in canon:
                ctx.count("iptext:canon-mixed-mapped")
            elif "::" in canon:
                ctx.count("iptext:canon-compressed")
            if any(c.isupper() for c in s):
                ctx.count("iptext:input-upper-case")
            if "." in s and ":" in s:
                ctx.count("iptext:input-v4-tail")
        if _verdict(ctx, s, tag, expected, i, m, jv):
            n_ok += 1
            if m.get("ok") and canon != s and "v4tail" in tag:
                ctx.sample({"ip_configured": s, "sent": i["ok"]["value"], "judge": jv}, limit=3)
    ctx.count("iptext:agree", n_ok)
    ctx.traces += len(items)
    return len(items)


# --------------------------------------------------------------------------------------------------------
# the IP identifiers of the flow runs

def extend_flows(ctx, model, results):
    """results: what c01.run_cert returned (scenario `sc`, `order_ids` = identifiers of the newOrder
    payload the mock CA received, `csr` = vhelper's parse of the CSR received at finalize)."""
    cfg = []                       # (result index, identifier index, raw)
    for ri, r in enumerate(results):
        if not r.get("order_ids") or not isinstance(r.get("csr"), dict) or "err" in r["csr"]:
            continue
        for ii, ident in enumerate(r["sc"]["ids"]):
            if ident["type"] == "ip":
                cfg.append((ri, ii, ident["raw"]))
    if not cfg:
        return 0
    canon = model([{"op": "ip_canon", "text": raw} for _, _, raw in cfg])
    jobs, meta = [], []
    used = {}
    for (ri, ii, raw), c in zip(cfg, canon):
        r = results[ri]
        order = r["order_ids"]
        o = order[ii] if ii < len(order) and isinstance(order[ii], dict) else {}
        job = {"op": "c01_ip_judge", "configured": raw}
        if o.get("type") == "ip" and isinstance(o.get("value"), str):
            job["sent"] = o["value"]
        else:
            job["sent"] = ""        # no IP entry at the identifier's position: the text judge fails
        # the CSR entry that carries this address (pairing only; the verdict is the judge's)
        pool = used.setdefault(ri, list(r["csr"].get("ip_hex", [])))
        want = c.get("octets_hex")
        if want in pool:
            pool.remove(want)
            job["sent_octets_hex"] = want
        else:
            job["sent_octets_hex"] = pool[0] if pool else ""
        jobs.append(job)
        meta.append((ri, ii, raw, o))
    verdicts = model(jobs)
    for (ri, ii, raw, o), job, v in zip(meta, jobs, verdicts):
        sc = results[ri]["sc"]
        ctx.count("iptext:flow-identifiers")
        ctx.count("iptext:flow:" + ("respelled" if job.get("sent") != raw else "already-canonical"))
        if not v.get("holds"):
            what = []
            if not v.get("text_holds"):
                what.append("newOrder carries %r, the canonical text is %r" % (o.get("value"), v.get("expected")))
            if not v.get("octets_hold"):
                what.append("the CSR's iPAddress entries %s do not contain the configured address"
                            % results[ri]["csr"].get("ip_hex", []))
            ctx.violation("IP identifier configured as %r: %s" % (raw, "; ".join(what)),
                          {"sc": sc, "iptext_judge_in": job, "verdict": v})
    for ri, pool in used.items():
        if pool:
            ctx.violation("the CSR carries iPAddress entries %s that no configured identifier denotes" % pool,
                          {"sc": results[ri]["sc"], "csr_ip_hex": results[ri]["csr"].get("ip_hex", [])})
    return len(jobs)


# --------------------------------------------------------------------------------------------------------

def replay(obj):
    s = obj["value"]
    i = vlib.probe([_probe_op(s)])[0]
    m = vlib.model([{"op": "ip_canon", "text": s}])[0]
    print("impl", i)
    print("model", m)
    if not isinstance(i, dict) or "panic" in i or i.get("died"):
        return 1
    if "ok" not in i:
        return 1 if m.get("ok") else 0
    jv = vlib.model([{"op": "c01_ip_judge", "configured": s, "sent": i["ok"]["value"]}])[0]
    print("judge", jv)
    return 0 if jv.get("holds") else 1
