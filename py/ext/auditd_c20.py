"""C20 extension: a wider input space for the shipped-default-hooks check (py/props/c20.py).

A scenario of this module is a scenario of c20.py (`group`, `git`, `n`, `ident`, `level`, `more_idents`,
`tacd_host`, `default_hostport`) with `ext: true` and any of the following extra keys; `run_ext` is a superset
of c20.run_one and returns a LIST of results of the same shape (one per certificate), `observe` counts the new
dimensions and keeps the results that are judged (by the unchanged judge Spec.C20.holds).

  async          {"after_polls": k} | {"delay_s": x}: the CA answers the challenge POST at once and validates
                 later (mockca opts validate_after_polls / validate_delay_s)
  vantage        m: the validator looks m times (file reads / handshakes spread over ~(m-1)*0.35 s), all must succeed
  restart_after  [k, …]: the daemon is stopped after issuance k (at a moment where no hook runs: the CA holds the
                 next newOrder) and started again on the same directories
  stale          ["pid", "sock"]: a pid file naming a dead process / a socket file nobody listens on are there
                 before the first issuance
  git_opts       {"history": bool, "foreign": bool, "same_dirs": bool, "cert_directory": bool, "user": [name, email]}
  roots          "plain" | "trailing-slash" | "space" | "non-ascii" | "pid-eq-sock" | "short-sock"
  envspec        "both-set" | "host-set-port-default" | "host-default-port-set" | "override-cert" |
                 "override-ident" | "per-ident-port"
  certs          [{"name", "group", "git", "ident", "more_idents"}, …]: several certificates in ONE daemon
  count_only     the scenario is an observation (counted in the evidence), never a violation

The identifier texts are the CONFIGURED ones (mixed case, U-labels); every documented path / address is derived
from what the CA was asked to validate, which must be the lower-case A-label form (computed here with Python's
own codec, independently of the code under test).
"""
import hashlib
import os
import shutil
import subprocess
import sys
import tempfile
import threading
import time

import cfggen
import flow
import mockca
import tacdrun
import vlib
from ext import interrupt_c20, sched_c20

TOK_DIR = ".well-known/acme-challenge"
SUN_PATH_MAX = 107
GROUPS = ("http-01-echo", "tls-alpn-01-tacd-tcp", "tls-alpn-01-tacd-unix")
LONG_IDENT = "x" * 63 + "." + "y" * 10 + ".test"
INTERRUPT_JUDGED = GROUPS     # groups whose histories after an interrupted attempt are judged (interrupt_c20)


# ------------------------------------------------------------------------------------------ helpers
def expected_ascii(name):
    """The form a CA sees: lower case, A-labels (independent of acme_common::to_idna)."""
    out = []
    for label in name.split("."):
        if label.isascii():
            out.append(label.lower())
        else:
            out.append(label.encode("idna").decode())
    return ".".join(out)


def dead_pid():
    p = subprocess.Popen([sys.executable, "-c", "pass"], stdin=subprocess.DEVNULL)
    p.wait()
    return p.pid


def short_dir():
    """A fresh directory with a path short enough for a unix socket of an 89 character file name (sun_path
    holds 107 bytes): under BUILD when that is short enough, else under /tmp (removed by the caller)."""
    base = os.path.join(vlib.BUILD, "s")
    if len(os.fsencode(base)) + 2 <= 17:
        os.makedirs(base, exist_ok=True)
        for tag in "0123456789abcdefghijklmnopqrstuvwxyz":
            try:
                os.mkdir(os.path.join(base, tag))     # exclusive: scenarios run side by side
                return os.path.join(base, tag)
            except FileExistsError:
                pass
    return tempfile.mkdtemp(prefix="c", dir="/tmp")


class HoldCA(mockca.MockCA):
    """Mock CA that can hold the newOrder request opening issuance number `hold_at` (0-based): the daemon then
    waits for an answer, no hook is running, and it can be stopped there."""

    def __init__(self, *a, **kw):
        super().__init__(*a, **kw)
        self.hold_at = None
        self.reached = threading.Event()
        self.release = threading.Event()

    def conform(self, kind, method, path, jws, rec):
        if interrupt_c20.hold(self, kind, path):      # (an attempt interrupted after its challenge hooks)
            return self.problem(500, "serverInternal", "held")
        if kind == "newOrder" and self.hold_at is not None and len(self.orders) >= self.hold_at:
            self.reached.set()
            self.release.wait(600)
            return self.problem(500, "serverInternal", "held")
        return super().conform(kind, method, path, jws, rec)


def cert_views(sc):
    """The certificates of a scenario: [{"name", "group", "git", "ident", "more_idents"}]."""
    if sc.get("certs"):
        return [dict(c) for c in sc["certs"]]
    return [{"name": "crt", "group": sc["group"], "git": sc["git"], "ident": sc["ident"],
             "more_idents": sc.get("more_idents", [])}]


def root_names(style):
    if style == "space":
        return "w ww", "r un", "so ck"
    if style == "non-ascii":
        return "wwẃ-é", "rüñ", "söck"
    if style == "pid-eq-sock":
        return "www", "run", "run"
    return "www", "run", "sock"


# ------------------------------------------------------------------------------------------ generator
ASYNC_MODES = ({"after_polls": 1}, {"after_polls": 2}, {"after_polls": 3}, {"delay_s": None})


def pick_async(rng):
    m = dict(rng.choice(ASYNC_MODES))
    if "delay_s" in m:
        m["delay_s"] = round(rng.uniform(0.3, 1.5), 2)
    return m


def widen(ctx, plain):
    """`plain`: the scenarios of c20.scenarios.  About half of them get a CA that validates asynchronously from
    three vantage points (they then run through run_ext); the new dimensions are appended."""
    rng = ctx.rng
    quick = ctx.quick()
    for sc in plain:
        if rng.random() < 0.5:
            sc.update({"ext": True, "async": pick_async(rng), "vantage": 3})
    out = list(plain)
    state = {"i": max([s["idx"] for s in plain] + [-1]) + 1}

    def add(**kw):
        sc = {"idx": state["i"], "ext": True, "group": "http-01-echo", "git": False, "n": 2, "ident": "example.org",
              "level": rng.choice(["global", "certificate", "identifier"]), "default_hostport": False}
        sc.update(kw)
        if sc.get("envspec", "").startswith("override-"):
            sc["level"] = {"override-cert": "certificate", "override-ident": "identifier"}[sc["envspec"]]
        if "async" not in kw and rng.random() < 0.5:
            sc.update({"async": pick_async(rng), "vantage": 3})
        state["i"] += 1
        out.append(sc)
        return sc

    # (2) restart between issuances: account registered, certificate installed and due, `git init` on a
    # repository that has history and holds foreign untracked files
    for g in GROUPS:
        for git in ((True,) if quick else (True, False)):
            for stops in ([rng.choice([[1], [1, 2], [2]])] if quick else ([1], [1, 2], [2])):
                add(group=g, git=git, n=3, restart_after=stops, ident=rng.choice(["example.org", "a.b.example.net"]),
                    git_opts={"history": True, "foreign": True} if git else {})
    # state left by a crash, there before the first issuance: a pid file naming a dead process; a socket file
    # nobody listens on (bind fails with EADDRINUSE: observed, not judged — not left by the clean hooks)
    for g in GROUPS[1:]:
        add(group=g, stale=["pid"])
    add(group="tls-alpn-01-tacd-unix", stale=["sock"], n=1, count_only="stale-socket", **{"async": None})
    # (3) several certificates in one daemon
    three = [{"name": "c1", "group": "http-01-echo", "git": True, "ident": "a1.example.org"},
             {"name": "c2", "group": "http-01-echo", "git": True, "ident": "a2.example.org"},
             {"name": "c3", "group": "tls-alpn-01-tacd-unix", "git": True, "ident": "a3.example.org"}]
    # … all stored in ONE repository: concurrent `git add` / `git commit` contend for .git/index.lock and both
    # hooks are allow_failure.  The unchanged code loses commits here now and then (reported finding): observed
    for _ in range(1 if quick else 4):
        add(certs=three, git=True, ident="a1.example.org", level="global", count_only="one-repository-three-certificates")
    # … each with a `directory` (a repository) of its own
    add(certs=three, git=True, ident="a1.example.org", level="global", git_opts={"cert_directory": True})
    # … the three groups side by side without git (one pid / socket root for all)
    add(certs=[{"name": "c1", "group": "http-01-echo", "git": False, "ident": "a1.example.org"},
               {"name": "c2", "group": "tls-alpn-01-tacd-tcp", "git": False, "ident": "a2.example.org",
                "more_idents": ["b2.example.org"]},
               {"name": "c3", "group": "tls-alpn-01-tacd-unix", "git": False, "ident": "a3.example.org"}],
        ident="a1.example.org", level="global")
    # git: accounts and certificates in one directory; a per-certificate directory; commit identity configured
    add(group=rng.choice(GROUPS), git=True, git_opts={"same_dirs": True})
    add(group=rng.choice(GROUPS), git=True, git_opts={"cert_directory": True, "foreign": True})
    add(group=rng.choice(GROUPS), git=True, git_opts={"user": ["Jane Doe", "jane.doe@example.org"]},
        level=rng.choice(["global", "certificate"]))
    if not quick:
        add(group="http-01-echo", git=True, git_opts={"user": ["Jane Doe", "jane.doe@example.org"], "same_dirs": True,
                                                      "history": True}, level="global")
    # (4) combinations of the documented variables
    add(group="tls-alpn-01-tacd-tcp", envspec="host-set-port-default", default_hostport=True)   # port 5001: serialised
    add(group="tls-alpn-01-tacd-tcp", envspec="host-default-port-set", ident="localhost")
    for g in ([rng.choice(GROUPS)] if quick else GROUPS):
        add(group=g, envspec="override-cert", more_idents=["www.example.org"] if rng.random() < 0.5 else [])
    for g in ([rng.choice(GROUPS)] if quick else GROUPS):
        add(group=g, envspec="override-ident", more_idents=["www.example.org"] if rng.random() < 0.5 else [])
    add(group="tls-alpn-01-tacd-tcp", envspec="per-ident-port", more_idents=["www.example.org", "mail.example.org"])
    for style in ("trailing-slash", "space", "non-ascii"):
        for g in ([rng.choice(GROUPS)] if quick else GROUPS):
            add(group=g, roots=style)
    for g in (GROUPS[2:] if quick else GROUPS[1:]):
        add(group=g, roots="pid-eq-sock")      # the shape of the shipped defaults: both /run
    # (5) identifiers configured as U-labels / in mixed case
    for g in GROUPS:
        add(group=g, ident="Bücher.Example", more_idents=["MiXeD.example.ORG"])
    if not quick:
        for g in GROUPS:
            add(group=g, ident="пример.Test", git=True)
    # (6) the 79 character name in the unix group (socket root short enough for sun_path)
    add(group="tls-alpn-01-tacd-unix", ident=LONG_IDENT, roots="short-sock")
    # (7) the CA's connection schedule: several vantage points connected at once, handshakes out of accept order,
    # a silent probe kept open, finished connections kept open (ext/sched_c20.py)
    sched_c20.widen(ctx, add)
    # (8) an attempt interrupted between its challenge hooks and its clean hooks, the next one gets the same token
    interrupt_c20.widen(ctx, add, GROUPS, INTERRUPT_JUDGED)
    return out


# ------------------------------------------------------------------------------------------ one scenario
def run_ext(sc, root, helper, tacd_dir):
    d = os.path.join(root, "s%d" % sc["idx"])
    os.makedirs(d, exist_ok=True)
    cleanup = []
    try:
        return _run_ext(sc, d, helper, tacd_dir, cleanup)
    finally:
        for p in cleanup:
            shutil.rmtree(p, ignore_errors=True)
        try:
            os.rmdir(os.path.join(vlib.BUILD, "s"))
        except OSError:
            pass


def _run_ext(sc, d, helper, tacd_dir, cleanup):
    certs = cert_views(sc)
    style = sc.get("roots", "plain")
    envspec = sc.get("envspec") or ("default" if sc.get("default_hostport") else "both-set")
    gopts = sc.get("git_opts") or {}
    slash = "/" if style == "trailing-slash" else ""
    wn, rn, sn = root_names(style)
    http_root = os.path.join(d, wn) + slash
    pid_root = os.path.join(d, rn) + slash
    sock_root = os.path.join(d, sn) + slash
    all_ascii = [expected_ascii(x) for c in certs for x in [c["ident"]] + list(c.get("more_idents", []))]
    longest = max(len(os.fsencode("tacd_%s.sock" % a)) for a in all_ascii)
    if any(c["group"] == "tls-alpn-01-tacd-unix" for c in certs) and \
            (style == "short-sock" or len(os.fsencode(sock_root)) + 1 + longest > SUN_PATH_MAX):
        # the place of the check's scratch directory must not decide whether a socket can be bound
        base = short_dir()
        cleanup.append(base)
        sock_root = (os.path.join(base, sn) if style in ("space", "non-ascii") else base) + slash
        if style == "pid-eq-sock":
            pid_root = sock_root
    for p in (http_root, pid_root, sock_root):
        os.makedirs(p, exist_ok=True)
    decoy = {"HTTP_ROOT": os.path.join(d, "decoy-www"), "TACD_PID_ROOT": os.path.join(d, "decoy-run"),
             "TACD_SOCK_ROOT": os.path.join(d, "decoy-sock"), "TACD_HOST": "127.0.0.3",
             "TACD_PORT": str(tacdrun.free_port())}
    roots_env = {"HTTP_ROOT": http_root, "TACD_PID_ROOT": pid_root, "TACD_SOCK_ROOT": sock_root}

    # ---- configuration: environment tables at the three levels, effective environment per identifier
    genv = {}
    eff = {}        # A-label -> effective environment (identifier over certificate over global)
    owner = {}      # A-label -> (certificate name, configured text)
    cert_tbls = []
    log = os.path.join(d, "hooks.log")
    post_hooks = []
    info = {}
    for c in certs:
        chall = "http-01" if c["group"] == "http-01-echo" else "tls-alpn-01"
        names = [c["ident"]] + list(c.get("more_idents", []))
        base = dict(roots_env)
        per_ident = {x: {} for x in names}
        if c["group"] == "tls-alpn-01-tacd-tcp":
            if envspec in ("both-set", "override-cert", "override-ident"):
                base["TACD_HOST"] = sc.get("tacd_host", "127.0.0.1")
                base["TACD_PORT"] = str(tacdrun.free_port())
            elif envspec == "host-set-port-default":
                base["TACD_HOST"] = sc.get("tacd_host", "127.0.0.1")
            elif envspec == "host-default-port-set":
                base["TACD_PORT"] = str(tacdrun.free_port())
            elif envspec == "per-ident-port":
                base["TACD_HOST"] = sc.get("tacd_host", "127.0.0.1")
                for x in names:
                    per_ident[x]["TACD_PORT"] = str(tacdrun.free_port())
        cenv = {}
        level = sc["level"]
        if gopts.get("user"):
            # the storage hooks see the global and the certificate's / account's environment only
            gitenv = {"GIT_USERNAME": gopts["user"][0], "GIT_EMAIL": gopts["user"][1]}
            if level == "global":
                genv.update(gitenv)
            else:
                cenv.update(gitenv)
        if envspec == "override-cert":
            genv.update(decoy)
            cenv.update(base)
        elif envspec == "override-ident":
            genv.update(decoy)
            cenv.update(dict(decoy, TACD_PORT=str(tacdrun.free_port())))
            for x in names:
                per_ident[x].update(base)
        elif level == "global":
            genv.update(base)
        elif level == "certificate":
            cenv.update(base)
        else:
            for x in names:
                per_ident[x] = dict(base, **per_ident[x])
        idents = []
        for x in names:
            t = {"dns": x, "challenge": chall}
            if per_ident[x]:
                t["env"] = per_ident[x]
            idents.append(t)
        tbl = {"endpoint": "ep1", "account": "acc1", "identifiers": idents,
               "hooks": [c["group"]] + (["git"] if c["git"] else []) + ["rec-post-" + c["name"]],
               "key_type": "ecdsa_p256", "name": c["name"]}
        if cenv:
            tbl["env"] = cenv
        if gopts.get("cert_directory"):
            tbl["directory"] = os.path.join(d, "dir-" + c["name"])
        cert_tbls.append(tbl)
        info[c["name"]] = {"cert": c, "names": names, "chall": chall, "cenv": cenv, "per_ident": per_ident,
                           "tbl": tbl}
    for decoy_dir in (decoy["HTTP_ROOT"], decoy["TACD_PID_ROOT"], decoy["TACD_SOCK_ROOT"]):
        if envspec in ("override-cert", "override-ident"):
            os.makedirs(decoy_dir, exist_ok=True)

    def places(a, e, group):
        """The documented places for the identifier the CA validates (a), given its effective environment."""
        pl = {"chall_dir": "%s/%s/%s" % (e.get("HTTP_ROOT", "/var/www"), a, TOK_DIR),
              "pid_root": e.get("TACD_PID_ROOT", "/run"), "sock_root": e.get("TACD_SOCK_ROOT", "/run"),
              "pid": "%s/tacd_%s.pid" % (e.get("TACD_PID_ROOT", "/run"), a),
              "sock": "%s/tacd_%s.sock" % (e.get("TACD_SOCK_ROOT", "/run"), a)}
        if group == "tls-alpn-01-tacd-tcp":
            pl["listen"] = "%s:%s" % (e.get("TACD_HOST", a), e.get("TACD_PORT", "5001"))
        elif group == "tls-alpn-01-tacd-unix":
            pl["listen"] = "unix:" + pl["sock"]
        else:
            pl["listen"] = None
        return pl

    place = {}
    for name, inf in info.items():
        for x in inf["names"]:
            a = expected_ascii(x)
            e = dict(genv)
            e.update(inf["cenv"])
            e.update(inf["per_ident"][x])
            eff[a] = e
            owner[a] = (name, x)
            place[a] = places(a, e, inf["cert"]["group"])
    for name, inf in info.items():
        mine = [expected_ascii(x) for x in inf["names"]]
        ls, conn = [], []
        for a in mine:
            for p in (place[a]["chall_dir"], place[a]["pid_root"], place[a]["sock_root"]):
                if p not in ls:
                    ls.append(p)
            if place[a]["listen"] and place[a]["listen"] not in conn:
                conn.append(place[a]["listen"])
        args = [flow.HOOKREC, log, "rec-post-" + name, "0"]
        for p in ls:
            args += ["--ls", p]
        for p in conn:
            args += ["--connect", p]
        args += ["--", "type=post-operation", "cert=" + name, "is_success={{ is_success }}", "status={{ status }}"]
        post_hooks.append({"name": "rec-post-" + name, "type": ["post-operation"], "cmd": sys.executable,
                           "args": args})
        inf["ls"], inf["conn"], inf["mine"] = ls, conn, mine

    # ---- the validating CA
    validations = []
    vantage = max(1, int(sc.get("vantage", 1)))
    vlock = threading.Lock()

    def look_http(path, ka):
        o = {"proof_file_exists": False, "proof_file_content": "", "proof_file_world_readable": False,
             "validated": False}
        try:
            with open(path) as f:
                o["proof_file_content"] = f.read()
            o["proof_file_exists"] = True
            o["proof_file_world_readable"] = (os.stat(path).st_mode & 0o444) == 0o444
            o["validated"] = o["proof_file_content"].rstrip() == ka
        except OSError as e:
            o["error"] = str(e)
        return o

    def look_tls(at, a, digest, tries, tls12):
        o = {"responder_reachable": False, "validated": False, "first_try_ok": None}
        hs = None
        for n in range(tries):   # tacd daemonises and binds after its start hook returned
            hs = tacdrun.handshake(at, [tacdrun.ACME_ALPN], server_name=a, timeout=2.0, max_tls12=tls12)
            if n == 0:
                o["first_try_ok"] = bool(hs.get("ok"))
            if hs.get("ok"):
                break
            time.sleep(0.05)
        if hs and hs.get("ok") and hs.get("cert_pem") and hs.get("alpn") == tacdrun.ACME_ALPN:
            pc = helper.call({"op": "parse_cert", "pem": hs["cert_pem"]})
            exts = pc.get("acme_ext") or []
            good = (pc.get("dns") == [a] and len(exts) == 1 and exts[0]["critical"]
                    and exts[0]["value_hex"] == "0420" + digest)
            o["responder_reachable"] = o["validated"] = good
            o["cert"] = {k: pc.get(k) for k in ("dns", "acme_ext", "self_signed")}
        else:
            o["error"] = (hs or {}).get("error")
        return o

    def validator(ca, authz, ch, jwk):
        t_start = time.monotonic_ns()
        a = authz["identifier"]["value"]
        ka = mockca.key_authorization(ch["token"], jwk)
        obs = {"expected": ka, "proof_file_exists": False, "proof_file_content": "",
               "proof_file_world_readable": False, "responder_reachable": False, "validated": False}
        cert_name = None
        if a not in place:
            # a conforming CA refuses a name that is not a lower-case LDH / A-label name, and nothing was
            # configured for any other name
            obs["error"] = "the CA was asked to validate %r; configured: %r (as A-labels: %r)" % (
                a, [v[1] for v in owner.values()], sorted(owner))
        else:
            cert_name = owner[a][0]
            pl = place[a]
            looks = []
            if ch["type"] == "http-01":
                for v in range(vantage):
                    if v:
                        time.sleep(0.35)
                    looks.append(look_http("%s/%s" % (pl["chall_dir"], ch["token"]), ka))
            else:
                digest = hashlib.sha256(ka.encode()).hexdigest()
                obs["expected"] = "0420" + digest
                for v in range(0 if sc.get("schedule") else vantage):
                    if v:
                        time.sleep(0.35)
                    # every other vantage point / CA speaks TLS 1.2 at most
                    looks.append(look_tls(pl["listen"], a, digest, 240 if v == 0 else 5, (sc["idx"] + v) % 2 == 1))
                if sc.get("schedule"):
                    # connections that are open at the same time (instead of one connect-handshake-close at a time)
                    looks = sched_c20.validate(pl["listen"], a, digest, sc["schedule"], helper,
                                               lambda v: (sc["idx"] + v) % 2 == 1)
                obs["first_try_ok"] = looks[0].get("first_try_ok")
            bad = [x for x in looks if not x["validated"]]
            shown = (bad or looks)[0 if bad else -1]
            obs.update({k: v for k, v in shown.items() if k != "first_try_ok"})
            obs["vantage_ok"] = [x["validated"] for x in looks]
        with vlock:
            validations.append({"challenge": obs, "t": t_start, "cert": cert_name, "ident": a})
        return {"ok": obs["validated"], "obs": {k: v for k, v in obs.items() if k != "cert"}}

    opts = {"valid_secs": 10 * 86400, "challenge_types": sorted({inf["chall"] for inf in info.values()})}
    asy = sc.get("async") or {}
    if asy.get("after_polls"):
        opts["validate_after_polls"] = int(asy["after_polls"])
    if asy.get("delay_s"):
        opts["validate_delay_s"] = float(asy["delay_s"])
    if sc.get("reuse_authz"):
        opts["reuse_pending_authz"] = True
    ca = HoldCA(helper, opts=opts, rules=interrupt_c20.rules(sc))
    interrupt_c20.arm(ca, sc)
    ca.validator = validator
    ca.start()

    # ---- directories, git state, stale files
    g = {"accounts_directory": os.path.join(d, "accounts"), "certificates_directory": os.path.join(d, "certs")}
    if gopts.get("same_dirs"):
        g["accounts_directory"] = g["certificates_directory"]
    if genv:
        g["env"] = genv
    any_git = any(c["git"] for c in certs)
    acct = {"name": "acc1", "contacts": [{"mailto": "a@example.org"}]}
    if any_git:
        acct["hooks"] = ["git"]
        if gopts.get("user") and sc["level"] != "global":
            acct["env"] = {"GIT_USERNAME": gopts["user"][0], "GIT_EMAIL": gopts["user"][1]}
    cfg = {"include": [os.path.join(vlib.REPO, "acmed", "config", "default_hooks.toml")], "global": g,
           "endpoint": [{"name": "ep1", "url": ca.base + "/directory", "tos_agreed": True}],
           "hook": post_hooks, "account": [acct], "certificate": cert_tbls}
    cfg_path = cfggen.write(os.path.join(d, "acmed.toml"), cfg)
    gitcfg = os.path.join(d, "gitconfig-empty")
    open(gitcfg, "w").close()
    denv = {"PATH": tacd_dir + os.pathsep + os.environ.get("PATH", ""), "GIT_CONFIG_GLOBAL": gitcfg,
            "GIT_CONFIG_SYSTEM": gitcfg}
    store_dirs = []
    for p in [g["accounts_directory"], g["certificates_directory"]] + [t["directory"] for t in cert_tbls if "directory" in t]:
        if p not in store_dirs:
            store_dirs.append(p)
    foreign = {p: set() for p in store_dirs}
    genv_git = dict(os.environ, GIT_CONFIG_GLOBAL=gitcfg, GIT_CONFIG_SYSTEM=gitcfg)

    def git(p, *a):
        return subprocess.run(["git", "-C", p] + list(a), capture_output=True, text=True, stdin=subprocess.DEVNULL,
                              env=genv_git)

    if any_git and gopts.get("history"):
        # a repository with history of its own (somebody else's commits, another branch checked out before)
        for p in store_dirs:
            os.makedirs(p, exist_ok=True)
            git(p, "init", ".")
            with open(os.path.join(p, "README"), "w") as f:
                f.write("kept by somebody else\n")
            git(p, "add", "README")
            git(p, "-c", "user.name=Somebody Else", "-c", "user.email=else@example.org", "commit", "-m", "initial import")
            foreign[p].add("README")
    if any_git and gopts.get("foreign"):
        for p in store_dirs:
            os.makedirs(p, exist_ok=True)
            for fn in ("notes.txt", "old key.bak"):
                with open(os.path.join(p, fn), "w") as f:
                    f.write("not acmed's\n")
                foreign[p].add(fn)
    stale = sc.get("stale") or []
    for a, pl in place.items():
        if "pid" in stale and info[owner[a][0]]["cert"]["group"] != "http-01-echo":
            with open(pl["pid"], "w") as f:
                f.write("%d\n" % dead_pid())
        if "sock" in stale and info[owner[a][0]]["cert"]["group"] == "tls-alpn-01-tacd-unix":
            import socket
            s = socket.socket(socket.AF_UNIX)
            s.bind(pl["sock"])
            s.close()     # the file stays: nobody listens

    # ---- the daemon, possibly in several lives
    n = sc["n"]
    stops = sorted(k for k in (sc.get("restart_after") or []) if 0 < k < n)
    stderr_tail, rcs = "", []

    resume, running, interrupt_note = interrupt_c20.first_life(sc, ca, cfg_path, denv, log)

    def done_count():
        recs = [r for r in flow.post_ops(log) if r["t"] >= resume()]
        per = {name: 0 for name in info}
        for r in recs:
            nm = flow.hook_args(r).get("cert")
            if nm in per:
                per[nm] += 1
        return min(per.values()) if per else 0

    for life, upto in enumerate(stops + [n]):
        ca.hold_at = upto * len(certs) if upto < n else None
        ca.reached.clear()
        ca.release.clear()
        dmn = (running if life == 0 else None) or flow.Daemon(cfg_path, env=denv, stderr_path=cfg_path + ".stderr%d" % life)
        flow.wait_progress(lambda: (done_count() >= upto and (upto == n or ca.reached.is_set())) or not dmn.alive(),
                           lambda: len(ca.log), idle=40 + 10 * n, cap=600)
        rcs.append(dmn.stop())
        ca.hold_at = None
        ca.release.set()
        stderr_tail += dmn.stderr()[-1500:]
    ca.stop()

    # ---- results, one per certificate
    all_posts = [r for r in flow.post_ops(log) if r["t"] >= resume()]
    validations[:] = [v for v in validations if v["t"] >= resume()]
    results = []
    counts = []
    for v in validations:
        ft = v["challenge"].get("first_try_ok")
        if ft is not None:
            counts.append("responder:first-try-" + ("ok" if ft else "late"))
    gitres = None
    if any_git:
        stored, glog, glog_all, lost = [], [], [], []
        want = gopts.get("user")
        for p in store_dirs:
            names = [x for x in (os.listdir(p) if os.path.isdir(p) else []) if x != ".git" and x not in foreign[p]]
            stored += [[p, x] for x in names]
            # (only a repository of its own: git would walk up to whatever repository holds the scratch directory)
            out = git(p, "log", "--format=%an%x1f%ae%x1f%s").stdout if os.path.isdir(os.path.join(p, ".git")) else ""
            rows = [l.split("\x1f") for l in out.split("\n") if l]
            glog_all.append([p, rows])
            # GIT_USERNAME / GIT_EMAIL configured: only a commit made in that name records the file "as configured"
            glog.append([p, [r[2] for r in rows if len(r) == 3 and (not want or [r[0], r[1]] == list(want))]])
            for r in rows:
                if len(r) == 3 and r[2] != "initial import":
                    counts.append("git-author:" + ("default" if (r[0], r[1]) == ("ACMEd", "acmed@localhost") else
                                                   "as-configured" if want and [r[0], r[1]] == list(want) else "other"))
            # every issuance writes a new private key and a new certificate (an issuance begun after the last
            # post-operation hook can only add commits): fewer commits than issuances = a commit was lost
            for x in names:
                have = sum(1 for r in rows if len(r) == 3 and r[2] == x)
                need = n if x.endswith((".pk.pem", ".crt.pem")) else 1
                lost.append([p, x, have, need]) if have < need else None
                counts.append("git-commits:" + ("one-per-write" if have >= need else
                                                "file-never-committed" if have == 0 else "renewed-content-not-committed"))
        gitres = {"stored": stored, "log": glog, "log_all": glog_all, "fewer_commits_than_writes": lost}
    for name, inf in info.items():
        c = inf["cert"]
        posts = [r for r in all_posts if flow.hook_args(r).get("cert") == name][:n]
        foreign_names = set()
        for a, (nm, _) in owner.items():
            if nm != name:
                foreign_names.update(["tacd_%s.pid" % a, "tacd_%s.sock" % a])
        issuances = []
        empty = {"challenge": {"expected": "", "proof_file_exists": False, "proof_file_content": "",
                               "proof_file_world_readable": False, "responder_reachable": False, "validated": False}}
        mine_v = sorted([v for v in validations if v["cert"] == name or (v["cert"] is None and len(info) == 1)],
                        key=lambda v: v["t"])
        for k, po in enumerate(posts):
            left = []
            ls = po.get("ls", {})
            for p in inf["ls"]:
                for fn in (ls.get(p) or []):
                    if fn in foreign_names:
                        continue   # another certificate of the same daemon is being validated right now
                    what = "proof file" if p.endswith(TOK_DIR) else "pid file" if fn.endswith(".pid") else \
                        "socket" if fn.endswith(".sock") else "file"
                    left.append("%s %s" % (what, fn))
            for at in inf["conn"]:
                if po.get("connect", {}).get(at):
                    left.append("responder still answering at " + at)
            t0 = posts[k - 1]["t"] if k else 0
            mine = [x for x in mine_v if t0 <= x["t"] < po["t"]]
            bad = [x for x in mine if not x["challenge"]["validated"]]
            obs = (bad or mine or [empty])[0 if bad else -1]
            if not bad and len(mine) < len(inf["names"]):
                obs = {"challenge": dict(obs["challenge"], validated=False,
                                         error="%d of %d identifiers were validated before the post-operation hook" % (
                                             len(mine), len(inf["names"])))}
            issuances.append({"challenge": {kk: vv for kk, vv in obs["challenge"].items()
                                            if kk not in ("cert", "error")},
                              "leftovers": left, "is_success": flow.hook_args(po).get("is_success"),
                              "status": flow.hook_args(po).get("status"),
                              "error": obs["challenge"].get("error")})
        view = dict(sc, group=c["group"], git=c["git"], ident=c["ident"])
        if sc.get("certs"):
            view["view"] = name
        res = {"sc": view, "rc": rcs[-1], "issuances": issuances, "stderr_tail": stderr_tail,
               "listen": [place[a]["listen"] for a in inf["mine"]], "n_done": len(posts), "counts": [],
               "lives": len(rcs)}
        if c["git"]:
            res["git"] = gitres
        results.append(res)
    results[0]["counts"] = counts
    if sc.get("interrupt"):
        results[0]["interrupt_note"] = interrupt_note
        interrupt_c20.reap(d)
    # kill any responder a failed run may have left behind (do not leak processes out of the check)
    for pr in {pl["pid_root"] for pl in place.values()} | {decoy["TACD_PID_ROOT"]}:
        for fn in (os.listdir(pr) if os.path.isdir(pr) else []):
            try:
                os.kill(int(open(os.path.join(pr, fn)).read().strip()), 15)
            except Exception:
                pass
    return results


# ------------------------------------------------------------------------------------------ evidence
def observe(ctx, results):
    """Flattens, counts the new dimensions, turns count-only scenarios into counted observations and returns
    the results the judge gets."""
    flat = []
    for r in results:
        flat += r if isinstance(r, list) else [r]
    judged = []
    for r in flat:
        sc = r["sc"]
        for key in r.get("counts", []):
            ctx.count(key)
        if not sc.get("ext"):
            for i in r["issuances"]:
                if i["challenge"].get("first_try_ok") is not None:
                    ctx.count("responder:first-try-" + ("ok" if i["challenge"]["first_try_ok"] else "late"))
            ctx.count("validation:inside-challenge-post")
            ctx.count("vantage-points:1")
            sched_c20.count(ctx, sc)
            judged.append(r)
            continue
        asy = sc.get("async") or {}
        ctx.count("validation:" + ("after-%d-polls" % asy["after_polls"] if asy.get("after_polls") else
                                    "delayed-thread" if asy.get("delay_s") else "inside-challenge-post"))
        ctx.count("vantage-points:%d" % sc.get("vantage", 1))
        sched_c20.count(ctx, sc)
        interrupt_c20.count(ctx, sc, r)
        for key in ("restart_after", "stale", "roots", "envspec"):
            if sc.get(key):
                ctx.count("%s:%s" % (key, sc[key] if isinstance(sc[key], str) else ",".join(str(x) for x in sc[key])))
        for key, val in (sc.get("git_opts") or {}).items():
            if val:
                ctx.count("git:" + key)
        if sc.get("certs"):
            ctx.count("certificates-in-one-daemon:%d" % len(sc["certs"]))
        for x in [sc["ident"]] + list(sc.get("more_idents", [])):
            if x != expected_ascii(x):
                ctx.count("identifier:" + ("mixed-case" if x.isascii() else "u-label"))
        if len(sc["ident"]) > 64:
            ctx.count("identifier:over-64-chars:" + sc["group"])
        if sc.get("count_only"):
            ok = r["n_done"] >= sc["n"] and all(i["challenge"]["validated"] and not i["leftovers"] for i in r["issuances"]) \
                and not (r.get("git") or {}).get("fewer_commits_than_writes")
            ctx.count("observed-only:%s:%s" % (sc["count_only"], "works" if ok else "fails"))
            ctx.case(sc)
            continue
        judged.append(r)
    return judged
