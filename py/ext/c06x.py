"""C06 extension: dimensions of the input space the base generator of props/c06.py does not reach.

(1) extra triples for the real `Certificate::schedule_renewal` (probe op `schedule`), judged by the SAME
    judge op `c06` (Spec.C06.holdsOutcome / freshOk):
      * certificate files that are CHAINS (end-entity first, then 1..2 other certificates whose notAfter and
        names differ; optionally a text line before the first block) — the judge is given the FIRST
        certificate's names and notAfter, which is what the file certifies;
      * certificates without any subjectAltName extension, wildcard <-> base-name crossings, one name replaced
        by another (same cardinality), duplicated configured identifiers, an extra IP name;
      * renew_delay / random_early_renew up to 2^64-1 s (beyond every lifetime);
      * file naming: cert_file_ext / pk_file_ext / file_name_format / key type / certificate name varied, and
        DECOYS: files present under the default naming (or another key type / another name) while the
        configured ones are absent — the judge is told what exists under the CONFIGURED names.
(2) black-box: the real daemon's loop (main_event_loop.rs renew_certificate) against the mock CA:
      * a freshly installed / freshly issued certificate that outlives renew_delay is NOT requested again
        while it is watched;
      * a short-lived certificate (valid V s, renew_delay D s, jitter R s) is requested again V-D-[0,R) s
        after its issuance: the observed gap is given to the judge op `c06` as the observed wait;
      * an unparsable certificate file next to a healthy certificate: the process lives, the healthy one is
        issued, nothing is requested for the broken one; (thorough) once the broken file is removed a
        request follows within the first back-off step;
      * a NEIGHBOUR: a second certificate of the same endpoint (same account, or an account of its own), installed
        with 90 days of life, waits for ITS date the whole time while the watched certificate has no file yet (its
        first request is judged: immediately), becomes due a few seconds later (short / installed-short), or loses
        its file while the daemon runs (`removed`: the file is taken away while a second post-operation hook holds
        the daemon, the evaluation that follows finds it missing).  A request for the neighbour is judged too.
      * the same kinds with renew_delay / random_early_renew set at [global] / endpoint / certificate level, or at
        several levels with different values (`place`, py/ext/c06place.py): the judge's delay / jitter is the most
        specific configured value.
"""
import concurrent.futures
import os
import shutil
import sys
import time

import cfggen
import flow
import mockca
import vlib
from ext import c06link, c06nb, c06place

NS = 10 ** 9
DAY = 86400
DEFAULT_FMT = "{{ name }}_{{ key_type }}.{{ file_type }}.{{ ext }}"
FORMATS = [None, None, "{{ name }}.{{ file_type }}.{{ ext }}", "{{ name }}_{{ key_type }}.{{ ext }}",
           "{{ key_type }}/{{ name }}-{{ file_type }}.{{ ext }}", "{{ ext }}.{{ file_type }}.{{ name }}"]
EXTS = [None, None, "pem", "crt", "key", "der.txt"]
KEY_TYPES = ["ecdsa-p256", "ecdsa-p256", "ecdsa-p384", "rsa2048"]
HUGE = [2 ** 31, 2 ** 32, 2 ** 32 + 1, 2 ** 53, 2 ** 63 - 1, 2 ** 63, 2 ** 64 - 1]
# (canonical text per RFC 5952 = what the judge is given and what goes into the certificate, a raw spelling)
IPS = [("192.0.2.7", "192.0.2.7"), ("2001:db8::1", "2001:0DB8:0:0:0:0:0:1"), ("::1", "0:0:0:0:0:0:0:1"),
       ("2001:db8::1:0:0:1", "2001:db8:0:0:1:0:0:1"), ("::ffff:192.0.2.1", "::FFFF:192.0.2.1"),
       ("2001:db8:0:1:1:1:1:1", "2001:db8:0:1:1:1:1:1"), ("10.0.0.1", "10.0.0.1")]
NAMES = ["a.example", "b.example.org", "*.example.org", "example.org", "www.a.example", "*.a.example",
         "xn--bcher-kva.example", "deep.sub.domain.example.net"]


def render_name(fmt, name, key_type, file_type, ext):
    out = fmt or DEFAULT_FMT
    for k, v in (("name", name), ("key_type", key_type), ("file_type", file_type), ("ext", ext)):
        out = out.replace("{{ %s }}" % k, v)
    return out


def paths_of(t, naming=None):
    n = naming or t["naming"]
    crt = render_name(n.get("name_format"), n["name"], n["key_type"], "crt", n.get("cert_file_ext") or "pem")
    key = render_name(n.get("name_format"), n["name"], n["key_type"], "pk", n.get("pk_file_ext") or "pem")
    return os.path.join(t["dir"], crt), os.path.join(t["dir"], key)


def gen_triple(rng, idx, root):
    k = rng.randint(1, 4)
    dns = rng.sample(NAMES, k)
    ips = rng.sample(IPS, rng.choice([0, 0, 1, 2]))
    ids = [{"type": "dns", "value": d, "challenge": "dns-01" if d.startswith("*") else "http-01", "norm": d} for d in dns]
    ids += [{"type": "ip", "value": raw if rng.random() < 0.5 else canon, "challenge": "http-01", "norm": canon}
            for canon, raw in ips]
    rng.shuffle(ids)
    cert_dns = [i["norm"] for i in ids if i["type"] == "dns"]
    cert_ips = [i["norm"] for i in ids if i["type"] == "ip"]
    shape = rng.choice(["exact", "exact", "exact", "no-san", "wild-cross", "replaced", "dup-ids", "extra-ip",
                        "dup-sans"])
    if shape == "no-san":
        cert_dns, cert_ips = [], []
    elif shape == "wild-cross":
        # the certificate names the base where the configuration names the wildcard, and the other way round
        swapped = []
        for d in cert_dns:
            swapped.append(d[2:] if d.startswith("*.") else "*." + d.split(".", 1)[1] if d.count(".") >= 2 else d)
        if swapped == cert_dns:
            shape = "exact"
        cert_dns = swapped + ["sub." + d[2:] for d in cert_dns if d.startswith("*.")]
    elif shape == "replaced":
        if cert_dns:
            cert_dns[rng.randrange(len(cert_dns))] = "extra.example"
        else:
            shape = "exact"
    elif shape == "dup-ids":
        ids.append(dict(rng.choice(ids)))
    elif shape == "extra-ip":
        cert_ips = cert_ips + ["198.51.100.9"]
    elif shape == "dup-sans" and cert_dns:
        cert_dns = cert_dns + [cert_dns[0]]
    # a wild-cross may by construction still cover everything (e.g. both forms configured): decide by text
    r = rng.random()
    delay = rng.choice(HUGE) if rng.random() < 0.2 else rng.choice([0, 1, 3600, 30 * DAY, 30 * DAY, 90 * DAY])
    rer = rng.choice(HUGE) if rng.random() < 0.15 else rng.choice([0, 0, 1, 3600, 2 * DAY])
    if r < 0.4:
        na = rng.randint(-5 * DAY, 400 * DAY)
    elif r < 0.6:
        na = min(delay, 2 ** 33) + rng.randint(-10, 10)
    elif r < 0.75:
        na = 2 ** 31 + rng.randint(-3, 3) * rng.choice([1, DAY])
    elif r < 0.85:
        na = 2 ** 32 + rng.randint(-3, 3)
    elif r < 0.95:
        na = rng.choice([24855, 24856, 36500, 50000]) * DAY + rng.randint(0, DAY - 1)
    else:
        na = 253402300799 - int(time.time()) - rng.choice([0, 1, 86400])      # 9999-12-31T23:59:59Z
    # chain: other certificates AFTER the end-entity certificate
    chain = []
    for _ in range(rng.choice([0, 0, 1, 1, 2])):
        chain.append({"dns": rng.sample(NAMES, rng.randint(0, 2)) + ["ca.invalid"], "ips": [],
                      "na": rng.choice([-400 * DAY, -3600, 60, 10 * DAY, 3650 * DAY, na + rng.choice([-DAY, DAY])])})
    naming = {"name": rng.choice(["crt", "crt", "my cert", "a.example"]), "key_type": rng.choice(KEY_TYPES),
              "name_format": rng.choice(FORMATS), "cert_file_ext": rng.choice(EXTS), "pk_file_ext": rng.choice(EXTS)}
    if naming["name_format"] == "{{ name }}_{{ key_type }}.{{ ext }}" and \
            (naming["cert_file_ext"] or "pem") == (naming["pk_file_ext"] or "pem"):
        naming["cert_file_ext"], naming["pk_file_ext"] = "crt", "key"      # the two files must differ
    if naming["name_format"] and naming["name_format"].startswith("{{ key_type }}/"):
        pass    # the sub-directory is created by prepare
    f = rng.random()
    present = "both"
    if f < 0.06:
        present = "no-key"
    elif f < 0.12:
        present = "no-cert"
    elif f < 0.15:
        present = "neither"
    elif f < 0.19:
        present = "empty-cert"
    elif f < 0.22:
        present = "cert-is-dir"
    decoy = None
    if present != "both" and rng.random() < 0.7:
        # what IS on disk: a complete valid pair under a naming the configuration does not select
        decoy = rng.choice(["default-naming", "other-key-type", "other-name", "other-ext"])
    d = os.path.join(root, "x%d" % idx)
    lead_text = rng.random() < 0.2
    # when the validity of the end-entity certificate (and of the certificates after it) BEGINS: py/ext/c06nb.py
    nb_class, nb = c06nb.pick(rng)
    for c in chain:
        c["nb"] = c06nb.pick(rng, 0.6)[1]
    return {"dir": d, "ids": ids, "delay_s": delay, "rer_s": rer, "cert_dns": cert_dns, "cert_ips": cert_ips,
            "not_after_offset": na, "present": present, "shape": shape, "chain": chain,
            "lead_text": lead_text, "naming": naming, "decoy": decoy, "not_before_offset": nb, "nb_class": nb_class,
            # the kind of directory entry at the two configured paths (py/ext/c06link.py)
            "entry": c06link.pick(idx + 2)}


def decoy_naming(t):
    n = dict(t["naming"])
    if t["decoy"] == "default-naming":
        n.update(name_format=None, cert_file_ext=None, pk_file_ext=None)
    elif t["decoy"] == "other-key-type":
        n["key_type"] = "ecdsa-p521" if n["key_type"] != "ecdsa-p521" else "rsa4096"
    elif t["decoy"] == "other-name":
        n["name"] = n["name"] + "2"
    elif t["decoy"] == "other-ext":
        n["cert_file_ext"] = (n.get("cert_file_ext") or "pem") + "x"
        n["pk_file_ext"] = (n.get("pk_file_ext") or "pem") + "x"
    return n


def prepare(helper, t):
    os.makedirs(t["dir"], exist_ok=True)
    # (the key type of the file NAME is a naming dimension; the certificate itself is always P-256)
    r = helper.call({"op": "selfsigned", "dns": t["cert_dns"], "ips": t["cert_ips"],
                     "not_after_offset": t["not_after_offset"],
                     "not_before_offset": c06nb.offset_for(t, min(-3600, t["not_after_offset"] - 3600))})
    if "err" in r:
        return r
    pem = r["cert_pem"]
    for c in t["chain"]:
        o = helper.call({"op": "selfsigned", "dns": c["dns"], "ips": c["ips"], "not_after_offset": c["na"],
                         "not_before_offset": c["nb"] if c.get("nb") is not None else min(-3600, c["na"] - 3600)})
        if "err" in o:
            return o
        pem += o["cert_pem"]
    if t["lead_text"]:
        pem = "subject=CN = verif\nissuer=CN = verif\n" + pem
    crt, key = paths_of(t)
    for p in (crt, key):
        os.makedirs(os.path.dirname(p), exist_ok=True)
    if t["present"] in ("both", "no-key"):
        with open(crt, "w") as f:
            f.write(pem)
    elif t["present"] == "empty-cert":
        open(crt, "w").close()
    elif t["present"] == "cert-is-dir":
        os.makedirs(crt, exist_ok=True)
    if t["present"] in ("both", "no-cert", "empty-cert", "cert-is-dir"):
        with open(key, "w") as f:
            f.write(r["key_pem"])
    if t["decoy"]:
        dc, dk = paths_of(t, decoy_naming(t))
        if dc not in (crt, key) and dk not in (crt, key):
            for p, text in ((dc, pem), (dk, r["key_pem"])):
                os.makedirs(os.path.dirname(p), exist_ok=True)
                with open(p, "w") as f:
                    f.write(text)
        else:
            t["decoy"] = None
    c06link.apply(t, crt, key)
    t["made_at"] = r["now_unix"]
    return r


def disk_of(t):
    """What exists under the CONFIGURED names (a directory is not a file)."""
    key_file = t["present"] in ("both", "no-cert", "empty-cert", "cert-is-dir")
    cert_file = t["present"] in ("both", "no-key", "empty-cert")
    return key_file, cert_file


def check_triples(ctx, triples, tag="x:"):
    ops = []
    for t in triples:
        n = t["naming"]
        op = {"op": "schedule", "dir": t["dir"], "name": n["name"], "key_type": n["key_type"],
              "ids": [{"type": i["type"], "value": i["value"], "challenge": i["challenge"]} for i in t["ids"]],
              "delay_s": t["delay_s"], "rer_s": t["rer_s"]}
        for k in ("name_format", "cert_file_ext", "pk_file_ext"):
            if n.get(k) is not None:
                op[k] = n[k]
        ops.append(op)
    impl = vlib.probe(ops)
    jin = []
    for t, i in zip(triples, impl):
        ok = isinstance(i, dict) and ("ok_ns" in i or "err" in i)
        now = i.get("now_unix", t.get("made_at", 0)) if ok else t.get("made_at", 0)
        key_file, cert_file = disk_of(t)
        cert = None
        if t["present"] in ("both", "no-key"):
            cert = {"sans": list(t["cert_dns"]) + list(t["cert_ips"]),
                    "not_after_in": t["not_after_offset"] - (now - t["made_at"])}
        obs = i.get("ok_ns") if ok and "ok_ns" in i else None
        key_file, cert_file, cert = c06link.disk(t, key_file, cert_file, cert)
        jin.append({"op": "c06", "disk": {"key_file": key_file, "cert_file": cert_file, "cert": cert},
                    "ids": [x["norm"] for x in t["ids"]], "delay_ns": str(t["delay_s"] * NS),
                    "rer_ns": str(t["rer_s"] * NS), "slack_ns": str(2 * NS), "observed_ns": obs})
    verdicts = vlib.model(jin)
    for t, i, j, v in zip(triples, impl, jin, verdicts):
        canon = {k: t[k] for k in ("ids", "delay_s", "rer_s", "cert_dns", "cert_ips", "not_after_offset", "present",
                                   "chain", "naming", "decoy", "lead_text")}
        if t.get("entry"):
            canon["entry"] = t["entry"]
        ctx.case(canon, nontrivial=t["present"] == "both")
        ctx.count(tag + "files:" + t["present"])
        c06link.count(ctx, tag, t, j["disk"]["key_file"], j["disk"]["cert_file"])
        ctx.count(tag + "sans:" + t["shape"])
        ctx.count(tag + "chain:%d" % (1 + len(t["chain"])))
        c06nb.count(ctx, tag, t, ":files=%s:sans=%s:chain=%d" % (t["present"], t["shape"], 1 + len(t["chain"])))
        ctx.count(tag + "decoy:%s" % t["decoy"])
        ctx.count(tag + "naming:%s" % ("default" if not any(t["naming"].get(k) for k in ("name_format", "cert_file_ext", "pk_file_ext")) else "custom"))
        if t["delay_s"] >= 2 ** 31 or t["rer_s"] >= 2 ** 31:
            ctx.count(tag + "huge-delay-or-jitter")
        robj = {"part": "x:triple", "triple": {k: v2 for k, v2 in t.items() if k != "dir"}, "impl": i, "judge_in": j,
                "verdict": v}
        if i is None or not isinstance(i, dict) or "panic" in i or i.get("died"):
            ctx.violation("schedule_renewal crashed (notAfter offset %d s, delay %d s, jitter %d s): %s" % (
                t["not_after_offset"], t["delay_s"], t["rer_s"], i), robj)
            continue
        if "bad_input" in i:
            ctx.count(tag + "bad-input")
            continue
        ctx.count(tag + ("outcome:error" if "err" in i else "outcome:now" if i.get("ok_ns") == "0" else "outcome:wait"))
        if not v.get("holds"):
            ctx.violation("schedule_renewal returned %s; the property allows [%s, %s] (files %s%s, names %s, chain of %d, "
                          "naming %s, notAfter in %d s, delay %d s, jitter %d s)" % (
                              i.get("ok_ns", i.get("err")), v.get("model_lo"), v.get("model_hi"), t["present"] + c06link.describe(t),
                              (" + decoy " + t["decoy"]) if t["decoy"] else "", t["shape"], 1 + len(t["chain"]),
                              t["naming"], t["not_after_offset"], t["delay_s"], t["rer_s"]), robj)
        elif not v.get("fresh_ok", True):
            ctx.violation("a fresh covering certificate is renewed at once", robj)
    ctx.traces += len(triples)
    for t, i in list(zip(triples, impl))[:1]:
        ctx.sample({"x-triple": {"ids": [x["value"] for x in t["ids"]], "cert_sans": t["cert_dns"] + t["cert_ips"],
                                 "chain": t["chain"], "naming": t["naming"], "files": t["present"], "decoy": t["decoy"],
                                 "delay_s": t["delay_s"], "rer_s": t["rer_s"]}, "impl": i})


def part_triples(ctx, helper, root):
    n = 350 if ctx.quick() else 8000
    good = []
    for i in range(n):
        t = gen_triple(ctx.rng, i, root)
        r = prepare(helper, t)
        if "err" in r:
            ctx.count("x:prep-failed")
            continue
        good.append(t)
    check_triples(ctx, good)


# ---------------------------------------------------------------------------------------------------------
# black-box: the daemon's loop

IDS = ["loop-a.example.org", "loop-b.example.org"]
NBR = "nbr.example.org"
HOLD_S = 1.5      # kind "removed": a second post-operation hook (a sleep) keeps the daemon from evaluating that long
# clock slack of the black-box part: 1 s ASN.1 resolution at each end + scheduling latency of a loaded machine
LOOP_SLACK_S = 4.0


def loop_scenarios(ctx):
    scs = [
        # installed before the start: covering, 90 days left, default renew_delay (30 days): no request at all
        {"kind": "installed-fresh", "watch_s": 6, "pair_secs": 90 * DAY, "valid_secs": 90 * DAY},
        # issued by the CA with 90 days: no second request while watched
        {"kind": "issued-fresh", "watch_s": 6, "valid_secs": 90 * DAY},
        # short-lived: the next request comes V - D - [0, R) seconds after the issuance
        {"kind": "short", "valid_secs": 13, "delay_s": 5, "rer_s": 0, "watch_s": 14},
        {"kind": "short", "valid_secs": 15, "delay_s": 4, "rer_s": 3, "watch_s": 17},
        # installed, due in W seconds: the FIRST request comes after the wait
        {"kind": "installed-short", "pair_secs": 11, "delay_s": 4, "rer_s": 0, "watch_s": 13, "valid_secs": 90 * DAY},
        {"kind": "broken-cert", "watch_s": 8, "valid_secs": 90 * DAY},
        # the same with a neighbour on the endpoint that waits 60 days for its own date
        {"kind": "short", "valid_secs": 13, "delay_s": 5, "rer_s": 0, "watch_s": 14, "neighbour": "same-account"},
        {"kind": "installed-short", "pair_secs": 11, "delay_s": 4, "rer_s": 0, "watch_s": 13, "valid_secs": 90 * DAY,
         "neighbour": "same-account"},
        {"kind": "short", "valid_secs": 15, "delay_s": 4, "rer_s": 3, "watch_s": 17, "neighbour": "other-account"},
        # the file of a fresh certificate removed while the daemon runs, before the evaluation that follows the issuance
        {"kind": "removed", "valid_secs": 90 * DAY, "watch_s": 10, "neighbour": "same-account"},
        # a CA whose clock runs AHEAD of the client's (or that does not back-date): the certificate just issued is not
        # valid yet for the local clock — it is not renewed again immediately; a short-lived one is renewed when due
        {"kind": "issued-fresh", "watch_s": 6, "valid_secs": 90 * DAY, "valid_from_offset": 3600},
        {"kind": "short", "valid_secs": 13, "delay_s": 5, "rer_s": 0, "watch_s": 14, "valid_from_offset": 600},
        # installed before the start, valid from the day after tomorrow on
        {"kind": "installed-fresh", "watch_s": 6, "pair_secs": 90 * DAY, "valid_secs": 90 * DAY, "pair_nb_offset": 2 * DAY},
        # the two paths are SYMBOLIC LINKS (py/ext/c06link.py): to the files of a fresh pair installed before the start
        # (no request at all); dangling at the start (= no file: requested at once, the issuance writes through the links,
        # what was issued is fresh: no second request while watched); to the files of a pair due in W seconds
        {"kind": "installed-fresh", "watch_s": 6, "pair_secs": 90 * DAY, "valid_secs": 90 * DAY, "entry": {"cert": "link-rel", "key": "link-abs"}},
        {"kind": "issued-fresh", "watch_s": 6, "valid_secs": 90 * DAY, "entry": {"cert": "dangling", "key": "dangling"}},
        {"kind": "installed-short", "pair_secs": 11, "delay_s": 4, "rer_s": 0, "watch_s": 13, "valid_secs": 90 * DAY,
         "entry": {"cert": "link-abs", "key": "link-rel"}},
    ]
    if not ctx.quick():
        scs += [{"kind": "short", "valid_secs": ctx.rng.randint(10, 30), "delay_s": ctx.rng.randint(1, 6),
                 "rer_s": ctx.rng.choice([0, 0, 2, 5]), "watch_s": 34} for _ in range(6)]
        scs += [{"kind": "installed-short", "pair_secs": ctx.rng.randint(8, 25), "delay_s": ctx.rng.randint(1, 5),
                 "rer_s": ctx.rng.choice([0, 3]), "watch_s": 30, "valid_secs": 90 * DAY} for _ in range(4)]
        scs += [{"kind": "broken-cert", "watch_s": 8, "valid_secs": 90 * DAY, "repair_after_s": 5}]
        scs += [{"kind": "short", "valid_secs": ctx.rng.randint(10, 30), "delay_s": ctx.rng.randint(1, 6),
                 "rer_s": ctx.rng.choice([0, 0, 2, 5]), "watch_s": 34, "neighbour": ctx.rng.choice(["same-account", "other-account"])}
                for _ in range(3)]
        scs += [{"kind": "installed-short", "pair_secs": ctx.rng.randint(8, 25), "delay_s": ctx.rng.randint(1, 5),
                 "rer_s": ctx.rng.choice([0, 3]), "watch_s": 30, "valid_secs": 90 * DAY,
                 "neighbour": ["other-account", "same-account"][i % 2]} for i in range(2)]
        scs += [{"kind": "removed", "valid_secs": 90 * DAY, "watch_s": 10, "neighbour": "other-account"},
                {"kind": "removed", "valid_secs": 90 * DAY, "watch_s": 10}]
        scs += [{"kind": "issued-fresh", "watch_s": 8, "valid_secs": 90 * DAY, "valid_from_offset": ctx.rng.choice([3, 20, 86400, 400 * DAY]),
                 "neighbour": ctx.rng.choice([None, "same-account"])} for _ in range(3)]
        scs += [{"kind": "short", "valid_secs": ctx.rng.randint(10, 30), "delay_s": ctx.rng.randint(1, 6), "rer_s": ctx.rng.choice([0, 2]),
                 "watch_s": 34, "valid_from_offset": ctx.rng.choice([2, 60, 3600])} for _ in range(3)]
        scs += [{"kind": "installed-short", "pair_secs": ctx.rng.randint(8, 25), "delay_s": ctx.rng.randint(1, 5), "rer_s": 0,
                 "watch_s": 30, "valid_secs": 90 * DAY, "pair_nb_offset": ctx.rng.choice([5, 3600])} for _ in range(2)]
    # the same kinds with the periods set at [global] / endpoint / certificate level, or at several levels with
    # different values (py/ext/c06place.py computes delay_s / rer_s: the most specific value)
    scs += c06place.loop_scenarios(ctx)
    for i, s in enumerate(scs):
        s["idx"] = i
    return scs


def run_loop(sc, root, helper):
    d = os.path.join(root, "loop%d" % sc["idx"])
    os.makedirs(os.path.join(d, "certs"), exist_ok=True)
    ca = mockca.MockCA(helper, opts={"valid_secs": sc["valid_secs"], "chain_len": 2, "valid_from_offset": sc.get("valid_from_offset")})
    ca.start()
    cert = {"name": "crt", "identifiers": [{"dns": n, "challenge": "http-01"} for n in IDS], "key_type": "ecdsa_p256"}
    if sc.get("place"):
        cert.update(c06place.settings_for(sc, "certificate"))
    elif "delay_s" in sc:
        cert["renew_delay"] = "%ds" % sc["delay_s"]
        cert["random_early_renew"] = "%ds" % sc["rer_s"]
    certs = [cert]
    crt, key = flow.cert_paths(d, "crt")
    t_install = None
    if "pair_secs" in sc:
        r = helper.call({"op": "selfsigned", "dns": IDS, "ips": [], "not_after_offset": sc["pair_secs"], "type": "ecdsa-p256",
                         "not_before_offset": sc.get("pair_nb_offset", -3600)})
        with open(crt, "w") as f:
            f.write(r["cert_pem"])
        with open(key, "w") as f:
            f.write(r["key_pem"])
        t_install = time.monotonic_ns()
    if sc["kind"] == "broken-cert":
        r = helper.call({"op": "selfsigned", "dns": IDS, "ips": [], "not_after_offset": 90 * DAY, "type": "ecdsa-p256"})
        with open(crt, "w") as f:
            f.write("-----BEGIN CERTIFICATE-----\nthis is not a certificate\n-----END CERTIFICATE-----\n")
        with open(key, "w") as f:
            f.write(r["key_pem"])
        certs.append({"name": "healthy", "identifiers": [{"dns": "healthy.example.org", "challenge": "http-01"}],
                      "key_type": "ecdsa_p256"})
    if sc.get("entry"):
        c06link.apply(sc, crt, key)
        if "pair_secs" in sc:
            t_install = time.monotonic_ns()
    accounts = None
    if sc.get("neighbour"):
        # a second certificate of the SAME endpoint, installed with 90 days of life (default renew_delay: its own
        # date is 60 days away); under the watched certificate's account or under one of its own
        r = helper.call({"op": "selfsigned", "dns": [NBR], "ips": [], "not_after_offset": 90 * DAY, "type": "ecdsa-p256"})
        ncrt, nkey = flow.cert_paths(d, "nbr")
        with open(ncrt, "w") as f:
            f.write(r["cert_pem"])
        with open(nkey, "w") as f:
            f.write(r["key_pem"])
        nb = {"name": "nbr", "identifiers": [{"dns": NBR, "challenge": "http-01"}], "key_type": "ecdsa_p256"}
        if sc["neighbour"] == "other-account":
            accounts = [{"name": "acc1", "contacts": [{"mailto": "a@example.org"}]},
                        {"name": "acc2", "contacts": [{"mailto": "b@example.org"}]}]
            nb["account"] = "acc2"
        certs.append(nb)
    cfg, log = flow.make_config(d, ca.base + "/directory", certs, accounts)
    if sc.get("place"):
        cfg["global"].update(c06place.settings_for(sc, "global"))
        cfg["endpoint"][0].update(c06place.settings_for(sc, "endpoint"))
    if sc["kind"] == "removed":
        # a second post-operation hook, run after the recorder's: the daemon cannot evaluate the certificate again
        # before it ends, the harness removes the file meanwhile
        cfg["hook"].append({"name": "hold-post-operation", "type": ["post-operation"], "cmd": sys.executable,
                            "args": ["-c", "import time; time.sleep(%s)" % HOLD_S]})
        cfg["certificate"][0]["hooks"] = ["rec-all", "hold-post-operation"]
    cfg_path = cfggen.write(os.path.join(d, "acmed.toml"), cfg)
    t_start = time.monotonic_ns()
    dmn = flow.Daemon(cfg_path)

    def orders(name):
        return [e for e in ca.log if e["kind"] == "req" and e["rk"] == "newOrder" and name in (e.get("payload") or "")]

    obs = {"sc": sc}
    try:
        if sc["kind"] in ("issued-fresh", "short", "removed"):
            ok = flow.wait_progress(lambda: len(flow.post_ops(log)) >= 1 or not dmn.alive(), lambda: len(ca.log), idle=40, cap=200)
            fin = [e for e in ca.log if e["kind"] == "req" and e["rk"] == "finalize"]
            obs["first_done"] = bool(ok and fin)
            # the watched certificate had no file when the daemon started: its first request (None: none came)
            o = orders(IDS[0])
            obs["first_gap_ns"] = (o[0]["t"] - t_start) if o else None
            obs["first_watched_ns"] = time.monotonic_ns() - t_start
        if sc["kind"] == "removed":
            if obs["first_done"]:
                rec = flow.post_ops(log)[0]
                try:
                    os.unlink(crt)
                except FileNotFoundError:
                    pass        # (missing already: that is what the evaluation is meant to find)
                t_rm = time.monotonic_ns()
                # the evaluation that follows cannot begin before the holding hook (started after the recorder ended) is over
                t_free = rec["t_end"] + int(HOLD_S * NS)
                obs["t_ref"] = t_free
                obs["removed_in_time"] = t_rm < t_free
                flow.wait_for(lambda: len(orders(IDS[0])) >= 2 or not dmn.alive(), sc["watch_s"], step=0.05)
                o = orders(IDS[0])
                obs["gap_ns"] = (o[1]["t"] - t_free) if len(o) >= 2 else None
        elif sc["kind"] in ("issued-fresh", "short"):
            t_ref = fin[-1]["t"] if fin else time.monotonic_ns()
            obs["t_ref"] = t_ref
            flow.wait_for(lambda: len(orders(IDS[0])) >= 2 or not dmn.alive(), sc["watch_s"], step=0.05)
            o = orders(IDS[0])
            obs["gap_ns"] = (o[1]["t"] - t_ref) if len(o) >= 2 else None
        elif sc["kind"] in ("installed-fresh", "installed-short"):
            obs["t_ref"] = t_install
            flow.wait_for(lambda: len(orders(IDS[0])) >= 1 or not dmn.alive(), sc["watch_s"], step=0.05)
            o = orders(IDS[0])
            obs["gap_ns"] = (o[0]["t"] - t_install) if o else None
        else:
            flow.wait_progress(lambda: any(flow.hook_args(p).get("is_success") == "true" for p in flow.post_ops(log))
                               or not dmn.alive(), lambda: len(ca.log), idle=40, cap=200)
            time.sleep(min(sc["watch_s"], 3))
            obs["healthy_issued"] = any(flow.hook_args(p).get("is_success") == "true" and "healthy" in flow.hook_args(p).get("certificate_path", "")
                                        for p in flow.post_ops(log))
            obs["broken_orders"] = len(orders(IDS[0]))
            if sc.get("repair_after_s"):
                os.unlink(crt)
                t_rm = time.monotonic_ns()
                flow.wait_for(lambda: len(orders(IDS[0])) >= 1 or not dmn.alive(), 75, step=0.1)
                o = orders(IDS[0])
                obs["after_repair_ns"] = (o[0]["t"] - t_rm) if o else None
        obs["watched_ns"] = time.monotonic_ns() - (obs.get("t_ref") or t_start)
        if sc.get("neighbour"):
            o = orders(NBR)
            obs["nbr_gap_ns"] = (o[0]["t"] - t_start) if o else None
    finally:
        obs["rc"] = dmn.stop()
        ca.stop()
        obs["stderr"] = dmn.stderr()[-600:]
    if sc.get("entry"):
        obs["entries_after"] = {"cert": c06link.state(crt), "key": c06link.state(key)}
    return obs


def judge_loop(ctx, obs):
    sc = obs["sc"]
    ctx.case({"loop": sc}, nontrivial=True)
    ctx.count("x:loop:" + sc["kind"])
    if sc.get("valid_from_offset") or sc.get("pair_nb_offset"):
        ctx.count("x:loop:notBefore-in-the-future:" + sc["kind"])
    if sc.get("entry"):
        ctx.count("x:loop:entry:%s:cert=%s,key=%s:afterwards:cert=%s,key=%s" % (
            sc["kind"], sc["entry"]["cert"], sc["entry"]["key"], obs.get("entries_after", {}).get("cert"), obs.get("entries_after", {}).get("key")))
    robj = {"part": "x:loop", "sc": sc, "obs": {k: v for k, v in obs.items() if k != "sc"}}
    if obs["rc"] is not None:
        ctx.violation("loop scenario %s: the daemon process ended (status %s): %s" % (sc["kind"], obs["rc"], obs["stderr"][-300:]), robj)
        return
    if sc["kind"] == "broken-cert":
        # Spec.C06.holdsOutcome: with both files present and an unparsable certificate the only justified
        # outcome is "no duration" (an error): no request is made for it; it must not stop the others
        if not obs.get("healthy_issued"):
            ctx.violation("a certificate whose file cannot be parsed kept the healthy certificate from being issued", robj)
        if obs.get("broken_orders") and not sc.get("repair_after_s"):
            ctx.violation("a request was made for a certificate whose stored file cannot be evaluated (no duration is justified)", robj)
        if sc.get("repair_after_s"):
            secs = vlib.model([{"op": "backoff", "retries": 0}])[0]["secs"]
            gap = obs.get("after_repair_ns")
            ctx.count("x:loop:repair-gap-s:%s" % (None if gap is None else gap // NS))
            if gap is None or gap > (secs + 6) * NS:
                ctx.violation("the certificate file was removed, but no request followed within the first back-off "
                              "step (%d s): %s" % (secs, gap), robj)
        ctx.traces += 1
        return
    if sc.get("neighbour") or sc["kind"] == "removed":
        if not judge_neighbourhood(ctx, sc, obs, robj):
            return
    if sc["kind"] in ("issued-fresh", "short", "removed") and not obs.get("first_done"):
        ctx.broke("harness", "loop scenario %s: the first issuance did not complete" % sc["kind"], robj)
        return
    if sc["kind"] == "removed":
        return judge_removed(ctx, sc, obs, robj)
    life = sc.get("pair_secs") if sc["kind"].startswith("installed") else sc["valid_secs"]
    delay = sc.get("delay_s", 30 * DAY)
    rer = sc.get("rer_s", 0)
    seen = obs["gap_ns"] is not None
    # the observed wait: the gap when a request was seen; otherwise the time watched (a lower bound)
    observed = obs["gap_ns"] if seen else obs["watched_ns"]
    j = {"op": "c06", "disk": {"key_file": True, "cert_file": True, "cert": {"sans": IDS, "not_after_in": life}},
         "ids": IDS, "delay_ns": str(delay * NS), "rer_ns": str(rer * NS), "slack_ns": str(int(LOOP_SLACK_S * NS)),
         "observed_ns": str(max(observed, 0))}
    v = vlib.model([j])[0]
    robj["judge_in"], robj["verdict"] = j, v
    ctx.count("x:loop:%s:%s" % (sc["kind"], "request-seen" if seen else "no-request"))
    due_ns = max(life - delay, 0) * NS
    if seen:
        if not v["holds"]:
            ctx.violation("%s: the next request came %.2f s after the certificate was %s; with %d s of life, renew_delay %d s "
                          "and jitter %d s the property allows [%s, %s] ns" % (
                              sc["kind"], observed / 1e9, "installed" if "pair_secs" in sc else "issued", life, delay, rer,
                              v.get("model_lo"), v.get("model_hi")), robj)
    else:
        if not v.get("fresh_ok", True):
            ctx.violation("%s: judged as an immediate renewal of a fresh certificate" % sc["kind"], robj)
        elif obs["watched_ns"] > due_ns + int(LOOP_SLACK_S * NS):
            ctx.violation("%s: no request %.2f s after the certificate was %s although it was due after %d s (never longer)"
                          % (sc["kind"], obs["watched_ns"] / 1e9, "installed" if "pair_secs" in sc else "issued",
                             max(life - delay, 0)), robj)
    ctx.traces += 1
    if sc["kind"] == "short":
        ctx.sample({"x-loop": sc, "gap_s": None if not seen else round(observed / 1e9, 2)})


def missing_file_judge(gap_ns, watched_ns, key_file=False):
    """Judge input for an evaluation that found the certificate file missing: the wait the daemon decided on must be 0.
    What is observable is the instant of the request: the wait is that gap less the clock slack of the black-box part
    (when no request came at all: the time watched, a lower bound)."""
    observed = max(gap_ns - int(LOOP_SLACK_S * NS), 0) if gap_ns is not None else watched_ns
    return {"op": "c06", "disk": {"key_file": key_file, "cert_file": False, "cert": None}, "ids": IDS, "delay_ns": "0",
            "rer_ns": "0", "slack_ns": str(int(LOOP_SLACK_S * NS)), "observed_ns": str(max(observed, 0))}


def judge_neighbourhood(ctx, sc, obs, robj):
    """Scenarios with a neighbour on the endpoint.  False: a violation was reported, nothing more to judge."""
    tag = "x:loop:nbr=%s:" % sc.get("neighbour")
    if sc.get("neighbour") and obs.get("nbr_gap_ns") is not None:
        # the neighbour itself: covering, 90 days of life, default renew_delay — not due while watched
        j = {"op": "c06", "disk": {"key_file": True, "cert_file": True, "cert": {"sans": [NBR], "not_after_in": 90 * DAY}},
             "ids": [NBR], "delay_ns": str(sc.get("nbr_delay_s", 30 * DAY) * NS), "rer_ns": str(sc.get("nbr_rer_s", 0) * NS),
             "slack_ns": str(int(LOOP_SLACK_S * NS)),
             "observed_ns": str(max(obs["nbr_gap_ns"], 0))}
        v = vlib.model([j])[0]
        if not (v["holds"] and v.get("fresh_ok", True)):
            ctx.violation("%s: the neighbouring certificate (90 days of life) was requested %.2f s after the start" % (
                sc["kind"], obs["nbr_gap_ns"] / 1e9), dict(robj, judge_in=j, verdict=v))
            return False
    if "first_gap_ns" in obs:
        # the watched certificate had no file at the start: requested at once, whatever its neighbour is waiting for
        j = missing_file_judge(obs["first_gap_ns"], obs["first_watched_ns"])
        v = vlib.model([j])[0]
        ctx.count(tag + "first-request:" + ("seen" if obs["first_gap_ns"] is not None else "none"))
        if not v["holds"]:
            ctx.violation("%s with a neighbour (%s) waiting for its own date on the same endpoint: the certificate has no file, "
                          "%s" % (sc["kind"], sc.get("neighbour"),
                                  ("its first request came %.2f s after the start" % (obs["first_gap_ns"] / 1e9))
                                  if obs["first_gap_ns"] is not None else
                                  ("no request at all in %.2f s" % (obs["first_watched_ns"] / 1e9))),
                          dict(robj, judge_in=j, verdict=v))
            return False
    return True


def judge_removed(ctx, sc, obs, robj):
    """The certificate file was removed while the holding hook kept the daemon from evaluating: the evaluation that
    follows finds the key but no certificate, a request follows at once.  A removal that came too late (after the
    hold) may have come after the evaluation as well: then that evaluation saw a fresh certificate (no request)."""
    seen = obs.get("gap_ns") is not None
    ctx.count("x:loop:removed:%s:%s" % ("in-time" if obs.get("removed_in_time") else "late", "request-seen" if seen else "no-request"))
    j = missing_file_judge(obs.get("gap_ns"), obs["watched_ns"], key_file=True)
    v = vlib.model([j])[0]
    robj["judge_in"], robj["verdict"] = j, v
    ctx.traces += 1
    if v["holds"]:
        return
    if not obs.get("removed_in_time") and not seen:
        ctx.count("x:loop:removed:undecided")      # the other reading: evaluated before the removal, fresh, no request
        return
    ctx.violation("removed: the certificate file was removed before the evaluation that follows the issuance; %s" % (
        ("the request came %.2f s after the daemon was free to evaluate" % (obs["gap_ns"] / 1e9)) if seen else
        ("no request in %.2f s" % (obs["watched_ns"] / 1e9))), robj)


def part_loop(ctx, helper, root):
    scs = loop_scenarios(ctx)
    with concurrent.futures.ThreadPoolExecutor(max_workers=24) as ex:
        results = list(ex.map(lambda s: run_loop(s, root, helper), scs))
    for obs in results:
        if obs["sc"].get("place"):
            ctx.count("x:loop:placed:%s:%s" % (obs["sc"]["kind"], c06place.describe(obs["sc"]["place"])))
        judge_loop(ctx, obs)


def extend(ctx, helper, root):
    part_triples(ctx, helper, os.path.join(root, "x"))
    part_loop(ctx, helper, os.path.join(root, "xloop"))


def replay(ctx, obj):
    vlib.build_acmed()
    vlib.build_helper()
    helper = mockca.Helper()
    root = os.path.join(vlib.BUILD, "scratch", "c06x-replay-%d" % os.getpid())
    shutil.rmtree(root, ignore_errors=True)
    n0 = len(ctx.violations)
    try:
        if obj.get("part") == "x:triple":
            t = dict(obj["triple"], dir=os.path.join(root, "t"))
            prepare(helper, t)
            check_triples(ctx, [t])
        else:
            judge_loop(ctx, run_loop(c06place.resolve(dict(obj["sc"], idx=0)), root, helper))
    finally:
        helper.close()
        shutil.rmtree(root, ignore_errors=True)
    for d, _ in ctx.violations[n0:]:
        print(d)
    return 1 if len(ctx.violations) > n0 else 0
