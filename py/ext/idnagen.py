"""Shared generator / tie / judge for DNS names through `acme_common::to_idna` (C01, C16, C06, C05).

What is compared, and with what:

* TABLES (exhaustive, `check_tables`): what the COMPILED look-up functions of `Model/Lower.lean` answer on
  every scalar value (driver op `lower_tables`) must be exactly what the compiled std answers on every scalar
  value (probe op `lower_tables`, probe/ops_lower.rs): per-character lower-casing, the skipped set and the
  cased set of the final-sigma rule, the Unicode version.  1 112 064 scalar values on both sides.
* STRINGS (`extend`): every generated label through the real `str::to_lowercase` (probe op `lower_str`) and
  `Model.Lower.lowerFull` (driver op `lower_str`); every generated name through the REAL `to_idna` (probe op
  `idna`) and the model (`Lower.toIdnaFull`, driver op `idna`).  Compared exactly; a difference is a broken
  correspondence.
* JUDGE (`judge_name`, independent of the model's lower-casing): the real output, label by label:
    - it is ASCII and holds no ASCII upper-case letter;
    - an all-ASCII input label gives its ASCII lower-casing (A-Z -> a-z, nothing else);
    - any other label gives "xn--" + P where P is THE RFC 3492 encoding (Python's own `punycode` codec, both
      directions) of a string L such that L is lower case — `L.lower() == L` by Python's Unicode data, or, where
      Python's (older) data does not know a character, L is the model's lower-casing (counted) — and L is the
      input label up to case (`casefold()` of both, Python's data);
    - the number and order of labels is kept; a refusal is right exactly for a label of more than 63 characters.
  Reading of "A-label" fixed here: "xn--" + punycode of the LOWER-CASED label.  No NFC / UTS-46 mapping is done
  by the code, none is asked for: counted as `boundary:*`, never an alarm:
    boundary:final-sigma   an input Σ that became ς (casefold makes ς and σ equal; UTS-46 would not keep ς either)
    boundary:dotted-I      U+0130 becomes i + U+0307 (two characters)
    boundary:nfd           the input is not NFC (the output keeps the decomposed spelling)
    boundary:ascii-after-lowering   a non-ASCII label whose lower-casing is ASCII (KELVIN SIGN): "xn--k-"; the
                           plain "k" is accepted by the JUDGE as well (the correspondence still pins the code)
    boundary:not-in-python-unicode  a character unassigned in Python's Unicode data: judged with the model's value
    boundary:long-alabel   the xn-- label is longer than 63 octets (the code checks the input label only)

Entry points:
  extend(ctx)                 C01: tables + strings + names + the sigma catalogue (20 named contexts, each checked against
                              what the Final_Sigma rule says for it: a third opinion on the generator)
  evaluate(ctx, items, ...)   [(name, tags)] through code + model + judge -> {name: the MODEL's A-label} for the names all three
                              agree on (a judged failure = ctx.violation, a difference = broken correspondence)
  pool(ctx, n, wildcard_ok)   n host-like IDN / mixed-case names with their A-label for flows (C01), tacd (C16), certificates
                              (C06), lookups (C05)
  is_replay / replay_file     a stored name again (./check Cxx --replay FILE)
"""
import re
import unicodedata

import vlib

SIGMA, SMALL_SIGMA, FINAL_SIGMA = "Σ", "σ", "ς"
DOTTED_I = "İ"
SHY, ZWNJ, ZWJ = "­", "‌", "‍"
IDEO_STOP = "。"
ACUTE, DIAER, CEDILLA, DOT_ABOVE, YPOGEG = "́", "̈", "̧", "̇", "ͅ"
APOS, RSQUO = "'", "’"


def _r(a, b):
    return [chr(c) for c in range(a, b + 1)]


# script -> (upper / title case letters, lower case letters)
SCRIPTS = {
    "latin": (_r(0x41, 0x5A) + list("ÀÉÎÕÜÞŁŒŠŸŽĲŊƏȘẞİ") + ["ǅ", "ǈ", "ǋ", "ǲ", "Ǆ", "Ǳ"],
              _r(0x61, 0x7A) + list("àéîõüþłœšÿžĳŋəșßıſ") + ["ǆ", "ǉ", "ǌ", "ǳ"]),
    "greek": (list("ΑΒΓΔΕΖΗΘΙΚΛΜΝΞΟΠΡΤΥΦΧΨΩΆΈΉΊΌΎΏΪΫ") + ["ᾈ", "ᾼ", "Ἀ", "ϴ", "Ϗ"],
              list("αβγδεζηθικλμνξοπρστυφχψωάέήίόύώϊϋΐΰ") + ["ᾀ", "ᾳ", "ϑ", "ϲ"]),
    "cyrillic": (_r(0x410, 0x42F) + _r(0x400, 0x40F) + ["Ѣ", "Ӏ", "Ґ", "Ꙁ", "Ᲊ"],
                 _r(0x430, 0x44F) + _r(0x450, 0x45F) + ["ѣ", "ӏ", "ґ", "ꙁ", "ᲊ"]),
    "armenian": (_r(0x531, 0x556), _r(0x561, 0x586) + ["և"]),
    "georgian": (_r(0x1C90, 0x1CBA) + _r(0x10A0, 0x10C5), _r(0x10D0, 0x10FA) + _r(0x2D00, 0x2D25)),
    "cherokee": (_r(0x13A0, 0x13F5), _r(0xAB70, 0xABBF) + _r(0x13F8, 0x13FD)),
    "deseret": (_r(0x10400, 0x10427), _r(0x10428, 0x1044F)),
    "adlam": (_r(0x1E900, 0x1E921), _r(0x1E922, 0x1E943)),
    "osage": (_r(0x104B0, 0x104D3), _r(0x104D8, 0x104FB)),
    "warang-citi": (_r(0x118A0, 0x118BF), _r(0x118C0, 0x118DF)),
    "old-hungarian": (_r(0x10C80, 0x10CB2), _r(0x10CC0, 0x10CF2)),
    "garay": (_r(0x10D50, 0x10D65), _r(0x10D70, 0x10D85)),
    "signs": (["K", "Å", "Ω"], ["k", "å", "ω"]),
    "fullwidth": (_r(0xFF21, 0xFF3A), _r(0xFF41, 0xFF5A) + _r(0xFF10, 0xFF19)),
    "enclosed": (_r(0x24B6, 0x24CF) + _r(0x2160, 0x216F), _r(0x24D0, 0x24E9) + _r(0x2170, 0x217F)),
}
CASELESS = {
    "cjk": list("例え日本語中文網站テスト한국어"),
    "arabic": list("مثالعربيةموقع"),
    "hebrew": list("דוגמהעבריתאתר"),
    "indic": list("उदाहरणไทย"),
}
MARKS = [ACUTE, DIAER, CEDILLA, DOT_ABOVE, YPOGEG, "̀", "͂"]
DIGITS = list("0123456789")
TLDS = ["org", "net", "example", "test", "ORG", "Example", "ελ", "рф", "ΕΛ", "РФ"]
ASCII_LABELS = ["example", "www", "a", "test-1", "x9", "sub", "Mixed", "UPPER", "ExAmPlE", "long-label-with-dashes-0123456789"]
CLASSIC = ["bücher", "Bücher", "BÜCHER", "münchen", "пример", "ПРИМЕР", "παράδειγμα", "ΠΑΡΆΔΕΙΓΜΑ", "例え", "café", "CAFÉ",
           "ÉCOLE", "Ünïcödé", "straße", "STRASSE", "STRAẞE", "İstanbul", "ISTANBUL", "ıstanbul", "ΣΑΣ", "ὈΔΥΣΣΕΎΣ",
           "Ⴀⴀ", "ᲐᲑᲒ", "ᎠᎡꭰ", "𐐀𐐨", "𞤀𞤢", "ＡＢＣ", "ǅemal", "ǄEMAL", "Kelvin", "Ångström"]


def _script_of(ch):
    for name, (up, lo) in SCRIPTS.items():
        if ch in up or ch in lo:
            return name
    for name, cs in CASELESS.items():
        if ch in cs:
            return name
    return None


class Tables:
    """The probe's tables (for drawing random characters of every table row over the runs)."""

    def __init__(self, t):
        self.changing = [chr(c) for c, _ in t["lower"]]
        self.multi = [chr(c) for c, out in t["lower"] if len(out) > 1]
        self.ign = t["ignorable"]
        self.cased = t["cased"]

    @staticmethod
    def _draw(rng, ranges):
        lo, hi = rng.choice(ranges)
        return chr(rng.randint(lo, hi))

    def ignorable(self, rng):
        while True:
            c = self._draw(rng, self.ign)
            if c != ".":
                return c

    def cased_char(self, rng):
        return self._draw(rng, self.cased)


# ---------------------------------------------------------------------------------------------------------
# labels

def _word(rng, script, n, case=None):
    up, lo = SCRIPTS[script]
    case = case or rng.choice(["lower", "upper", "mixed", "title"])
    out = []
    for k in range(n):
        if case == "lower":
            out.append(rng.choice(lo))
        elif case == "upper":
            out.append(rng.choice(up))
        elif case == "title":
            out.append(rng.choice(up) if k == 0 else rng.choice(lo))
        else:
            out.append(rng.choice(up) if rng.random() < 0.5 else rng.choice(lo))
    return "".join(out)


def _cased_letter(rng, tables=None):
    r = rng.random()
    if tables is not None and r < 0.2:
        return tables.cased_char(rng)
    s = rng.choice(["latin", "greek", "greek", "cyrillic", "armenian", "deseret"])
    return rng.choice(SCRIPTS[s][rng.randint(0, 1)])


def _ignorable(rng, tables=None):
    if tables is not None and rng.random() < 0.3:
        return tables.ignorable(rng)
    return rng.choice([APOS, RSQUO, SHY, ACUTE, DIAER, ZWJ, ZWNJ, YPOGEG, ":", "^", "`", "·", "ʰ", "ـ"])


SIGMA_CONTEXTS = ["final", "medial", "isolated", "initial", "after-apostrophe", "apostrophe-only", "before-mark-final",
                  "before-mark-medial", "after-soft-hyphen", "after-caseless", "after-digit", "double", "after-small-sigma",
                  "long-ascii-prefix", "after-zwj", "ignorable-run-both-sides", "before-ignorable-then-cased",
                  "after-cased-and-ignorable", "before-caseless", "table-neighbours"]


def sigma_label(rng, ctxname, tables=None, host=False):
    """A label with U+03A3 in the named context; (label, expected-final?) — the expectation is what the
    Unicode Final_Sigma rule says for the context (None where the random neighbours decide)."""
    c1, c2 = _cased_letter(rng, tables), _cased_letter(rng, tables)
    apos = RSQUO if host else rng.choice([APOS, RSQUO])
    if ctxname == "final":
        return _word(rng, "greek", rng.randint(1, 4)) + SIGMA, True
    if ctxname == "medial":
        return c1 + SIGMA + c2, False
    if ctxname == "isolated":
        return SIGMA, False
    if ctxname == "initial":
        return SIGMA + _word(rng, "greek", rng.randint(1, 4)), False
    if ctxname == "after-apostrophe":
        return c1 + apos + SIGMA, True
    if ctxname == "apostrophe-only":
        return apos + SIGMA, False
    if ctxname == "before-mark-final":
        return c1 + SIGMA + rng.choice(MARKS), True
    if ctxname == "before-mark-medial":
        return c1 + SIGMA + rng.choice(MARKS) + c2, False
    if ctxname == "after-soft-hyphen":
        return c1 + SHY + SIGMA, True
    if ctxname == "after-caseless":
        return rng.choice(CASELESS[rng.choice(list(CASELESS))]) + SIGMA, False
    if ctxname == "after-digit":
        return rng.choice(DIGITS) + SIGMA, False
    if ctxname == "double":
        return c1 + SIGMA + SIGMA, None
    if ctxname == "after-small-sigma":
        return rng.choice([SMALL_SIGMA, FINAL_SIGMA]) + SIGMA, True
    if ctxname == "long-ascii-prefix":
        return "".join(rng.choice("abcXYZ019-") for _ in range(rng.randint(14, 40))).strip("-") + "q" + SIGMA, True
    if ctxname == "after-zwj":
        return c1 + rng.choice([ZWJ, ZWNJ]) + SIGMA, True
    if ctxname == "ignorable-run-both-sides":
        ig = "".join(rng.choice([RSQUO, SHY, ACUTE, ZWJ]) for _ in range(rng.randint(1, 4)))
        ig2 = "".join(rng.choice([RSQUO, SHY, ACUTE, ZWNJ]) for _ in range(rng.randint(1, 4)))
        return c1 + ig + SIGMA + ig2, True
    if ctxname == "before-ignorable-then-cased":
        return c1 + SIGMA + rng.choice([RSQUO, SHY, ACUTE]) + c2, False
    if ctxname == "after-cased-and-ignorable":
        return rng.choice(["ʰ", "ͅ", "ᴬ"]) + SIGMA, False       # cased AND ignorable: skipped
    if ctxname == "before-caseless":
        return c1 + SIGMA + rng.choice(CASELESS["cjk"]), True
    # table-neighbours: whatever the tables hold on both sides
    if tables is None:
        return c1 + SIGMA, True
    pick = lambda: rng.choice([tables.ignorable(rng), tables.cased_char(rng), rng.choice(CASELESS["cjk"]), ""])  # noqa: E731
    return pick() + pick() + SIGMA + pick() + pick(), None


def gen_label(rng, tables=None, host=False):
    """(label, set of tags).  host=True: only what a host name in a certificate / SNI can carry after encoding
    (no ASCII punctuation but '-', never empty, at most 40 characters)."""
    r = rng.random()
    tags = set()
    if r < 0.14:
        lab = rng.choice(ASCII_LABELS)
        if rng.random() < 0.5:
            lab = "".join(c.upper() if rng.random() < 0.5 else c.lower() for c in lab)
        tags.add("kind:ascii")
    elif r < 0.24:
        lab = rng.choice(CLASSIC)
        tags.add("kind:classic")
    elif r < 0.44:
        c = rng.choice(SIGMA_CONTEXTS)
        lab, _ = sigma_label(rng, c, tables, host)
        tags.add("kind:sigma")
        tags.add("sigma-context:" + c)
    elif r < 0.70:
        s = rng.choice(list(SCRIPTS))
        lab = _word(rng, s, rng.randint(1, 9))
        if rng.random() < 0.3:
            k = rng.randint(0, len(lab))
            lab = lab[:k] + rng.choice(["-", "a", "Z", "7", "xn"]) + lab[k:]
            tags.add("mixed-ascii")
        tags.add("kind:script-word")
    elif r < 0.78:
        s = rng.choice(list(CASELESS))
        lab = "".join(rng.choice(CASELESS[s]) for _ in range(rng.randint(1, 6)))
        if rng.random() < 0.4:
            lab += rng.choice(["A", "b", "-X", "Σ", "Я"])
            tags.add("mixed-ascii")
        tags.add("kind:caseless")
    elif r < 0.86:
        # decomposed spellings: base letter + combining marks
        base = _word(rng, rng.choice(["latin", "greek", "cyrillic"]), rng.randint(1, 5))
        lab = "".join(ch + (rng.choice(MARKS) if rng.random() < 0.5 else "") for ch in base)
        if all(ord(c) < 128 for c in lab):
            lab += ACUTE
        tags.add("kind:combining")
    elif r < 0.91:
        w = _word(rng, rng.choice(["latin", "greek", "cyrillic"]), rng.randint(2, 6))
        k = rng.randint(1, len(w) - 1)
        lab = w[:k] + rng.choice([ZWJ, ZWNJ, SHY, IDEO_STOP, "．", "｡"]) + w[k:]
        tags.add("kind:format-or-dot-like")
    elif r < 0.95:
        pre = rng.choice(["XN--", "Xn--", "xN--", "xn--"])
        lab = pre + rng.choice(["BCHER-KVA", "Mxa8ab", "bcher-kva", "4XA", "é", "Σ", "", "-", "80AKHBYKNJ4F"])
        tags.add("kind:xn-prefix")
    elif tables is not None:
        n = rng.randint(1, 6)
        lab = "".join(rng.choice(tables.multi) if rng.random() < 0.15 else rng.choice(tables.changing) for _ in range(n))
        if rng.random() < 0.3:
            lab += rng.choice(tables.changing).lower()
        tags.add("kind:table-rows")
    else:
        lab = _word(rng, "latin", rng.randint(1, 8))
        tags.add("kind:script-word")
    if host:
        lab = "".join(c for c in lab if ord(c) >= 128 or c.isalnum() or c == "-").strip("-") or "h"
        lab = lab[:40]
    return lab, tags


def long_label(rng, n):
    """A label of exactly n characters (63 passes, 64 is refused; the code counts characters)."""
    r = rng.random()
    if r < 0.3:
        return "".join(rng.choice("abcXYZ09-") for _ in range(n - 1)) + "e"
    if r < 0.5:
        return rng.choice(["ü", "Ü", "Σ", "İ", "\U00010400", "例"]) * n
    s = rng.choice(["latin", "greek", "cyrillic", "adlam", "georgian"])
    return _word(rng, s, n)


def gen_name(rng, tables=None, kind="any", wildcard_ok=True):
    """(name, tags).  kind "any": everything `to_idna` may be handed (empty labels, dots at the ends, labels of 63 /
    64 characters, wildcards anywhere).  kind "host": 1..4 well-formed labels + a TLD, optional leading "*."."""
    tags = set()
    labs = []
    for _ in range(rng.randint(1, 3) if kind == "host" else rng.randint(1, 4)):
        lab, t = gen_label(rng, tables, host=(kind == "host"))
        labs.append(lab)
        tags |= t
    tld = rng.choice(TLDS[:6] if kind == "host" and rng.random() < 0.8 else TLDS)
    labs.append(tld)
    if kind == "any":
        r = rng.random()
        if r < 0.05:
            labs[rng.randrange(len(labs))] = ""
            tags.add("shape:empty-label")
        elif r < 0.08:
            labs.insert(0, "")
            tags.add("shape:leading-dot")
        elif r < 0.12:
            labs.append("")
            tags.add("shape:trailing-dot")
        elif r < 0.17:
            labs[rng.randrange(len(labs))] = long_label(rng, 63)
            tags.add("shape:label-63")
        elif r < 0.21:
            labs[rng.randrange(len(labs))] = long_label(rng, 64)
            tags.add("shape:label-64")
        elif r < 0.23:
            labs[rng.randrange(len(labs))] = "*"
            tags.add("shape:inner-wildcard")
    name = ".".join(labs)
    if wildcard_ok and rng.random() < (0.2 if kind == "any" else 0.15):
        name = "*." + name
        tags.add("shape:wildcard")
    return name, tags


FIXED = ["example.org", "*.example.org", "EXAMPLE.Org", "bücher.example", "xn--bcher-kva.example", "XN--BCHER-KVA.Example",
         "a." * 30 + "org", "x" * 63 + ".org", "x" * 64 + ".org", "ü" * 63 + ".org", "ü" * 64 + ".org", "", ".", "a..b",
         "K.example", "K.example", "ΣΑΣ.example", "σας.example", "ΑΣ.Σ.Σα.αΣ", "α.Σ", "Α'Σ.example", "Α’Σ.example",
         "İ.example", "i̇.example", "İ.example", "İ" * 63 + ".example", "ǅ.example", "ẞ.example",
         "É.example", "É.example", "é.example", "a。b.example", "a．b", "日本語.jp", "*.ΣΑΣ.gr",
         "ΟΔΥΣΣΕΥΣ.gr", "𐐀𐐁.example", "𞤀𞤁.example", "ᲐᲑ.ge", "Ꭰ.example", "ＡＢＣ.example", "aaaaaaaaaaaaaaaaaΣ.example",
         "Σ" * 63 + ".gr", "αΣ" + ACUTE * 61, "ΑΣ­.gr", "ΑΣ­Α.gr", "­Σ.gr", "ͅΣ", "ʰΣ"]


# ---------------------------------------------------------------------------------------------------------
# the judge (no use of the model except where Python's Unicode data is too old to say)

_UPPER_ASCII = {c: c + 32 for c in range(65, 91)}
HOST_RE = re.compile(r"(?=.{1,253}\Z)[a-z0-9]([a-z0-9-]{0,61}[a-z0-9])?(\.[a-z0-9]([a-z0-9-]{0,61}[a-z0-9])?)*\Z")


def ascii_lower(s):
    return s.translate(_UPPER_ASCII)


def _tags_of_label(lab):
    t = set()
    for ch in lab:
        s = _script_of(ch)
        if s and ord(ch) > 127:
            t.add("script:" + s)
    if any(ord(c) > 127 for c in lab):
        if any(unicodedata.combining(c) for c in lab) and unicodedata.normalize("NFC", lab) != lab:
            t.add("boundary:nfd")
        if DOTTED_I in lab:
            t.add("boundary:dotted-I")
        if any(unicodedata.category(c) == "Cn" for c in lab):
            t.add("boundary:not-in-python-unicode")
        if len(lab.lower()) != len(lab):
            t.add("multi-char-mapping")
    return t


def judge_label(lab, out, model_lower):
    """(problem or None, counters).  lab: input label; out: the label of the REAL output at the same position;
    model_lower: Model.Lower.lowerFull(lab) or None."""
    counts = set(_tags_of_label(lab))
    if any(ord(c) > 127 for c in out):
        return "the output label %r is not ASCII" % out, counts
    if any("A" <= c <= "Z" for c in out):
        return "the output label %r holds an upper-case letter" % out, counts
    if all(ord(c) < 128 for c in lab):
        counts.add("label:ascii")
        if out != ascii_lower(lab):
            return "the ASCII label %r must become %r, not %r" % (lab, ascii_lower(lab), out), counts
        return None, counts
    counts.add("label:non-ascii")
    if not out.startswith("xn--"):
        low = lab.lower()
        if all(ord(c) < 128 for c in low) and out == low:
            counts.add("boundary:ascii-after-lowering:plain")
            return None, counts
        return "the non-ASCII label %r must become an xn-- label, not %r" % (lab, out), counts
    p = out[4:]
    try:
        dec = p.encode("ascii").decode("punycode")
        back = dec.encode("punycode").decode("ascii")
    except Exception as e:            # not a punycode string at all
        return "%r is not RFC 3492 punycode (%s)" % (p, e), counts
    if back != p:
        return "%r decodes to %r whose RFC 3492 encoding is %r" % (p, dec, back), counts
    if len(out) > 63:
        counts.add("boundary:long-alabel")
    if all(ord(c) < 128 for c in dec):
        counts.add("boundary:ascii-after-lowering")
    unknown = "boundary:not-in-python-unicode" in counts
    if dec.lower() == dec and not unknown:
        counts.add("judge:lower-by-python")
    elif model_lower is not None and dec == model_lower and (unknown or dec.lower() == dec):
        counts.add("judge:lower-by-model")
    elif dec.lower() != dec:
        return "the label encoded in %r is %r, which is not lower case (lower case: %r)" % (out, dec, dec.lower()), counts
    else:
        return "the label encoded in %r is %r; with characters Python's Unicode data does not know, and not the model's %r" % (
            out, dec, model_lower), counts
    if SIGMA in lab and FINAL_SIGMA in dec and lab.count(FINAL_SIGMA) != dec.count(FINAL_SIGMA):
        counts.add("boundary:final-sigma")
    if dec.casefold() != lab.casefold():
        if unknown and dec == model_lower:
            counts.add("boundary:not-in-python-unicode:casefold-by-model")
        else:
            return "the label encoded in %r is %r, which is not the configured %r up to case" % (out, dec, lab), counts
    else:
        counts.add("judge:same-up-to-case")
    return None, counts


def judge_name(name, impl, model_lowers=None):
    """(problem or None, counters) for one name and the answer of the real to_idna."""
    labs = name.split(".")
    counts = set()
    if not isinstance(impl, dict) or "panic" in impl or impl.get("died") or ("ok" not in impl and "rejected" not in impl):
        return "to_idna crashed: %r" % (impl,), counts
    too_long = any(len(l) > 63 for l in labs)
    if "rejected" in impl:
        counts.add("refused:label-over-63" if too_long else "refused:other")
        return None, counts          # a refusal of a short name shows as a correspondence difference (idna_total)
    out = impl["ok"]
    if not isinstance(out, str):
        return "to_idna returned %r" % (out,), counts
    outs = out.split(".")
    if len(outs) != len(labs):
        return "%d labels in, %d labels out (%r)" % (len(labs), len(outs), out), counts
    for k, (lab, o) in enumerate(zip(labs, outs)):
        prob, c = judge_label(lab, o, model_lowers[k] if model_lowers else None)
        counts |= c
        if prob:
            return prob, counts
    return None, counts


def python_data_selfcheck():
    """casefold(lower(c)) == casefold(c) for every character of Python's data: what makes `casefold` a fair
    'same up to case' for the judge.  Returns the exceptions."""
    bad = []
    for u in range(0x110000):
        if 0xD800 <= u <= 0xDFFF:
            continue
        c = chr(u)
        if c.lower().casefold() != c.casefold():
            bad.append(u)
    return bad


# ---------------------------------------------------------------------------------------------------------
# ties

def check_tables(ctx, probe=None, model=None):
    """Exhaustive: the model's COMPILED look-ups on every scalar value vs the compiled std on every scalar value."""
    probe = probe or vlib.probe
    model = model or vlib.model
    p = probe([{"op": "lower_tables"}], timeout=900)[0]
    m = model([{"op": "lower_tables"}], timeout=900)[0]
    if not isinstance(p, dict) or "lower" not in p:
        ctx.broke("correspondence", "probe op lower_tables failed", {"impl": p})
        return None
    ctx.case({"lower_tables": p.get("unicode_version")})
    ctx.count("idnagen:tables:scalars-executed", p.get("scalars", 0))
    ctx.count("idnagen:tables:rows-lowerMap", len(p["lower"]))
    ctx.count("idnagen:tables:ranges-ignorable", len(p["ignorable"]))
    ctx.count("idnagen:tables:ranges-cased", len(p["cased"]))
    ctx.count("idnagen:tables:chars-ignorable", p.get("n_ignorable", 0))
    ctx.count("idnagen:tables:chars-cased", p.get("n_cased", 0))
    ctx.count("idnagen:tables:unicode-%s" % p.get("unicode_version"))
    if p.get("n_inconsistent"):
        ctx.broke("correspondence", "str::to_lowercase is not explained by one table and two sets: %r" % p.get("inconsistent"),
                  {"op": "lower_tables"})
    for k in ("lower", "ignorable", "cased", "unicode_version"):
        if m.get(k) != p.get(k):
            ctx.disagreements += 1
            a, b = m.get(k), p.get(k)
            first = next((x for x in (b if isinstance(b, list) else [b]) if not isinstance(a, list) or x not in a), None)
            ctx.broke("correspondence", "table `%s`: the compiled std and Model.Lower (Gen/Lower.lean) differ, e.g. %r" % (k, first),
                      {"op": "lower_tables", "table": k, "first_difference": first})
    return Tables(p)


def _idna_ops(names):
    return [{"op": "idna", "s": s} for s in names]


def py_alabel(name):
    """Python's own reading of a name (str.lower + the punycode codec), None where it has none."""
    out = []
    for lab in name.split("."):
        try:
            low = lab.lower()
            out.append(low if all(ord(c) < 128 for c in low) else "xn--" + low.encode("punycode").decode("ascii"))
        except (UnicodeError, ValueError):
            return None
    return ".".join(out)


def evaluate(ctx, items, probe=None, model=None, prefix="idnagen:", what="to_idna", impl=None, mod=None,
             refusal_violates=False):
    """items: [(name, tags)].  Real to_idna + model + judge on every name; returns {name: A-label or None}
    (the MODEL's value, None when refused) for the names on which code, model and judge agree.
    impl / mod: the answers of the probe / driver op `idna` for the names, when the caller already has them.
    refusal_violates: for properties that demand service for every domain name (C16): a name the CODE refuses although
    no label has more than 63 characters, the model and Python's punycode codec give the same A-label and that A-label
    is a well-formed host name (every label 1..63 LDH octets, 253 in all) is a judged failing input, not only a broken
    correspondence; its A-label is returned so that the caller can put the name before the real program."""
    probe = probe or vlib.probe
    model = model or vlib.model
    names = [n for n, _ in items]
    if impl is None:
        impl = probe(_idna_ops(names))                                       # ONE probe batch
    labels = sorted({l for n in names for l in n.split(".")})
    mouts = model(([] if mod is not None else _idna_ops(names)) + [{"op": "lower_str", "s": l} for l in labels])  # ONE model batch
    if mod is None:
        mod, mouts = mouts[:len(names)], mouts[len(names):]
    mlow = {l: o.get("lower") for l, o in zip(labels, mouts)}
    res = {}
    for (name, tags), i, m in zip(items, impl, mod):
        nontriv = any(ord(c) > 127 or c.isupper() for c in name)
        ctx.case({"idna": name}, nontrivial=nontriv)
        for t in tags:
            ctx.count(prefix + t)
        robj = {"kind": "idnagen", "op": "idna", "s": name, "impl": i, "model": m}
        prob, counts = judge_name(name, i, [mlow.get(l) for l in name.split(".")])
        for c in counts:
            ctx.count(prefix + c)
        ctx.count(prefix + ("ok" if isinstance(i, dict) and "ok" in i else "refused"))
        if prob:
            ctx.violation("%s(%r) = %r: %s" % (what, name, (i or {}).get("ok", i) if isinstance(i, dict) else i, prob), robj)
            continue
        if i != m:
            ctx.disagreements += 1
            a = m.get("ok") if isinstance(m, dict) else None
            if (refusal_violates and isinstance(i, dict) and "rejected" in i and isinstance(a, str) and HOST_RE.match(a)
                    and all(0 < len(l) <= 63 for l in name.split(".")) and a == py_alabel(name)):
                ctx.count(prefix + "refused:valid-name")
                ctx.violation("%s(%r) is refused (%s) although the name is a valid domain name: no label has more than 63 "
                              "characters and its A-label %r (model = Python's punycode codec) is a well-formed host name"
                              % (what, name, i.get("rejected"), a), robj)
                res[name] = a
                continue
            ctx.broke("correspondence", "%s(%r): the code gives %r, Model.Lower / Model.Idna gives %r" % (what, name, i, m), robj)
            continue
        res[name] = m.get("ok")
    ctx.traces += len(items)
    return res


def lower_correspondence(ctx, labels, probe=None, model=None):
    """str::to_lowercase itself (not through punycode) on the given strings."""
    probe = probe or vlib.probe
    model = model or vlib.model
    ops = [{"op": "lower_str", "s": s} for s in labels]
    a, b = probe(ops), model(ops)
    n = 0
    for s, x, y in zip(labels, a, b):
        ctx.case({"lower": s}, nontrivial=any(ord(c) > 127 for c in s))
        if x != y:
            ctx.disagreements += 1
            ctx.broke("correspondence", "str::to_lowercase(%r) = %r, Model.Lower.lowerFull gives %r" % (s, x, y),
                      {"kind": "idnagen", "op": "lower_str", "s": s, "impl": x, "model": y})
        else:
            n += 1
        if isinstance(x, dict) and SIGMA in s:
            low = x.get("lower", "")
            ctx.count("idnagen:lower_str:sigma->" + ("final" if FINAL_SIGMA in low and FINAL_SIGMA not in s else "small"))
    ctx.count("idnagen:lower_str:agree", n)
    ctx.traces += len(labels)


def sigma_catalogue(ctx, tables, probe=None, model=None):
    """Every named sigma context, several draws: code vs model vs what the Final_Sigma rule says for the context."""
    probe = probe or vlib.probe
    model = model or vlib.model
    rng = ctx.rng
    items = []
    for c in SIGMA_CONTEXTS:
        for _ in range(6 if ctx.quick() else 60):
            lab, exp = sigma_label(rng, c, tables)
            items.append((c, lab, exp))
    ops = [{"op": "lower_str", "s": lab} for _, lab, _ in items]
    a, b = probe(ops), model(ops)
    for (c, lab, exp), x, y in zip(items, a, b):
        ctx.case({"sigma": lab})
        got = (x or {}).get("lower", "")
        if x != y:
            ctx.disagreements += 1
            ctx.broke("correspondence", "str::to_lowercase(%r) = %r, Model.Lower.lowerFull gives %r (context %s)" % (lab, x, y, c),
                      {"kind": "idnagen", "op": "lower_str", "s": lab, "impl": x, "model": y})
            continue
        # the sigma under test is the LAST capital sigma of the label
        k = len(lab) - 1 - lab[::-1].index(SIGMA)
        # position in the output: characters before it may have become several
        pre = (probe([{"op": "lower_str", "s": lab[:k] + "x"}])[0] or {}).get("lower", "") if any(
            len(ch.lower()) != 1 for ch in lab[:k]) else None
        pos = (len(pre) - 1) if pre is not None else k
        is_final = got[pos:pos + 1] == FINAL_SIGMA
        ctx.count("idnagen:sigma:%s:%s" % (c, "final" if is_final else "small"))
        if exp is not None and is_final != exp:
            ctx.broke("generator", "context %s: the Final_Sigma rule makes Σ of %r %s, the compiled std says %r"
                      % (c, lab, "final" if exp else "small", got), {"kind": "idnagen", "op": "lower_str", "s": lab})
    ctx.traces += len(items)


def extend(ctx, probe=None, model=None, n=None):
    """The whole tie: tables (exhaustive), string lower-casing, to_idna on the generated names, the judge."""
    tables = check_tables(ctx, probe, model)
    rng = ctx.rng
    n = n or (1500 if ctx.quick() else 40000)
    items = [(s, {"kind:fixed"}) for s in FIXED] + [gen_name(rng, tables, "any") for _ in range(n)]
    res = evaluate(ctx, items, probe, model)
    labels = sorted({l for s, _ in items for l in s.split(".") if any(ord(c) > 127 for c in l)})
    lower_correspondence(ctx, labels + [s for s, _ in items[:len(FIXED)]], probe, model)
    sigma_catalogue(ctx, tables, probe, model)
    bad = python_data_selfcheck() if not ctx.quick() else []
    if bad:
        ctx.broke("judge", "Python's data: casefold(lower(c)) != casefold(c) for %s" % [hex(u) for u in bad[:10]], None)
    for s, _ in items:
        if s in res and res[s] and any(ord(c) > 127 for c in s) and SIGMA in s:
            ctx.sample({"to_idna": s, "result": res[s]}, limit=8)
            break
    return res


def pool(ctx, n, wildcard_ok=False, probe=None, model=None, tables=None, prefix="idnagen:pool:", hostname_out=True):
    """n host-like names (IDN / mixed case / sigma contexts ...) that went through the real to_idna, the model and
    the judge: [{"raw", "alabel", "tags"}] with the MODEL's A-label.  hostname_out: keep only names whose A-label
    is a well-formed host name (labels of 1..63 LDH octets), e.g. usable as SNI / in a certificate."""
    rng = ctx.rng
    items, seen = [], set()
    fixed = ["ΣΑΣ.example", "Bücher.Example", "ΟΔΥΣΣΕΥΣ.gr", "İstanbul.example", "ǅemal.example", "STRAẞE.example",
             "Kelvin.example", "Α’Σ.gr", "École.example", "ᲐᲑᲒ.example", "𐐀𐐁.example", "𞤀𞤁.example",
             "ＡＢＣ.example", "ΑΣ­.gr", "例えΣ.jp", "ΠΑΡΆΔΕΙΓΜΑ.ΔΟΚΙΜΉ"]
    for s in fixed:
        if len(items) < n:
            items.append((s, {"kind:fixed"}))
            seen.add(s)
    while len(items) < 3 * n + 8:
        s, t = gen_name(rng, tables, "host", wildcard_ok)
        if s not in seen:
            seen.add(s)
            items.append((s, t))
    res = evaluate(ctx, items, probe, model, prefix=prefix)
    out = []
    for s, t in items:
        a = res.get(s)
        if not a:
            continue
        if hostname_out and not HOST_RE.match(a[2:] if a.startswith("*.") else a):
            ctx.count(prefix + "dropped:alabel-not-a-hostname")
            continue
        out.append({"raw": s, "alabel": a, "tags": sorted(t)})
        if len(out) >= n:
            break
    return out


def is_replay(path):
    """Is the replay file one written for a name of this module (a judged failure or a correspondence difference)?"""
    import json
    try:
        with open(path) as f:
            r = json.load(f)
        obj = r.get("replay") or r.get("context") or r
        return isinstance(obj, dict) and obj.get("kind") == "idnagen"
    except (OSError, ValueError):
        return False


def replay_file(path):
    import json
    with open(path) as f:
        r = json.load(f)
    vlib.build_acmed()
    return replay(r.get("replay") or r.get("context") or r)


def replay(obj, probe=None, model=None):
    """One stored name again against the CURRENT code: 0 when code, model and judge agree, else 1."""
    probe = probe or vlib.probe
    model = model or vlib.model
    op = {"op": obj.get("op", "idna"), "s": obj["s"]}
    i = probe([op])[0]
    m = model([op])[0]
    print("impl", i, "model", m)
    if op["op"] == "idna":
        lows = [o.get("lower") for o in model([{"op": "lower_str", "s": l} for l in obj["s"].split(".")])]
        prob, _ = judge_name(obj["s"], i, lows)
        if prob:
            print("judge:", prob)
            return 1
    return 0 if i == m else 1
