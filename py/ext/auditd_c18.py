"""C18 — more dimensions for the TLS trust scenarios (called from py/props/c18.py).

Everything here runs the REAL daemon (hooked build) against a TLS mock CA and feeds what the server(s) saw
to the unchanged judge `c18_judge` (Spec.C18.holds / rootsHold).  New dimensions:

* late      the directory is served by a TRUSTED listener A; one kind of URL it hands out (directory entries,
            Location of the order, authorization / challenge / finalize / certificate URLs) or a 3xx redirect of
            one request kind points at a second listener B of the same CA whose chain is untrusted | for another
            host | expired | from a root that lies beside the listed root files but is not listed: B must never
            see a request.
* order     several files per source in both orders (through the real command line for --root-cert, also in the
            `--root-cert=FILE` spelling), the bad file BEFORE the good one, the bad file in ANOTHER source.
* shape     root file shapes (empty, a directory, a private key only: no certificate -> fail closed; DER, leading
            text, CRLF: observed and counted only) and `root_certificates = []` against an absent key.
* bundle    a root file with several CERTIFICATE blocks gives ONE root certificate, its first block (acmed.8:
            "--root-cert FILE  Add a root certificate to the trust store.  This option can be used multiple times";
            acmed.toml.5: "the path to root certificates"; CHANGELOG: "the path to root certificate files"): a server
            whose chain validates only through a later block must never see a request, one that validates through
            the first block is trusted; two- and three-block files, in each of the three sources.
* include   the [global] root list coming from / overridden by included files (manual: the last included file
            that defines a global option wins), the endpoint defined in an included file.
* swap      the server changes its chain from the k-th connection on, or after the first issuance.
* host      https://[::1], https://LOCALHOST, an IP held only as dNSName, a certificate not yet valid, a 3-level
            chain with the intermediate sent / omitted, a self-signed server certificate.

A spec is a JSON-able dict (labels, not paths): it is the replay object."""
import base64
import concurrent.futures
import itertools
import os
import shutil
import socket
import ssl
import threading
from http.server import BaseHTTPRequestHandler, ThreadingHTTPServer

import cfggen
import flow
import mockca
import vlib

SOURCES = ["cli", "endpoint", "global"]
# labels of root files: which ones are certainly a PEM certificate, certainly hold no certificate, or debatable
FILE_OK = {"needed", "unrelated", "unrelated2"}
FILE_BAD = {"missing", "garbage", "empty", "dir", "keyonly"}
FILE_DEBATABLE = {"der", "leadtext", "crlf"}
# files with several CERTIFICATE blocks: label -> the roots they hold, in order (A = the root of the chains `trusted`,
# X = the root of the chain `under-x`, U / U2 = roots no served chain leads to).  Such a file is a readable PEM
# certificate file; the root certificate it GIVES is its first block
BUNDLES = {"bundle_un": ["U", "A"], "bundle_nu": ["A", "U"], "bundle_uun": ["U", "U2", "A"], "bundle_unu": ["U", "A", "U2"],
           "bundle_nuu": ["A", "U", "U2"], "bundle_xn": ["X", "A"], "bundle_nx": ["A", "X"]}
URL_KINDS = ["newNonce", "newAccount", "newOrder", "order", "authz", "challenge", "finalize", "cert"]
REDIR_KINDS = ["directory", "newNonce", "newAccount", "newOrder", "order", "authz", "challenge", "finalize", "cert"]
# "ondisk": a chain for the right host name whose root certificate lies in the directory of the listed root files
# but is listed nowhere
B_CHAINS = ["untrusted", "wrong-host", "expired", "ondisk"]


# ------------------------------------------------------------------------------------------------
# the TLS mock CA with several listeners (shared state), a chain chosen per connection, foreign URLs

class _Srv(ThreadingHTTPServer):
    daemon_threads = True

    def __init__(self, addr, handler, ca, lst):
        self.address_family = socket.AF_INET6 if ":" in addr[0] else socket.AF_INET
        self.ca, self.lst, self.nconn = ca, lst, 0
        super().__init__(addr, handler)

    def server_bind(self):
        # no socket.getfqdn() (HTTPServer.server_bind): it may ask a resolver
        self.socket.setsockopt(socket.SOL_SOCKET, socket.SO_REUSEADDR, 1)
        self.socket.bind(self.server_address)
        self.server_address = self.socket.getsockname()
        self.server_name, self.server_port = "localhost", self.server_address[1]

    def get_request(self):
        sock, addr = self.socket.accept()
        ca, lst = self.ca, self.lst
        with ca.lock:
            n = self.nconn
            self.nconn += 1
        idx = ca.choose_chain(lst, n)
        label = lst["chains"][idx]["label"]
        try:
            sock.settimeout(10)
            s = lst["ctx"][idx].wrap_socket(sock, server_side=True)
            s.settimeout(None)
        except (OSError, ValueError):
            ca.ev(kind="conn", via=lst["name"], n=n, chain=label, idx=idx, ok=False)
            try:
                sock.close()
            except OSError:
                pass
            raise OSError("TLS handshake failed")
        ca.ev(kind="conn", via=lst["name"], n=n, chain=label, idx=idx, ok=True)
        s._verif = (lst["name"], label, n, idx)
        return s, addr

    def handle_error(self, request, client_address):
        pass


class TlsCA(mockca.MockCA):
    """listeners: [{"name": "A", "host": "localhost", "bind": "127.0.0.1", ["also_bind": [addr, …],] "chains": [{"cert", "key", "label"}, …]}, …]
    (one CA state, several TLS front doors; the first listener gives `base`).
    opts["url_base_for"] = {request kind: listener name}: URLs of that kind are handed out with that listener's base.
    opts["redirect_for"] = {request kind: [status, listener name]}: requests of that kind arriving at another
    listener are answered by a redirect to the same path on that listener.
    swap = {"listener": "A", "after_conn": k} (the k-th and later connections get chains[1]) or
           {"listener": "A", "after_kind": "cert"} (chains[1] once a request of that kind was answered 200)."""

    def __init__(self, helper, listeners, rules=None, opts=None, swap=None):
        super().__init__(helper, rules=rules, opts=opts, tls=None)
        self.listeners = listeners
        self.swap = swap
        self.swapped = False
        self.tl = threading.local()
        self.bases = {}
        self.srvs = []

    def start(self):
        ca = self

        class H(BaseHTTPRequestHandler):
            protocol_version = "HTTP/1.0"

            def log_message(self, *a):
                pass

            def do_GET(self):
                ca.handle(self, "GET")

            def do_HEAD(self):
                ca.handle(self, "HEAD")

            def do_POST(self):
                ca.handle(self, "POST")

        for lst in self.listeners:
            lst["ctx"] = []
            for ch in lst["chains"]:
                c = ssl.SSLContext(ssl.PROTOCOL_TLS_SERVER)
                c.load_cert_chain(ch["cert"], ch["key"])
                lst["ctx"].append(c)
            # "also_bind": the same front door on further addresses with the SAME port number
            binds = [lst.get("bind", "127.0.0.1")] + list(lst.get("also_bind") or [])
            for attempt in range(20):
                made = []
                try:
                    made.append(_Srv((binds[0], 0), H, self, lst))
                    for b in binds[1:]:
                        made.append(_Srv((b, made[0].server_address[1]), H, self, lst))
                    break
                except OSError:
                    for m in made:
                        m.server_close()
                    if attempt == 19:
                        raise
            lst["port"] = made[0].server_address[1]
            self.bases[lst["name"]] = "https://%s:%d" % (lst["host"], lst["port"])
            for srv in made:
                th = threading.Thread(target=srv.serve_forever, kwargs={"poll_interval": 0.05}, daemon=True)
                th.start()
                self.srvs.append(srv)
        self.port = self.listeners[0]["port"]
        self.base = self.bases[self.listeners[0]["name"]]
        return self.base

    def stop(self):
        for s in self.srvs:
            s.shutdown()
            s.server_close()
        self.srvs = []

    def choose_chain(self, lst, n):
        sw = self.swap
        if not sw or sw.get("listener", "A") != lst["name"] or len(lst["chains"]) < 2:
            return 0
        if "after_conn" in sw:
            return 1 if n + 1 >= sw["after_conn"] else 0
        return 1 if self.swapped else 0

    def handle(self, rq, method):
        self.tl.info = getattr(rq.connection, "_verif", None)
        super().handle(rq, method)

    def ev(self, **kw):
        if kw.get("kind") == "req":
            info = getattr(self.tl, "info", None)
            if info:
                kw["via"], kw["chain"], kw["conn"], kw["chain_idx"] = info
        return super().ev(**kw)

    def url(self, path):
        name = (self.o.get("url_base_for") or {}).get(self.kind_of("", path))
        return (self.bases[name] if name else self.base) + path

    def conform(self, kind, method, path, jws, rec):
        rd = (self.o.get("redirect_for") or {}).get(kind)
        if rd and rec.get("via") != rd[1]:
            # a redirect does not consume the nonce of the redirected POST (the same JWS arrives at the target)
            n = ((jws or {}).get("prot") or {}).get("nonce")
            with self.lock:
                if n is not None and n in self.used:
                    self.used.remove(n)
            return {"status": rd[0], "location": self.bases[rd[1]] + path, "body": "", "ctype": "text/plain"}
        return super().conform(kind, method, path, jws, rec)

    def send(self, rq, ans, rec, method):
        super().send(rq, ans, rec, method)
        sw = self.swap
        if sw and sw.get("after_kind") == rec.get("rk") and ans.get("status", 200) == 200:
            self.swapped = True


# ------------------------------------------------------------------------------------------------
# material

def make_material(helper, d, mat):
    """Adds chains and root file shapes to the material of c18.make_material (same directory)."""
    os.makedirs(d, exist_ok=True)

    def w(name, text, mode="w"):
        p = os.path.join(d, name)
        with open(p, mode) as f:
            f.write(text)
        return p

    def chain(tag, can_validate, host=None, send_intermediate=False, **kw):
        c = helper.call(dict({"op": "tls_chain"}, **kw))
        if "leaf_pem" not in c:
            raise RuntimeError("vhelper tls_chain failed: %r" % c)
        leaf = c["leaf_pem"] + (c["intermediate_pem"] if send_intermediate else "")
        m = {"cert": w(tag + ".crt", leaf), "key": w(tag + ".key", c["leaf_key_pem"]),
             "needed_root": w("root-" + tag + ".pem", c["root_pem"]), "can_validate": can_validate}
        if host:
            m["host"] = host
        return m

    mat["trusted-v6"] = chain("v6", True, host="[::1]", dns=[], ips=["::1"], root_cn="verif root V6")
    mat["v6-nosan"] = dict(mat["trusted"], host="[::1]", can_validate=False)
    mat["ip-as-dns"] = chain("ipdns", False, host="127.0.0.1", dns=["127.0.0.1"], ips=[], root_cn="verif root ID")
    mat["not-yet-valid"] = chain("nyv", False, dns=["localhost"], ips=["127.0.0.1"], root_cn="verif root NY",
                                 not_before_offset=86400, not_after_offset=30 * 86400)
    mat["inter-sent"] = chain("int1", True, send_intermediate=True, dns=["localhost"], ips=["127.0.0.1"],
                              root_cn="verif root I1", intermediate=True)
    mat["inter-omitted"] = chain("int0", False, send_intermediate=False, dns=["localhost"], ips=["127.0.0.1"],
                                 root_cn="verif root I0", intermediate=True)
    mat["ondisk"] = chain("ondisk", False, dns=["localhost"], ips=["127.0.0.1"], root_cn="verif root D")
    # a second private CA that is fine for the host name: trusted exactly where ITS root is given
    mat["under-x"] = chain("underx", True, dns=["localhost"], ips=["127.0.0.1"], root_cn="verif root X")
    ss = helper.call({"op": "selfsigned", "type": "ecdsa-p256", "dns": ["localhost"], "ips": ["127.0.0.1"],
                      "not_after_offset": 30 * 86400})
    if "cert_pem" not in ss:
        raise RuntimeError("vhelper selfsigned failed: %r" % ss)
    sp = w("self.crt", ss["cert_pem"])
    mat["selfsigned"] = {"cert": sp, "key": w("self.key", ss["key_pem"]), "needed_root": sp, "can_validate": False}
    u2 = helper.call({"op": "tls_chain", "dns": ["y"], "ips": [], "root_cn": "verif root U2"})
    with open(mat["trusted"]["needed_root"]) as f:
        root_txt = f.read()
    with open(mat["unrelated_root"]) as f:
        unrel_txt = f.read()
    with open(mat["trusted"]["key"]) as f:
        key_txt = f.read()
    body = "".join(l for l in root_txt.splitlines() if not l.startswith("-----"))
    os.makedirs(os.path.join(d, "shape-dir.pem"), exist_ok=True)
    mat["files"] = {
        "unrelated": mat["unrelated_root"], "unrelated2": w("rootU2.pem", u2["root_pem"]),
        "missing": mat["missing"], "garbage": mat["garbage"],
        "empty": w("shape-empty.pem", ""), "dir": os.path.join(d, "shape-dir.pem"),
        "keyonly": w("shape-keyonly.pem", key_txt),
        "der": w("shape-der.pem", base64.b64decode(body), "wb"),
        "leadtext": w("shape-leadtext.pem", "subject=CN = verif root A\nissuer=CN = verif root A\n\n" + root_txt),
        "crlf": w("shape-crlf.pem", root_txt.replace("\n", "\r\n").encode(), "wb"),
    }
    mat["blocks"] = {"A": mat["trusted"]["needed_root"], "U": mat["files"]["unrelated"], "U2": mat["files"]["unrelated2"],
                     "X": mat["under-x"]["needed_root"]}
    for label, blocks in BUNDLES.items():
        txt = ""
        for b in blocks:
            with open(mat["blocks"][b]) as f:
                txt += f.read()
        if txt.count("-----BEGIN CERTIFICATE-----") != len(blocks):
            raise RuntimeError("generator: %s does not hold %d certificates" % (label, len(blocks)))
        mat["files"][label] = w("shape-%s.pem" % label.replace("_", "-"), txt)
    return mat


def v6_available():
    try:
        with socket.socket(socket.AF_INET6) as s:
            s.bind(("::1", 0))
        return True
    except OSError:
        return False


def path_of(label, m, mat):
    if label == "needed":
        return m["needed_root"]
    if label.startswith("needed:"):
        return mat[label[7:]]["needed_root"]
    return mat["files"][label]


def gives_needed(label, m, mat):
    """Ground truth: is the root certificate this listed file gives the one the served chain needs?  A file with
    several blocks gives its FIRST one (the documentation speaks of a file as a root certificate)."""
    if label in BUNDLES:
        return mat["blocks"][BUNDLES[label][0]] == m["needed_root"]
    return label == "needed"


def needed_in_later_block(label, m, mat):
    return label in BUNDLES and m["needed_root"] in [mat["blocks"][b] for b in BUNDLES[label][1:]]


# ------------------------------------------------------------------------------------------------
# one scenario

def merged_global(spec):
    """The [global] root list after the include merge, as the manual words it ("the one of the last included
    file will be used") and config.rs read_cnf does it: an included Some replaces, an included None keeps."""
    inc = spec.get("include")
    if not inc:
        return spec.get("global")
    has_table = inc.get("main_has_global", True)
    cur = spec.get("global") if has_table else None
    for f in inc["incs"]:
        if not f.get("has_global"):
            continue
        if not has_table:
            has_table, cur = True, f.get("global_roots")
        elif f.get("global_roots") is not None:
            cur = f["global_roots"]
    return cur


def run_spec(spec, root, mat, helper):
    m = mat[spec["chain"]]
    d = os.path.join(root, "x-" + spec["id"])

    def paths(labels):
        return None if labels is None else [path_of(l, m, mat) for l in labels]

    cli, ep = spec.get("cli"), spec.get("endpoint")
    gl_eff = merged_global(spec)
    all_labels = [l for ls in (cli, ep, gl_eff) if ls for l in ls]
    debatable = any(l in FILE_DEBATABLE for l in all_labels) or bool(spec.get("count_only"))
    root_files_ok = not any(l in FILE_BAD for l in all_labels)
    has_needed = any(gives_needed(l, m, mat) for l in all_labels)
    chain_valid = bool(m["can_validate"] and has_needed)
    later_only = not has_needed and any(needed_in_later_block(l, m, mat) for l in all_labels)

    host = spec.get("host") or m.get("host", "localhost")
    chains = [{"cert": m["cert"], "key": m["key"], "label": spec["chain"]}]
    swap = None
    if spec.get("swap"):
        m2 = mat[spec["swap"]["to"]]
        chains.append({"cert": m2["cert"], "key": m2["key"], "label": spec["swap"]["to"]})
        swap = {k: v for k, v in spec["swap"].items() if k != "to"}
        swap["listener"] = "A"
    listeners = [{"name": "A", "host": host, "bind": "127.0.0.1", "chains": chains}]
    if host == "[::1]":
        # reachable as 127.0.0.1 / localhost on the same port too: only the spelling in the URL counts
        listeners[0].update({"bind": "::1", "also_bind": ["127.0.0.1"]})
    opts = dict(spec.get("ca_opts") or {})
    b = spec.get("b")
    if b:
        mb = mat[b["chain"]]
        listeners.append({"name": "B", "host": "localhost", "bind": "127.0.0.1",
                          "chains": [{"cert": mb["cert"], "key": mb["key"], "label": b["chain"]}]})
        if b["how"] == "url":
            opts["url_base_for"] = {k: "B" for k in b["kinds"]}
        else:
            opts["redirect_for"] = {k: [b["status"], "B"] for k in b["kinds"]}
    ca = TlsCA(helper, listeners, opts=opts, swap=swap)
    ca.start()
    cert = {"identifiers": [{"dns": "example.org", "challenge": "http-01"}]}
    cfg, log = flow.make_config(d, ca.base + "/directory", [cert])
    if ep is not None:
        cfg["endpoint"][0]["root_certificates"] = paths(ep)
    if spec.get("global") is not None:
        cfg["global"]["root_certificates"] = paths(spec["global"])
    inc = spec.get("include")
    if inc:
        names = []
        for i, f in enumerate(inc["incs"]):
            sub = {}
            if f.get("has_global"):
                sub["global"] = {}
                if not inc.get("main_has_global", True) and not names:
                    # the whole [global] table (directories) lives in the first included file
                    sub["global"] = dict(cfg["global"])
                    sub["global"].pop("root_certificates", None)
                if f.get("global_roots") is not None:
                    sub["global"]["root_certificates"] = paths(f["global_roots"])
            if f.get("endpoint"):
                sub["endpoint"] = cfg.pop("endpoint")
            name = "inc%d.toml" % i
            names.append(name)
            cfggen.write(os.path.join(d, name), sub)
        if not inc.get("main_has_global", True):
            cfg["global"] = None
        cfg["include"] = names
    cfg_path = cfggen.write(os.path.join(d, "acmed.toml"), cfg)
    extra = []
    for p in (paths(cli) or []):
        extra += ["--root-cert=" + p] if spec.get("cli_form") == "eq" else ["--root-cert", p]
    n_postop = spec.get("n_postop", 1)
    dmn = flow.Daemon(cfg_path, extra_args=extra)

    def life():
        try:
            return len(ca.log) + os.path.getsize(log)
        except OSError:
            return len(ca.log)
    flow.wait_progress(lambda: len(flow.post_ops(log)) >= n_postop or not dmn.alive(), life, idle=25 * n_postop, cap=300)
    rc = dmn.stop()
    ca.stop()
    evs = list(ca.log)
    reqs = [e for e in evs if e["kind"] == "req"]
    conns = [e for e in evs if e["kind"] == "conn"]
    posts = [flow.hook_args(p) for p in flow.post_ops(log)]
    succ = [p.get("is_success") == "true" for p in posts]
    sanity = None
    item = spec["item"]
    if item == "late":
        # what the second, untrusted front door saw
        seen = [r for r in reqs if r.get("via") == "B"]
        chain_truth = bool(chain_valid and mat[b["chain"]]["can_validate"])
        attempt_ok = any(succ)
        if not any(r.get("via") == "A" for r in reqs):
            sanity = "the trusted listener A saw no request: the scenario did not get as far as B"
        elif chain_truth and not seen:
            sanity = "control: B serves a trusted chain but saw no request (kinds %s)" % b["kinds"]
    elif item == "swap":
        # what arrived on connections made after the chain was swapped
        seen = [r for r in reqs if r.get("chain_idx") == 1]
        chain_truth = False
        if "after_kind" in spec["swap"]:
            attempt_ok = any(succ[1:])
            if not succ or not succ[0]:
                sanity = "swap after issuance: the first attempt did not succeed"
        else:
            attempt_ok = any(succ)
        if not sanity and not any(r.get("chain_idx") == 0 for r in reqs):
            sanity = "swap: no request before the swap"
        if not sanity and not any(c["idx"] == 1 for c in conns):
            sanity = "swap: no connection after the swap (nothing was exercised)"
    else:
        seen = reqs
        chain_truth = chain_valid
        attempt_ok = any(succ)
    if spec.get("expect_ok") and not (attempt_ok if item != "swap" else True):
        sanity = sanity or "a listed root was not used: chain valid, all files fine, yet the attempt failed"
    observed_roots = None
    if spec.get("dump_roots"):
        dump = vlib.probe([{"op": "config_load", "path": cfg_path, "root_certs": paths(cli) or [], "dump": True}])[0]
        if isinstance(dump, dict) and "loaded" in dump:
            observed_roots = dump["loaded"]["endpoints"][0]["root_certificates"]
    counts = ["auditd:%s" % item, "auditd:%s:%s" % (item, "requests" if seen else "no-request")]
    if any(l in BUNDLES for l in all_labels):
        counts.append("auditd:bundle:%s" % ("chain-valid-through-a-file-of-its-own-beside-the-bundle" if chain_valid and not any(
                                                l in BUNDLES and gives_needed(l, m, mat) for l in all_labels) else
                                            "chain-valid-through-the-first-block" if chain_valid else
                                            "chain-valid-only-through-a-later-block" if later_only and m["can_validate"] else
                                            "chain-valid-through-no-block"))
        for l in all_labels:
            if l in BUNDLES:
                counts.append("auditd:bundle:blocks=%d" % len(BUNDLES[l]))
        for src, ls in (("cli", cli), ("endpoint", ep), ("global", gl_eff)):
            if any(l in BUNDLES for l in ls or []):
                counts.append("auditd:bundle:source=%s" % src)
    if spec.get("count_as"):
        counts.append("%s:%s" % (spec["count_as"], "trusted" if (seen and attempt_ok) else "requests-but-failed" if seen else "refused"))
    for k in (b or {}).get("kinds", []):
        counts.append("auditd:late:%s:%s:%s" % (b["how"] + (str(b.get("status")) if b["how"] == "redirect" else ""), k, b["chain"]))
    if item == "swap":
        counts.append("auditd:swap:%s->%s" % (("conn%d" % spec["swap"]["after_conn"]) if "after_conn" in spec["swap"]
                                               else "after-" + spec["swap"]["after_kind"], spec["swap"]["to"]))
        counts.append("auditd:swap:connections-after-swap:%s" % ("some" if any(c["idx"] == 1 for c in conns) else "none"))
    return {"idx": spec["id"], "kind": "auditd:%s:%s" % (item, spec["chain"]), "combo": [cli, ep, spec.get("global")],
            "fstate": "ok" if root_files_ok else "bad", "auditd": spec, "judged": not debatable,
            "chain_valid": chain_truth, "root_files_ok": root_files_ok, "requests_seen": len(seen),
            "signed_requests_seen": sum(1 for r in seen if r["method"] == "POST"), "attempt_ok": attempt_ok,
            "completed": len(posts) >= n_postop, "rc": rc, "cli": paths(cli) or [], "endpoint": paths(ep),
            "global": paths(gl_eff), "observed_roots": observed_roots, "sanity": sanity, "counts": counts,
            "post_ops": succ, "requests_total": len(reqs),
            "connections": [[c["via"], c["n"], c["chain"], c["ok"]] for c in conns][:40],
            "stderr_tail": dmn.stderr()[-500:]}


# ------------------------------------------------------------------------------------------------
# the scenario lists

def specs(ctx):
    rng, quick = ctx.rng, ctx.quick()
    out = []

    def add(item, chain, **kw):
        s = dict({"id": "%s%d" % (item, len(out)), "item": item, "chain": chain, "cli": None, "endpoint": None,
                  "global": None}, **kw)
        out.append(s)
        return s

    # ---- late: B reached only after the first request
    def b_roots(bchain):
        return ["needed"] + (["needed:" + bchain] if bchain in ("wrong-host", "expired") else [])
    off = rng.randrange(len(B_CHAINS))
    pairs = [(k, B_CHAINS[(i + off) % len(B_CHAINS)]) for i, k in enumerate(URL_KINDS)] if quick else \
        list(itertools.product(URL_KINDS, B_CHAINS))
    for k, bc in pairs:
        src = rng.choice(SOURCES)
        add("late", "trusted", b={"chain": bc, "how": "url", "kinds": [k]},
            ca_opts={"nonce_on_get": k != "newNonce"}, **{src: b_roots(bc)})
    redirs = [(k, st) for k in REDIR_KINDS for st in (307, 308)] + [("directory", 302), ("newNonce", 301),
                                                                    ("newAccount", 302), ("newOrder", 303)]
    if quick:
        redirs = [(rng.choice(REDIR_KINDS[:2]), rng.choice([301, 302, 307, 308]))] + \
            rng.sample([r for r in redirs if r[0] not in REDIR_KINDS[:2] and r[1] in (307, 308)], 3)
    for k, st in redirs:
        bc = rng.choice(B_CHAINS)
        add("late", "trusted", b={"chain": bc, "how": "redirect", "kinds": [k], "status": st},
            ca_opts={"nonce_on_get": k != "newNonce"}, **{rng.choice(SOURCES): b_roots(bc)})
    # controls: the same plumbing with a B that IS trusted (same private CA): the run must pass through B
    add("late", "trusted", b={"chain": "trusted", "how": "url", "kinds": [rng.choice(URL_KINDS[1:])]},
        endpoint=["needed"], expect_ok=True)
    # (a GET: since /repo 1dd071b the daemon follows redirections itself and only for GET — a redirected POST
    # never reaches B, trusted or not, so it cannot serve as a control)
    add("late", "trusted", b={"chain": "trusted", "how": "redirect", "kinds": ["directory"],
                              "status": 307}, endpoint=["needed"], expect_ok=True)

    # ---- order / multiplicity / placement
    for src in SOURCES:
        for lst in (["unrelated", "needed"], ["needed", "unrelated"]):
            add("order", "trusted", expect_ok=True, dump_roots=True, **{src: lst})
    add("order", "trusted", expect_ok=True, dump_roots=True, cli=["unrelated", "unrelated2", "needed"])
    add("order", "trusted", expect_ok=True, dump_roots=True, cli=["unrelated", "needed"], cli_form="eq")
    add("order", "trusted", expect_ok=True, dump_roots=True, cli=["unrelated"], endpoint=["unrelated2", "needed"],
        **{"global": ["unrelated"]})
    for src in SOURCES:
        for lst in (["unrelated", "needed"], ["needed", "unrelated"]):
            if quick and rng.random() < 0.5:
                continue
            add("order", rng.choice(["wrong-host", "expired"]), dump_roots=True, **{src: lst})
    for src in SOURCES:
        for bad in (["missing", "garbage"] if not quick else [rng.choice(["missing", "garbage"])]):
            add("order", "trusted", **{src: [bad, "needed"]})
    for sb, sn in itertools.permutations(SOURCES, 2):
        for bad in (["missing", "garbage"] if not quick else [rng.choice(["missing", "garbage"])]):
            add("order", "trusted", **{sb: [bad], sn: ["needed"]})

    # ---- root file shapes
    for shape in ("empty", "dir", "keyonly"):
        placements = [("same-after", None), ("same-before", None)] + [("other", None)] * (1 if quick else 3)
        if quick:
            placements = rng.sample(placements, 2)
        for how, _ in placements:
            sn = rng.choice(SOURCES)
            if how == "same-after":
                kw = {sn: ["needed", shape]}
            elif how == "same-before":
                kw = {sn: [shape, "needed"]}
            else:
                kw = {sn: ["needed"], rng.choice([s for s in SOURCES if s != sn]): [shape]}
            add("shape", "trusted", **kw)
    for shape in sorted(FILE_DEBATABLE):
        for src in ([rng.choice(SOURCES)] if quick else SOURCES):
            add("shape", "trusted", count_as="rootfile:" + shape, **{src: [shape]})
    # ---- files with several CERTIFICATE blocks: the root certificate given is the first block.  The two-block files
    # against the chain of root A in every source (both tiers); the rest in one source each (thorough: in all three)
    for src in SOURCES:
        add("bundle", "trusted", count_as="rootfile:bundle_un", **{src: ["bundle_un"]})
        add("bundle", "trusted", count_as="rootfile:bundle_nu", expect_ok=True, **{src: ["bundle_nu"]})
    more = [("under-x", ["bundle_xn"], True),          # the first block is the root of THIS chain
            ("under-x", ["bundle_nx"], False),         # ... the second block is
            ("trusted", ["bundle_uun"], False), ("trusted", ["bundle_unu"], False), ("trusted", ["bundle_nuu"], True),
            ("trusted", ["unrelated", "bundle_un"], False), ("trusted", ["bundle_un", "unrelated2"], False),
            ("trusted", ["bundle_un", "needed"], True),   # the needed root is ALSO given by a file of its own
            ("under-x", ["bundle_nu", "bundle_un"], False)]
    off = rng.randrange(len(SOURCES))
    for i, (ch, lst, ok) in enumerate(more):
        for src in ([SOURCES[(i + off) % len(SOURCES)]] if quick else SOURCES):
            add("bundle", ch, dump_roots=True, **dict({src: lst}, **({"expect_ok": True} if ok else {})))
    # the file with the later block in one source, an unrelated single root in another
    s1, s2 = rng.sample(SOURCES, 2)
    add("bundle", "trusted", **{s1: ["bundle_un"], s2: ["unrelated2"]})
    add("shape", "trusted", expect_ok=True, dump_roots=True, cli=["needed"], endpoint=[])
    add("shape", "trusted", expect_ok=True, dump_roots=True, cli=["needed"], **{"global": []})
    add("shape", "trusted", expect_ok=True, dump_roots=True, endpoint=[], **{"global": ["needed"]})
    add("shape", "trusted", expect_ok=True, dump_roots=True, endpoint=["needed"], **{"global": []})
    add("shape", "trusted", dump_roots=True, endpoint=[], **{"global": []})
    add("shape", "trusted", dump_roots=True, cli=["unrelated"], endpoint=[], **{"global": []})

    # ---- [global] root list through included files
    def inc(main_roots, incs, main_has_global=True, **kw):
        return add("include", kw.pop("chain", "trusted"), dump_roots=True,
                   include={"main_has_global": main_has_global, "incs": incs}, **dict({"global": main_roots}, **kw))
    G = lambda roots: {"has_global": True, "global_roots": roots}
    inc(["unrelated"], [G(["needed"])], expect_ok=True)
    inc(["needed"], [G(["unrelated"])])                      # overridden: the needed root is gone
    inc(["needed"], [G(None)], expect_ok=True)               # an included [global] without the key keeps it
    inc(["needed"], [G([])])                                 # an included empty list replaces it
    inc(None, [G(["needed"])], expect_ok=True)
    inc(None, [G(["needed"])], main_has_global=False, expect_ok=True)   # [global] only in the included file
    inc(None, [G(["unrelated"])], main_has_global=False)
    inc(["unrelated"], [G(["needed"]), G(["unrelated2"])])   # the LAST included file wins
    inc(["unrelated"], [G(["unrelated2"]), G(["needed"])], expect_ok=True)
    inc(None, [{"endpoint": True}], endpoint=["needed"], expect_ok=True)   # endpoint defined in the included file
    inc(["unrelated"], [{"endpoint": True}], endpoint=["unrelated2"])
    inc(["needed"], [{"endpoint": True, "has_global": True, "global_roots": ["unrelated"]}], endpoint=["unrelated2"])
    inc(["unrelated"], [{"endpoint": True, "has_global": True, "global_roots": ["needed"]}], cli=["unrelated2"],
        expect_ok=True)
    if not quick:
        inc(["needed"], [G(["unrelated"])], chain="wrong-host")
        inc(["needed"], [G(["missing"])])
        inc(["missing"], [G(["needed"])], expect_ok=True)    # the overridden bad file is never read

    # ---- the chain is swapped while the daemon runs
    def roots_for(to):
        return ["needed"] + (["needed:" + to] if to in ("wrong-host", "expired") else [])
    # quick: four scenarios, each with another chain after the swap; thorough: every k, every chain after issuance
    tos = rng.sample(B_CHAINS, len(B_CHAINS))
    ks = [2, rng.randrange(3, 9)] if quick else [2, 3, 4, 5, 6, 7, 8]
    for i, k in enumerate(ks):
        to = tos[i % len(tos)]
        add("swap", "trusted", swap={"to": to, "after_conn": k}, n_postop=2, **{rng.choice(SOURCES): roots_for(to)})
    for to in (tos[2:] if quick else B_CHAINS):
        add("swap", "trusted", swap={"to": to, "after_kind": "cert"}, n_postop=2, ca_opts={"valid_secs": 3600},
            **{rng.choice(SOURCES): roots_for(to)})

    # ---- host and chain forms
    if v6_available():
        # the positive sibling is harness sanity: without it the two refusals below would show nothing
        add("host", "trusted-v6", endpoint=["needed"], expect_ok=True, count_as="host:v6-with-ip-san")
        add("host", "trusted-v6", endpoint=["unrelated"])
        add("host", "v6-nosan", **{rng.choice(SOURCES): ["needed"]})
    add("host", "trusted", endpoint=["needed"], host="LOCALHOST", expect_ok=True, count_as="host:LOCALHOST")
    add("host", "wrong-host", endpoint=["needed"], host="LOCALHOST")
    add("host", "ip-as-dns", **{rng.choice(SOURCES): ["needed"]})
    add("host", "not-yet-valid", **{rng.choice(SOURCES): ["needed"]})
    add("host", "inter-sent", expect_ok=True, **{rng.choice(SOURCES): ["needed"]})
    add("host", "inter-sent", endpoint=["unrelated"])
    add("host", "inter-omitted", **{rng.choice(SOURCES): ["needed"]})
    add("host", "selfsigned", endpoint=["unrelated"])
    add("host", "selfsigned")
    add("host", "selfsigned", endpoint=["needed"], count_only=True, count_as="host:selfsigned-listed-as-root")
    return out


# ------------------------------------------------------------------------------------------------
# judge and report

JUDGE_KEYS = ("chain_valid", "root_files_ok", "requests_seen", "signed_requests_seen", "attempt_ok", "cli",
              "endpoint", "global")


def judge(results):
    return vlib.model([{"op": "c18_judge", **{k: r[k] for k in JUDGE_KEYS},
                        "observed_roots": r["observed_roots"] or []} for r in results])


def report(ctx, results):
    for r, v in zip(results, judge(results)):
        s = r["auditd"]
        ctx.case({"auditd": {k: s[k] for k in s if k != "id"}}, nontrivial=True)
        for c in r["counts"]:
            ctx.count(c)
        ctx.count("auditd:truth:valid=%s,files=%s%s" % (r["chain_valid"], r["root_files_ok"],
                                                       "" if r["judged"] else ",counted-only"))
        robj = dict(r)
        if not r["completed"] and not r["requests_seen"]:
            ctx.broke("harness", "the daemon produced too few post-operation records (rc %s)" % r["rc"], robj)
            continue
        if r["judged"]:
            if not v["holds"]:
                ctx.violation("%s (%s): server chain %s, roots cli=%s endpoint=%s global=%s%s: %d request(s) (%d signed) "
                              "reached the server that must not be trusted, attempt %s"
                              % (s["id"], s["item"], s["chain"], s.get("cli"), s.get("endpoint"), s.get("global"),
                                 "".join(" %s=%s" % (k, s[k]) for k in ("b", "swap", "include", "host") if s.get(k)),
                                 r["requests_seen"], r["signed_requests_seen"],
                                 "ok" if r["attempt_ok"] else "failed"), robj)
            if r["observed_roots"] is not None and not v["roots_hold"]:
                ctx.violation("%s: the endpoint's root list %s is not command line ++ endpoint ++ global(after the "
                              "include merge) = %s" % (s["id"], r["observed_roots"], v["model_roots"]), robj)
        if r["sanity"]:
            ctx.broke("harness", "%s: %s" % (s["id"], r["sanity"]), robj)
    ctx.traces += len(results)


def start(ctx, root, mat, helper, workers=14):
    """Material and scenario list (all random choices are made here, in the caller's thread), then the runs on
    their own threads.  Returns the pending results for `finish`."""
    make_material(helper, os.path.join(root, "pki"), mat)
    sp = specs(ctx)
    ex = concurrent.futures.ThreadPoolExecutor(max_workers=workers)
    futs = [ex.submit(run_spec, s, root, mat, helper) for s in sp]
    ex.shutdown(wait=False)
    return futs


def finish(ctx, futs):
    """Judge and report.  Returns the results."""
    results = [f.result() for f in futs]
    report(ctx, results)
    for r in results[:1] + results[-1:]:
        ctx.sample({k: r[k] for k in ("kind", "combo", "chain_valid", "root_files_ok", "requests_seen", "attempt_ok")})
    return results


def run_all(ctx, root, mat, helper, workers=14):
    return finish(ctx, start(ctx, root, mat, helper, workers))


def replay(ctx, spec, base_material):
    """Re-runs one stored spec (fresh keys and chains of the same shapes) and prints the verdict."""
    helper = mockca.Helper()
    root = os.path.join(vlib.BUILD, "scratch", "c18-replay-auditd")
    shutil.rmtree(root, ignore_errors=True)
    try:
        mat = make_material(helper, os.path.join(root, "pki"), base_material(helper, os.path.join(root, "pki")))
        r = run_spec(spec, root, mat, helper)
    finally:
        helper.close()
    v = judge([r])[0]
    print({k: r[k] for k in ("kind", "combo", "chain_valid", "root_files_ok", "requests_seen", "attempt_ok", "judged",
                             "sanity")}, v)
    shutil.rmtree(root, ignore_errors=True)
    bad = r["judged"] and (not v["holds"] or (r["observed_roots"] is not None and not v["roots_hold"]))
    return 1 if bad or r["sanity"] else 0
