"""C11 extension, "a contact edit is noticed": tie of `Model/ContactsFp.lean` (the message hashed by
`hash_contacts`, acmed/src/account.rs:309-318; theorems `Props/C11Fp.lean`: message_injective,
edit_changes_message, stored_eq_configured_iff, messageOld_collides) and of the judge `Spec/C11Fp.lean`
to the real (private) function, plus the sibling fingerprint `hash_external_account`.

`extend(ctx, root=None)`
    generated contact lists and PAIRS of contact lists (see `gen_pairs`): the REAL `hash_contacts` on real
    `AccountContact` objects (probe op `contacts_fp`, probe/account_probe.rs) for every list in ONE probe
    batch; the model (`contacts_fp`, `contacts_msg_old`, `eab_fp`) and the judge (`c11_fp_judge`, on the
    REAL fingerprints) in ONE driver batch.
    Compared exactly (correspondence): the 32 bytes of the fingerprint of every list, the text of every
    contact (`contact.to_string()` against `contactText`), accepted / refused; the 32 bytes of the
    fingerprint of every generated external account binding.
    Judged (violation, replay = the pair): `Spec.C11Fp.holds a b fp(a) fp(b)` — different lists have
    different fingerprints (else that edit is never sent to the CA), equal lists equal fingerprints
    (else an unchanged configuration is sent again at every renewal).  This is the concrete-input search
    for a collision; "collision-shaped" pairs are built on purpose (joined / split at "mailto:", at an
    embedded length prefix, boundaries moved).
    Counted only (not judged here): bindings (key, identifier) that differ and have the same fingerprint.
    With `root`: the collision-shaped edit as a HISTORY of part M (py/ext/accountmulti.py: real
    Account::load / synchronize against mock CAs, judged there: after the synchronisation the CA holds
    the configured contacts).
`replay(ctx, obj)`  one stored pair (or binding) again.
"""
import hashlib
import os

import vlib

MAILTO = b"mailto:"


# --------------------------------------------------------------------------------------------------------
# generator

ORDINARY = ["a@example.org", "c@example.org", "b+tag@sub.example.com", "d@example.org", "postmaster@example.net",
            "first.last@example.co.uk", "x@y.z", "a", "A@EXAMPLE.ORG", "with space@example.org", "user%example.com@example.org",
            "a@example.org?subject=hi", "a@example.org,b@example.org"]
NON_ASCII = ["ü@exämple.org", "京@例え.jp", "🦀@example.org", "é", "naïve@exemple.fr", " @example.org", "à@example.org",
             "\U0010ffff"]
WITH_MAILTO = ["mailto:a@example.org", "a@example.orgmailto:c@example.org", "mailto:", "mailto:mailto:", "x@example.orgmailto:",
               "MAILTO:a@example.org", "a@example.orgmailto:c@example.orgmailto:d@example.org", ":", "mailto", "ailto:a@example.org"]
CONTROL = ["\x00", "a@example.org\n", "a\x00b@example.org", "\r\n", "\x7f", "\t@example.org", "\x00\x00\x00\x00\x00\x00\x00\x14",
           "\x14", "a@example.org\x00\x00\x00\x00\x00\x00\x00\x14mailto:c@example.org"]
# text length = 7 + value length: around the byte boundaries of the 8-byte length
BOUNDARY_LENGTHS = [248, 249, 250, 300, 1000, 65528, 65529, 65530]
LOCAL = "abcdefghijklmnopqrstuvwxyz0123456789.+-_"


def _rand_addr(rng):
    n = rng.choice([1, 2, 3, 5, 8, 13, 21])
    return "".join(rng.choice(LOCAL) for _ in range(n)) + "@" + rng.choice(["example.org", "example.com", "e.x", "sub.example.net"])


def gen_value(rng, made, long_ok=True):
    """One contact value (bytes) and its kind.  `made`: values already produced in this run, so that
    concatenations / splits of OTHER values of the same run appear."""
    r = rng.random()
    if r < 0.30:
        return rng.choice(ORDINARY).encode(), "ordinary"
    if r < 0.42:
        return _rand_addr(rng).encode(), "ordinary-random"
    if r < 0.50:
        return b"", "empty"
    if r < 0.60:
        return rng.choice(WITH_MAILTO).encode(), "contains-mailto"
    if r < 0.70:
        return rng.choice(NON_ASCII).encode(), "non-ascii"
    if r < 0.77:
        return rng.choice(CONTROL).encode(), "control-chars"
    if r < 0.87 and len(made) >= 2:
        x, y = rng.choice(made), rng.choice(made)
        sep = rng.choice([MAILTO, MAILTO, b"", b":", b"mailto"])
        if len(x) + len(y) < 2000:
            return x + sep + y, "concatenation-of-others"
    if r < 0.93 and made:
        x = rng.choice(made)
        if len(x) >= 2 and len(x) < 2000:
            # a split at a character boundary (the value must stay a Rust String)
            s = x.decode()
            k = rng.randrange(1, len(s)) if len(s) > 1 else 0
            return (s[:k] if rng.random() < 0.5 else s[k:]).encode(), "split-of-another"
    if long_ok and r < 0.955:
        n = rng.choice(BOUNDARY_LENGTHS[:5])
        return (rng.choice("xyz") * n).encode(), "long"
    return _rand_addr(rng).encode(), "ordinary-random"


def gen_list(rng, made):
    n = rng.choice([0, 1, 1, 2, 2, 2, 3, 3, 4])
    out, kinds = [], []
    for _ in range(n):
        v, k = gen_value(rng, made)
        if len(v) < 4000:
            made.append(v)
        out.append(v)
        kinds.append(k)
    return out, kinds


def be64(n):
    return (n % 2 ** 64).to_bytes(8, "big")


def _is_str(b):
    try:
        b.decode()
        return True
    except UnicodeDecodeError:
        return False


def partners(rng, L):
    """Lists built FROM L so that (L, partner) is collision-shaped for some plausible construction of the
    message; [(kind, partner)].  All partners are different lists (checked by the caller)."""
    out = []
    n = len(L)
    if n >= 2:
        i = rng.randrange(n - 1)
        # the pre-592a561 construction (plain concatenation of the texts): join two neighbours with "mailto:"
        out.append(("joined-at-mailto", L[:i] + [L[i] + MAILTO + L[i + 1]] + L[i + 2:]))
        # a construction that loses ONE length prefix: the neighbour's whole frame moves into the value
        t = MAILTO + L[i + 1]
        for tag, pre in (("joined-at-be64-frame", be64(len(t))), ("joined-at-le64-frame", len(t).to_bytes(8, "little")),
                         ("joined-at-be32-frame", len(t).to_bytes(4, "big") if len(t) < 2 ** 32 else None)):
            if pre is not None and _is_str(pre):
                out.append((tag, L[:i] + [L[i] + pre + t] + L[i + 2:]))
        # all of them at once
        if n >= 3:
            out.append(("all-joined-at-mailto", [MAILTO.join(L)]))
        # boundary moved between two neighbours (same concatenation of VALUES)
        s = (L[i] + L[i + 1])
        if len(s) >= 1 and _is_str(s):
            st = s.decode()
            k = rng.randrange(0, len(st) + 1)
            out.append(("boundary-moved", L[:i] + [st[:k].encode(), st[k:].encode()] + L[i + 2:]))
        out.append(("swapped", L[:i] + [L[i + 1], L[i]] + L[i + 2:]))
    for i, v in enumerate(L):
        # the reverse direction: a value that contains "mailto:" is split there
        k = v.find(MAILTO)
        if k >= 0:
            ks = [j for j in range(len(v)) if v.startswith(MAILTO, j)]
            k = rng.choice(ks)
            out.append(("split-at-mailto", L[:i] + [v[:k], v[k + len(MAILTO):]] + L[i + 1:]))
            break
    if n >= 1:
        i = rng.randrange(n)
        out.append(("duplicated", L[:i] + [L[i]] + L[i:]))
        out.append(("dropped", L[:i] + L[i + 1:]))
        out.append(("empty-appended", L + [b""]))
        out.append(("mailto-prepended-to-value", L[:i] + [MAILTO + L[i]] + L[i + 1:]))
        if len(L[i]) >= 1 and len(L[i]) < 4000:
            s = L[i].decode()
            k = rng.randrange(len(s))
            c = "b" if s[k] != "b" else "d"
            out.append(("one-character-changed", L[:i] + [(s[:k] + c + s[k + 1:]).encode()] + L[i + 1:]))
    else:
        out.append(("empty-appended", [b""]))
    return out


FIXED_PAIRS = [
    ("joined-at-mailto", [b"a@example.org", b"c@example.org"], [b"a@example.orgmailto:c@example.org"]),      # 592a561
    ("split-at-mailto", [b"a@example.orgmailto:c@example.org"], [b"a@example.org", b"c@example.org"]),
    ("joined-at-mailto", [b"", b""], [b"mailto:"]),
    ("empty-appended", [], [b""]),
    ("empty-appended", [b""], [b"", b""]),
    ("joined-at-be64-frame", [b"a@example.org", b"c@example.org"],
     [b"a@example.org" + be64(20) + b"mailto:c@example.org"]),
    ("joined-at-be64-frame", [b"", b""], [be64(7) + b"mailto:"]),
    ("identical", [b"a@example.org", b"c@example.org"], [b"a@example.org", b"c@example.org"]),
    ("identical", [], []),
]


def gen_pairs(rng, n_lists, n_long):
    """[(kind, a, b, kinds_of_values_of_a)] — a, b lists of bytes."""
    made = []
    pairs = [(k, a, b, ["fixed"] * len(a)) for k, a, b in FIXED_PAIRS]
    prev = None
    for _ in range(n_lists):
        L, kinds = gen_list(rng, made)
        for kind, P in partners(rng, L):
            if P != L:
                pairs.append((kind, L, P, kinds))
        if rng.random() < 0.25:
            pairs.append(("identical", L, list(L), kinds))
        if prev is not None:
            pairs.append(("independent" if prev != L else "identical", prev, L, kinds))
        prev = L
    # lengths around the byte boundaries of the length prefix (few: each is up to 64 KiB)
    for n in BOUNDARY_LENGTHS[-n_long:] if n_long else []:
        v = b"x" * n
        pairs.append(("long-joined-at-mailto", [v, b"c@example.org"], [v + MAILTO + b"c@example.org"], ["long", "ordinary"]))
        pairs.append(("long-one-byte-longer", [v], [v + b"x"], ["long"]))
    return pairs


# --------------------------------------------------------------------------------------------------------
# external account bindings

def gen_bindings(rng, n):
    """[(kind, (key, identifier, alg), (key, identifier, alg))] — identifier is a str."""
    idents = ["kid-1", "def", "ef", "é京-kid", "0", "k" * 90, "", "abc", "a"]
    out = [("fixed-resplit", (b"abc", "def", "HS256"), (b"abcd", "ef", "HS256")),
           ("fixed-resplit", (b"", "abcdef", "HS256"), (b"abcdef", "", "HS256")),
           ("alg-only", (bytes(range(32)), "kid-1", "HS256"), (bytes(range(32)), "kid-1", "HS384"))]
    for _ in range(n):
        key = bytes(rng.randrange(256) for _ in range(rng.choice([0, 1, 3, 16, 32, 32, 64])))
        if rng.random() < 0.4:
            key = "".join(rng.choice(LOCAL) for _ in range(rng.choice([1, 4, 16, 32]))).encode()
        ident = rng.choice(idents) if rng.random() < 0.6 else "".join(rng.choice(LOCAL) for _ in range(rng.randint(1, 12)))
        alg = rng.choice(["HS256", "HS256", "HS384", "HS512"])
        one = (key, ident, alg)
        r = rng.random()
        if r < 0.30 and len(ident) >= 1:
            k = rng.randrange(1, len(ident) + 1)          # the start of the identifier moves into the key
            out.append(("resplit-ident-to-key", one, (key + ident[:k].encode(), ident[k:], alg)))
        elif r < 0.50 and key and _is_str(key):
            s = key.decode()
            k = rng.randrange(0, len(s))                   # the end of the key moves into the identifier
            out.append(("resplit-key-to-ident", one, (s[:k].encode(), s[k:] + ident, alg)))
        elif r < 0.60:
            out.append(("alg-only", one, (key, ident, rng.choice([a for a in ("HS256", "HS384", "HS512") if a != alg]))))
        elif r < 0.70:
            out.append(("identical", one, one))
        elif r < 0.85:
            out.append(("same-key-length", one, (bytes(rng.randrange(256) for _ in key), ident, alg)))
        else:
            out.append(("independent", one, (key + b"\x01", ident + "x", alg)))
    return out


def _eab_ops(b):
    key, ident, alg = b
    return ({"op": "eab_fp", "identifier": ident, "key_hex": key.hex(), "alg": alg},
            {"op": "eab_fp", "identifier_hex": ident.encode().hex(), "key_hex": key.hex()})


# --------------------------------------------------------------------------------------------------------

def _hx(L):
    return [v.hex() for v in L]


def _show(L):
    return [v.decode(errors="replace") if len(v) <= 80 else "%s…(%d bytes)" % (v[:40].decode(errors="replace"), len(v)) for v in L]


def _guess(L, real_hex):
    """Diagnosis only (never decides anything): which well-known construction gives the bytes the real
    code returned."""
    texts = [MAILTO + v for v in L]
    cands = {"length-prefixed (u64 big-endian)": b"".join(be64(len(t)) + t for t in texts),
             "plain concatenation (pre-592a561)": b"".join(texts),
             "length-prefixed (u64 little-endian)": b"".join(len(t).to_bytes(8, "little") + t for t in texts),
             "length-prefixed (u32 big-endian)": b"".join((len(t) % 2 ** 32).to_bytes(4, "big") + t for t in texts)}
    for name, m in cands.items():
        if hashlib.sha256(m).hexdigest() == real_hex:
            return name
    return "none of the constructions known to the harness"


def _pair_obj(kind, a, b, fa, fb, verdict=None):
    return {"part": "FP", "kind": "contacts-pair", "pair_kind": kind, "a_hex": _hx(a), "b_hex": _hx(b),
            "a": _show(a), "b": _show(b), "real_fingerprint_a": fa, "real_fingerprint_b": fb, "verdict": verdict}


def check_pairs(ctx, pairs, bindings, tag="FP"):
    """The tie on a set of pairs; returns the number of pairs judged."""
    # every list of every pair is its own probe op (an identical pair computes the fingerprint twice)
    pops = []
    for kind, a, b, _ in pairs:
        ty = "mailto" if ctx.rng.random() < 0.9 else ctx.rng.choice(["MAILTO", "MailTo", "mailTO"])
        pops.append({"op": "contacts_fp", "contacts_hex": _hx(a), "type": ty})
        pops.append({"op": "contacts_fp", "contacts_hex": _hx(b), "type": "mailto"})
    n_cf = len(pops)
    for _, x, y in bindings:
        pops += [_eab_ops(x)[0], _eab_ops(y)[0]]
    impl = vlib.probe(pops)                                                   # ONE probe batch
    mops = []
    for kind, a, b, _ in pairs:
        mops += [{"op": "contacts_fp", "contacts_hex": _hx(a)}, {"op": "contacts_fp", "contacts_hex": _hx(b)}]
    for kind, a, b, _ in pairs:
        mops += [{"op": "contacts_msg_old", "contacts_hex": _hx(a)}, {"op": "contacts_msg_old", "contacts_hex": _hx(b)}]
    for _, x, y in bindings:
        mops += [_eab_ops(x)[1], _eab_ops(y)[1]]
    jidx = {}
    for k, (kind, a, b, _) in enumerate(pairs):
        ia, ib = impl[2 * k], impl[2 * k + 1]
        if isinstance(ia, dict) and isinstance(ib, dict) and "hex" in ia and "hex" in ib:
            jidx[k] = len(mops)
            mops.append({"op": "c11_fp_judge", "a_hex": _hx(a), "b_hex": _hx(b), "fp_a": ia["hex"], "fp_b": ib["hex"]})
    outs = vlib.model(mops)                                                   # ONE driver batch
    np_ = len(pairs)
    n_agree = 0
    seen_lists = set()
    shown, eshown = [], []
    reported, nbroke = set(), [0]
    for k, (kind, a, b, vkinds) in enumerate(pairs):
        old_a, old_b = outs[2 * np_ + 2 * k], outs[2 * np_ + 2 * k + 1]
        differ = a != b
        shaped = differ and old_a["hex"] == old_b["hex"]            # same message under the old construction (model)
        ctx.count("%s:pair:%s" % (tag, kind))
        if shaped:
            ctx.count("%s:pairs-colliding-under-the-old-construction" % tag)
        if differ:
            ctx.count("%s:pairs-different-lists" % tag)
        else:
            ctx.count("%s:pairs-identical-lists" % tag)
        ctx.case({"fp-pair": [_hx(a), _hx(b)]}, nontrivial=differ)
        fps = []
        for side, L in ((0, a), (1, b)):
            i, m = impl[2 * k + side], outs[2 * k + side]
            key = tuple(L)
            first = key not in seen_lists
            seen_lists.add(key)
            if first:
                ctx.count("%s:lists" % tag)
                ctx.count("%s:list-len:%d" % (tag, len(L)))
                if side == 0:
                    for vk in vkinds:
                        ctx.count("%s:value:%s" % (tag, vk))
                mx = max([len(v) for v in L] or [0]) + 7
                ctx.count("%s:longest-text:%s" % (tag, "<128" if mx < 128 else "<256" if mx < 256 else "<65536" if mx < 65536 else ">=65536"))
            ctx.traces += 1
            robj = {"part": "FP", "kind": "contacts-list", "list_hex": _hx(L), "list": _show(L), "impl": i,
                    "model": {"hex": m.get("hex"), "msg_len": m.get("msg_len")}}
            if not isinstance(i, dict) or "panic" in i or i.get("died"):
                ctx.violation("hash_contacts / AccountContact::new crashed on the contact list %s: %s" % (_show(L), i), robj)
                fps.append(None)
                continue
            if "hex" not in i:
                ctx.disagreements += 1
                ctx.count("%s:refused" % tag)
                ctx.broke("correspondence", "the real code refuses the contact list %s (%s); the model gives every list a "
                          "fingerprint" % (_show(L), i), robj)
                fps.append(None)
                continue
            fps.append(i["hex"])
            if i["hex"] != m.get("hex") or i.get("texts") != m.get("texts"):
                ctx.disagreements += 1
                what = "fingerprint" if i["hex"] != m.get("hex") else "contact texts (contact.to_string())"
                nbroke[0] += 1
                if nbroke[0] <= 5:      # every difference is counted in ctx.disagreements; five are described
                    ctx.broke("correspondence", "%s of the contact list %s: real %s, Model.ContactsFp %s; the real bytes are "
                              "SHA-256 of: %s" % (what, _show(L), i["hex"], m.get("hex"), _guess(L, i["hex"])), robj)
            else:
                n_agree += 1
        if k in jidx:
            v = outs[jidx[k]]
            ctx.count("%s:judged:%s" % (tag, "holds" if v.get("holds") else "FAILS"))
            if not v.get("holds"):
                if differ:
                    desc = ("the contact lists %s and %s are different but have the same fingerprint %s: editing one into the "
                            "other is not noticed, the CA's record is never brought into line" % (_show(a), _show(b), fps[0]))
                else:
                    desc = ("the same contact list %s was given two fingerprints (%s, %s): an unchanged configuration looks "
                            "edited" % (_show(a), fps[0], fps[1]))
                # one failing pair per kind of pair goes into the verdict (all are counted above): the other parts'
                # findings on the same run stay visible among the first twenty
                if kind not in reported and len(reported) < 6:
                    reported.add(kind)
                    ctx.violation(desc, _pair_obj(kind, a, b, fps[0], fps[1], v))
                else:
                    ctx.count("%s:failing-pairs-counted-only" % tag)
            elif shaped and len(shown) < 2:
                # (ctx.sample is left to parts A, B, M: the evidence keeps six samples in all)
                shown.append(1)
                ctx.notes.append("FP sample (%s): %s -> %s… and %s -> %s… (same message under the pre-592a561 construction); "
                                 "judge %s" % (kind, _show(a), fps[0][:16], _show(b), fps[1][:16], v))
    ctx.count("%s:lists-agree(model=code)" % tag, n_agree)
    # ---- bindings: exact correspondence; equal fingerprints of different bindings are COUNTED only
    ebase = 4 * np_
    for k, (kind, x, y) in enumerate(bindings):
        ctx.count("%s:eab:pair:%s" % (tag, kind))
        got = []
        for side, bnd in ((0, x), (1, y)):
            i, m = impl[n_cf + 2 * k + side], outs[ebase + 2 * k + side]
            ctx.traces += 1
            ctx.case({"eab-fp": [bnd[0].hex(), bnd[1]]}, nontrivial=True)
            robj = {"part": "FP", "kind": "eab", "key_hex": bnd[0].hex(), "identifier": bnd[1], "alg": bnd[2], "impl": i, "model": m}
            if not isinstance(i, dict) or "panic" in i or i.get("died"):
                ctx.violation("hash_external_account crashed on key %s identifier %r: %s" % (bnd[0].hex(), bnd[1], i), robj)
                got.append(None)
            elif i.get("hex") != m.get("hex"):
                ctx.disagreements += 1
                ctx.broke("correspondence", "fingerprint of the external account binding (key %s, identifier %r): real %s, "
                          "Model.ContactsFp.eabFingerprint %s" % (bnd[0].hex(), bnd[1], i.get("hex") or i, m.get("hex")), robj)
                got.append(i.get("hex"))
            else:
                ctx.count("%s:eab:agree(model=code)" % tag)
                got.append(i["hex"])
        same_binding = (x[0], x[1]) == (y[0], y[1])
        if None not in got and not same_binding:
            if got[0] == got[1]:
                ctx.count("%s:eab:different-bindings-same-fingerprint(counted, not judged)" % tag)
                if len(eshown) < 1:
                    eshown.append(1)
                    ctx.notes.append("FP sample (binding, counted only): key %s identifier %r and key %s identifier %r have the same "
                                     "fingerprint %s…" % (x[0].hex(), x[1], y[0].hex(), y[1], got[0][:16]))
            else:
                ctx.count("%s:eab:different-bindings-different-fingerprints" % tag)
        elif None not in got and same_binding:
            ctx.count("%s:eab:same-key-and-identifier:%s" % (tag, "same-fingerprint" if got[0] == got[1] else "DIFFERENT-fingerprints"))
    return len(jidx)


# --------------------------------------------------------------------------------------------------------
# the collision-shaped edit as a history of part M (py/ext/accountmulti.py)

def multi_histories(rng):
    a, c = "a@example.org", "c@example.org"
    S = lambda ep: {"do": "sync", "ep": ep}
    C = lambda v: {"do": "contacts", "value": v}
    R = {"do": "restart"}
    two = {"epA": True, "epB": True}
    x, y = _rand_addr(rng), _rand_addr(rng)
    H = [("contacts-joined-at-mailto", [a, c], [S("epA"), S("epB"), C([a + "mailto:" + c]), R, S("epA"), S("epB")]),
         ("contacts-split-at-mailto", [a + "mailto:" + c], [S("epA"), S("epB"), C([a, c]), S("epB"), R, S("epA")]),
         ("contacts-joined-random", [x, "", y], [S("epA"), C([x, "mailto:" + y]), R, S("epA"), C([x + "mailto:mailto:" + y]), S("epA")])]
    return [{"label": l, "endpoints": dict(two), "init": {"contacts": list(i), "key_type": "ecdsa_p256", "eab": None},
             "steps": [dict(s) for s in st]} for l, i, st in H]


def extend_flows(ctx, root):
    from ext import accountmulti
    hs = multi_histories(ctx.rng)
    n0 = len(ctx.samples)
    accountmulti.extend(ctx, None, root, hists=hs)
    del ctx.samples[n0:]          # the evidence keeps six samples in all: left to parts A, B, M
    ctx.count("FP:flow-histories(part M)", len(hs))
    return len(hs)


# --------------------------------------------------------------------------------------------------------

def extend(ctx, root=None):
    quick = ctx.quick()
    pairs = gen_pairs(ctx.rng, 450 if quick else 6000, 3)
    bindings = gen_bindings(ctx.rng, 150 if quick else 3000)
    n = check_pairs(ctx, pairs, bindings)
    ctx.notes.append("FP (py/ext/contactsfp.py): %d pairs of contact lists (0..5 contacts; ordinary, empty, containing 'mailto:', "
                     "concatenations / splits of other values of the run, non-ASCII, control characters, texts up to 65537 "
                     "bytes; partners joined / split at 'mailto:', at an embedded length prefix, boundary moved, swapped, "
                     "duplicated, one character changed, identical) through the real hash_contacts and Model/ContactsFp "
                     "(32 bytes compared), every pair judged by Spec.C11Fp.holds on the real fingerprints; non-trivial = the "
                     "two lists differ; %d pairs of external account bindings through the real hash_external_account "
                     "(compared with the model; equal fingerprints of different bindings are counted, not judged)"
                     % (len(pairs), len(bindings)))
    if root is not None:
        extend_flows(ctx, root)
    return n


def replay(ctx, obj):
    """Re-runs one stored pair / list / binding against the code under VERIF_REPO; failures land in ctx."""
    kind = obj.get("kind")
    if kind == "contacts-pair":
        a = [bytes.fromhex(h) for h in obj["a_hex"]]
        b = [bytes.fromhex(h) for h in obj["b_hex"]]
        check_pairs(ctx, [(obj.get("pair_kind", "replayed"), a, b, ["replayed"] * len(a))], [])
    elif kind == "contacts-list":
        L = [bytes.fromhex(h) for h in obj["list_hex"]]
        check_pairs(ctx, [("identical", L, list(L), ["replayed"] * len(L))], [])
    elif kind == "eab":
        bnd = (bytes.fromhex(obj["key_hex"]), obj["identifier"], obj.get("alg", "HS256"))
        check_pairs(ctx, [], [("identical", bnd, bnd)])
    else:
        print("nothing to replay in this object (kind=%s)" % kind)
