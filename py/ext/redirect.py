"""Redirections (C09 / C04): real issuances against a mock CA that answers 301 / 302 / 303 / 307 / 308.

C09 (`c09_extend`): the directory GET and the newNonce GET behind chains of 1..9 redirections (followed: the
last location serves the resource), of 10 and of endlessly many (the attempt must END with an error, after no
more requests than the loop bound), relative-reference / relative-path / absolute / other-host-name Locations,
with and without Replay-Nonce on the 3xx answers, 3xx answers to POSTs — through an endpoint with a rate limit
small enough for a violation to show.  Judge = Spec.C09.holds on the arrival times of ALL requests at the CA
(the bracket of py/props/c09.py part (iii), same slack).  Correspondence: every chain the CA served is given
to the model (`redir_model`, Model/Http.lean `get` / `post` on the answers actually served): the model must
account for exactly the requests that arrived (none left over, not stuck).

C04 (`c04_extend`): 307 / 308 / 301 / 302 / 303 answers to the newAccount / newOrder / challenge / finalize /
account-update POSTs.  EVERY delivered POST — one arriving at a redirected-to location included — is a record
for Spec.C04.holds (the mock CA decodes it there like anywhere else: its protected url is judged against the URL
it arrived at, its nonce against the ledger).

A replay file of this module carries "part": "redirect:c09" / "redirect:c04"."""
import concurrent.futures
import json
import os
import shutil
import time

import cfggen
import flow
import gen
import mockca
import vlib

NS = 10 ** 9
CHAIN_CAP = 30        # requests of one chain after which a run is stopped: the chain is not bounded


def translate():
    """Gen/Senders.lean (send sites, limiter calls, redirect policy of the client) for the theorems of
    Props/C09Redirect; a source that is no longer recognised is recorded for the property."""
    try:
        gen.gen_senders()
    except gen.GenError as e:
        gen._fail("senders", str(e))


RULES = {
    "c09": " (iv) py/ext/redirect.py: issuances whose directory / newNonce GETs are answered 301/302/303/307/308 in chains of "
           "1..9, 10 and endlessly many redirections (relative-reference, relative-path, absolute, other-host-name Locations; "
           "with / without Replay-Nonce), and whose POSTs are answered 3xx, under limits of 1..4 per 1..2 s: the bracket of "
           "(iii) on the arrival times of ALL requests; every chain served is replayed through Model/Http (redir_model) and must "
           "account for exactly the requests that arrived.",
    "c04": " (iv) py/ext/redirect.py: flows whose newAccount / newOrder / authz / challenge / order / finalize / cert POSTs are "
           "answered 307 / 308 / 301 / 302 / 303; whatever arrives at a redirected-to location is decoded and judged like any "
           "other POST (protected url against the URL it arrived at, nonce against the ledger); every chain is replayed "
           "through Model/Http post (redir_model).",
}


def describe(part):
    """The evidence's `rule` text of the calling check says what this module adds (once)."""
    import sys
    mod = sys.modules.get("props." + part)
    fin = getattr(mod, "FINISH", None)
    if isinstance(fin, dict) and RULES[part] not in fin.get("rule", ""):
        fin["rule"] = fin.get("rule", "") + RULES[part]


def owns(replay_path):
    try:
        with open(replay_path) as f:
            r = json.load(f)
        obj = r.get("replay") or r.get("context") or r
        return isinstance(obj, dict) and str(obj.get("part", "")).startswith("redirect:")
    except Exception:
        return False


# ------------------------------------------------------------------------------------------ running

def one_cert(i=0):
    return {"name": "crt%d" % i, "identifiers": [{"dns": "r%d.example.org" % i, "challenge": "http-01"}],
            "key_type": "ecdsa_p256"}


def run_flow(sc, root, helper):
    """One daemon run; stops at the first post-operation record, when the daemon dies, or when a chain
    has grown past CHAIN_CAP requests."""
    d = os.path.join(root, "r%d" % sc["idx"])
    os.makedirs(d, exist_ok=True)
    ca = mockca.MockCA(helper, rules=[dict(r, answer=dict(r["answer"])) for r in sc["rules"]],
                       opts={"nonce_on_get": sc.get("nonce_on_get", True), "polls_before_valid": sc.get("polls", 0)})
    ca.start()
    rl = None
    if sc.get("n"):
        rl = [{"name": "rl", "number": sc["n"], "period": "%ds" % sc["period_s"]}]
    cfg, log = flow.make_config(d, ca.base + "/directory", [one_cert(k) for k in range(sc.get("ncerts", 1))],
                                rate_limits=rl)
    if rl:
        cfg["endpoint"][0]["rate_limits"] = ["rl"]
    cfg_path = cfggen.write(os.path.join(d, "acmed.toml"), cfg)
    dmn = flow.Daemon(cfg_path)
    want = sc.get("n_postop", 1) * sc.get("ncerts", 1)

    def longest_chain():
        return max([len(c["reqs"]) for c in chains_of(list(ca.log))] or [0])

    def enough():
        # `stop_after`: the flow is only watched up to that many requests (the part behind the chain adds nothing)
        return bool(sc.get("stop_after")) and sum(1 for e in ca.log if e["kind"] == "ans") >= sc["stop_after"]

    flow.wait_progress(lambda: len(flow.post_ops(log)) >= want or not dmn.alive() or longest_chain() > CHAIN_CAP
                       or enough(), lambda: len(ca.log), idle=60, cap=600)
    time.sleep(0.05)
    cut = enough() and len(flow.post_ops(log)) < want
    rc = dmn.stop()
    ca.stop()
    posts = flow.post_ops(log)
    return {"sc": sc, "log": list(ca.log), "posts": posts, "rc": rc, "done": len(posts) >= want or cut, "cut": cut,
            "success": [flow.hook_args(p).get("is_success") == "true" for p in posts],
            "stderr_tail": dmn.stderr()[-1500:] if hasattr(dmn, "stderr") else ""}


def chains_of(log):
    """Every redirect chain the CA served: the request that hit a redirect rule (or any request answered 3xx
    with a Location) followed by the requests that arrived at the redirected-to locations."""
    reqs = [e for e in log if e["kind"] == "req"]
    anss = {e["for"]: e for e in log if e["kind"] == "ans"}
    out, cur = [], None
    for r in reqs:
        a = anss.get(r["gidx"])
        if r["rk"] == "redirected" and cur is not None:
            cur["reqs"].append(r)
            cur["ans"].append(a)
            continue
        cur = None
        if a is not None and 300 <= (a.get("status") or 0) <= 399 and a.get("location"):
            cur = {"kind": r["rk"], "method": r["method"], "reqs": [r], "ans": [a]}
            out.append(cur)
    return out


def model_script(chain):
    """The answers of a chain as `redir_model` input (URLs and nonces interned)."""
    urls, script = {}, []

    def uid(u):
        path = u.split("//", 1)[1].split("/", 1)[1] if "//" in u else u.lstrip("/")
        return urls.setdefault("/" + path.lstrip("/").split("../")[-1], len(urls) + 1)

    first = uid(chain["reqs"][0]["path"])
    for k, a in enumerate(chain["ans"]):
        if a is None or a.get("drop"):
            script.append({"delivered": False, "ok2xx": False, "nonce": None, "body": "notJson"})
            continue
        st = a.get("status") or 0
        x = {"delivered": True, "ok2xx": 200 <= st <= 299, "nonce": (k + 100) if a.get("nonce") else None,
             "body": {"payload": 2} if 200 <= st <= 299 else
             ({"type": mockca.ERR + a["problem"]} if a.get("problem") else "notJson")}
        if 300 <= st <= 399 and a.get("location"):
            x["redir"] = {"to": uid(a["location"]), "keep": st in (307, 308)}
        script.append(x)
    return first, script


def correspond(ctx, res, part):
    """Model/Http.lean `get` / `post` on the answers of each chain: it must send exactly the requests that
    arrived (same methods), and — for a GET chain — end the way the code did."""
    ins, keep = [], []
    for ch in chains_of(res["log"]):
        first, script = model_script(ch)
        call = "post" if ch["method"] == "POST" else "get"
        ins.append({"op": "redir_model", "call": call, "old": False, "url": first, "script": script,
                    "nonce": 1 if call == "post" else None})
        keep.append(ch)
    if not ins:
        return []
    outs = vlib.model(ins)
    bad = []
    for ch, i, o in zip(keep, ins, outs):
        n_obs = len(ch["reqs"])
        ctx.count("%s:chain:%s:%s:len=%d" % (part, ch["kind"], ch["method"], min(n_obs, 12)))
        ctx.traces += 1
        obs_methods = "".join("P" if r["method"] == "POST" else "G" for r in ch["reqs"])
        if "error" in o:
            ctx.broke("correspondence", "redir_model: %s" % o["error"], {"input": i})
            continue
        mod_methods = "".join(r["m"] for r in o["requests"])
        # the model stops consuming answers where the code stops sending: nothing left over, not stuck
        # (a run cut at CHAIN_CAP, or one whose last answer never came, is not compared beyond that)
        if o["left"] > 0 or (o["res"] == "stuck" and all(a is not None for a in ch["ans"])) \
                or mod_methods != obs_methods[:len(mod_methods)]:
            ctx.disagreements += 1
            bad.append((ch, i, o))
            ctx.broke("correspondence",
                      "redirect chain at %s: the CA received %d request(s) [%s], Model/Http.lean's %s sends %d [%s] (%s, "
                      "%d answer(s) left over)" % (ch["kind"], n_obs, obs_methods, i["call"], o["n_requests"], mod_methods,
                                                   o["res"], o["left"]),
                      {"part": "redirect:" + part, "sc": res["sc"], "model_input": i, "model": o,
                       "requests": [{k: r.get(k) for k in ("method", "path", "rk", "via", "t")} for r in ch["reqs"]]})
        ctx.count("%s:model-res:%s" % (part, o["res"].split(":")[-1]))
    return bad


# ------------------------------------------------------------------------------------------ C09

def c09_scenarios(ctx):
    R = lambda kind, st, hops, to="rel", nonce="fresh", nth=0: {   # noqa: E731
        "kind": kind, "nth": nth, "answer": {"redirect": st, "hops": hops, "to": to, "nonce": nonce}}
    scs = [
        {"name": "dir-1-rel", "n": 1, "period_s": 2, "rules": [R("directory", 302, 1)], "stop_after": 5},
        {"name": "dir-3-abs-nonce-none", "n": 2, "period_s": 1, "rules": [R("directory", 301, 3, "abs", "none")]},
        {"name": "dir-5-relpath", "n": 1, "period_s": 2, "rules": [R("directory", 307, 5, "relpath")], "stop_after": 8},
        {"name": "dir-9-host", "n": 3, "period_s": 1, "rules": [R("directory", 308, 9, "host")]},
        {"name": "dir-10-rel", "n": 3, "period_s": 1, "rules": [R("directory", 302, 10)], "fails": True},
        {"name": "dir-endless-abs", "n": 4, "period_s": 1, "rules": [R("directory", 303, -1, "abs")], "fails": True},
        {"name": "nonce-2-abs", "n": 2, "period_s": 1, "nonce_on_get": False, "rules": [R("newNonce", 302, 2, "abs", "none")]},
        {"name": "nonce-12-rel", "n": 4, "period_s": 1, "nonce_on_get": False, "rules": [R("newNonce", 307, 12, "rel", "none")],
         "fails": True},
        # 3xx answers to POSTs: one request each, the attempt fails; nothing may follow the limiter-less way
        {"name": "post-307-newOrder", "n": 2, "period_s": 1, "rules": [R("newOrder", 307, 3, "abs")], "fails": True},
        {"name": "post-302-finalize", "n": 3, "period_s": 1, "rules": [R("finalize", 302, 4)], "fails": True},
        # two certificates on the one endpoint, both directories redirected
        {"name": "dir-4-two-certs", "n": 2, "period_s": 1, "ncerts": 2,
         "rules": [dict(R("directory", 302, 4), nth=0), dict(R("directory", 302, 4, "abs"), nth=1)]},
    ]
    if not ctx.quick():
        rng = ctx.rng
        for i in range(14):
            kind = rng.choice(["directory", "directory", "newNonce"])
            hops = rng.choice([1, 2, 3, 4, 6, 7, 8, 9, 10, 11, 15, -1])
            scs.append({"name": "rnd%d-%s-%s" % (i, kind, hops), "n": rng.randint(1, 4), "period_s": rng.randint(1, 2),
                        "nonce_on_get": kind != "newNonce" and rng.random() < 0.5,
                        "rules": [R(kind, rng.choice([301, 302, 303, 307, 308]), hops,
                                    rng.choice(["rel", "relpath", "abs", "host"]), rng.choice(["fresh", "none"]))],
                        "fails": hops < 0 or hops >= 10})
    return [dict(s, idx=i) for i, s in enumerate(scs)]


def judge_c09(sc, log):
    reqs = [e for e in log if e["kind"] == "req"]
    arrivals = [e["t"] for e in reqs]
    p = sc["period_s"] * NS
    slack = int(0.4 * p)
    ev = [[str(t), str(t + slack)] for t in arrivals]
    v = vlib.model([{"op": "judge_c09", "limits_ns": [[sc["n"], str(p)]], "events": ev, "bound_ns": str(10 ** 15)}])[0]
    return reqs, arrivals, v


def c09_extend(ctx):
    describe("c09")
    vlib.build_helper()
    helper = mockca.Helper()
    root = os.path.join(vlib.BUILD, "scratch", "c09redir-%d" % os.getpid())
    shutil.rmtree(root, ignore_errors=True)
    scs = c09_scenarios(ctx)
    try:
        with concurrent.futures.ThreadPoolExecutor(max_workers=6) as ex:
            results = list(ex.map(lambda s: run_flow(s, root, helper), scs))
    finally:
        helper.close()
        shutil.rmtree(root, ignore_errors=True)
    for r in results:
        c09_judge_one(ctx, r)
    if results:
        r = results[0]
        ctx.sample({"redirect_flow": r["sc"]["name"],
                    "requests": [[e["rk"], e.get("via"), e["method"]] for e in r["log"] if e["kind"] == "req"][:8]})


def c09_judge_one(ctx, r):
    sc = r["sc"]
    reqs, arrivals, v = judge_c09(sc, r["log"])
    kinds = [e["rk"] if e["rk"] != "redirected" else "redirected:" + str(e.get("via")) for e in reqs]
    ctx.case({"redirect-flow": sc["name"]}, nontrivial=len(arrivals) > sc["n"])
    ctx.count("redir:requests", len(arrivals))
    ctx.count("redir:followed", sum(1 for e in reqs if e["rk"] == "redirected"))
    replay = {"part": "redirect:c09", "sc": sc}
    if not v["holds"]:
        n = sc["n"]
        gaps = [(arrivals[i + n] - arrivals[i]) / 1e9 for i in range(len(arrivals) - n)]
        i = min(range(len(gaps)), key=lambda k: gaps[k])
        ctx.violation("limit %d per %d s, flow %s: requests %d..%d (%s) reached the server within %.3f s" % (
            n, sc["period_s"], sc["name"], i, i + n, kinds[i:i + n + 1], gaps[i]),
            dict(replay, arrivals_ns=arrivals, kinds=kinds))
    chains = chains_of(r["log"])
    longest = max([len(c["reqs"]) for c in chains] or [0])
    hit = any(e.get("rule") for e in reqs)
    if not hit:
        ctx.broke("harness", "redirect flow %s: the redirect rule never fired" % sc["name"], replay)
    if longest > CHAIN_CAP or not r["done"]:
        # C09's own words do not demand an end; but a client that follows redirections for ever never
        # lets the attempt end (C07) and the model's bound does not hold of it
        ctx.broke("correspondence", "redirect flow %s: the attempt did not end (%d requests in one chain, loop bound "
                  "of the model %d); rc=%s" % (sc["name"], longest, gen_max_redirect(), r["rc"]),
                  dict(replay, chain=longest, stderr=r.get("stderr_tail")))
    elif r["success"] and not r.get("cut") and (not r["success"][0]) != bool(sc.get("fails")):
        ctx.count("redir:unexpected-outcome")
        ctx.broke("correspondence", "redirect flow %s: attempt %s where the model of `get` / `post` %s" % (
            sc["name"], "succeeded" if r["success"][0] else "failed", "fails" if sc.get("fails") else "succeeds"),
            dict(replay, stderr=r.get("stderr_tail")))
    ctx.count("redir:outcome:%s" % ("ok" if r["success"] and r["success"][0] else "failed" if r["success"] else "none"))
    correspond(ctx, r, "c09")
    return v


def gen_max_redirect():
    try:
        text = open(os.path.join(vlib.LEAN, "AcmedVerif", "Gen", "Consts.lean")).read()
        import re
        return int(re.search(r"def DEFAULT_HTTP_MAX_REDIRECT : Nat := (\d+)", text).group(1))
    except Exception:
        return -1


# ------------------------------------------------------------------------------------------ C04

def c04_scenarios(ctx):
    scs = []
    quick = ctx.quick()
    combos = [("newAccount", 307, "rel"), ("newAccount", 308, "abs"), ("newOrder", 307, "abs"), ("newOrder", 302, "rel"),
              ("challenge", 308, "rel"), ("challenge", 301, "abs"), ("finalize", 307, "host"), ("finalize", 308, "relpath"),
              ("authz", 307, "rel"), ("cert", 308, "abs"), ("order", 303, "rel")]
    if not quick:
        combos = [(k, s, t) for k in ("newAccount", "newOrder", "authz", "challenge", "order", "finalize", "cert")
                  for s in (301, 302, 303, 307, 308) for t in ("rel", "abs")]
    for kind, st, to in combos:
        scs.append({"name": "post-%s-%d-%s" % (kind, st, to), "nonce_on_get": (st + len(kind)) % 2 == 0,
                    "n_postop": 1 if quick else 2,
                    "rules": [{"kind": kind, "nth": 0, "answer": {"redirect": st, "hops": 1 if st != 308 else 2, "to": to}}]})
    return [dict(s, idx=i) for i, s in enumerate(scs)]


def c04_records(log, records_of):
    """The judge records of py/props/c04.py (`records_of`), with a POST that arrived at a redirected-to location
    counted as what it is: a POST to the resource it was redirected from."""
    return records_of([dict(e, rk=e.get("via", e["rk"])) if e.get("kind") == "req" and e.get("rk") == "redirected"
                       else e for e in log])


def c04_judge_one(ctx, r, records_of):
    sc = r["sc"]
    recs = c04_records(r["log"], records_of)
    v = vlib.model([{"op": "c04_judge", "log": [{k: x[k] for k in x if k != "_src"} for x in recs]}])[0]
    ctx.case({"redirect-flow": sc["name"]})
    ctx.count("redir:flows")
    ctx.count("redir:posts", len(recs))
    arrived = [e for e in r["log"] if e["kind"] == "req" and e["rk"] == "redirected"]
    ctx.count("redir:arrived-at-location", len(arrived))
    ctx.count("redir:post-arrived-at-location", sum(1 for e in arrived if e["method"] == "POST"))
    if not any(e.get("rule") for e in r["log"] if e["kind"] == "req"):
        ctx.broke("harness", "redirect flow %s: the redirect rule never fired" % sc["name"], {"part": "redirect:c04", "sc": sc})
    if not v["holds"]:
        bad = [i for i, ok in enumerate(v["req_ok"]) if not ok][0]
        x = recs[bad]
        src = x["_src"]
        ctx.violation("flow %s: POST #%d arriving at %s (%s) is not a valid, fresh, correctly bound JWS: %s" % (
            sc["name"], bad, src.get("path"), x["kind"],
            {k: x[k] for k in ("url_ok", "nonce_issued", "nonce_reused", "kid_ok", "sig_ok")}),
            {"part": "redirect:c04", "sc": sc, "record": {k: x[k] for k in x if k != "_src"},
             "request": {"path": src.get("path"), "protected_url": (src.get("hdr") or {}).get("url"),
                         "nonce": (src.get("hdr") or {}).get("nonce"), "via": src.get("via"), "t": src.get("t")},
             "earlier_use_of_that_nonce": [e.get("path") for e in r["log"] if e["kind"] == "req" and e.get("gidx") != src.get("gidx")
                                           and (e.get("hdr") or {}).get("nonce") == (src.get("hdr") or {}).get("nonce")]})
    correspond(ctx, r, "c04")
    return v


def c04_extend(ctx, helper, root, records_of):
    describe("c04")
    scs = c04_scenarios(ctx)
    d = os.path.join(root, "redirect")
    with concurrent.futures.ThreadPoolExecutor(max_workers=8) as ex:
        results = list(ex.map(lambda s: run_flow(s, d, helper), scs))
    for r in results:
        c04_judge_one(ctx, r, records_of)
    if results:
        r = results[0]
        ctx.sample({"redirect_flow": r["sc"]["name"],
                    "requests": [[e["rk"], e.get("via"), e["method"], e["path"]] for e in r["log"] if e["kind"] == "req"][:6]})


# ------------------------------------------------------------------------------------------ replay

def replay(ctx, records_of=None):
    with open(ctx.replay) as f:
        r = json.load(f)
    obj = r.get("replay") or r.get("context") or r
    gen.gen_consts()
    vlib.build_acmed()
    vlib.build_helper()
    ok, out = vlib.lake_build(["acmed_model"])
    if not ok:
        print(out[-2000:])
        return 2
    helper = mockca.Helper()
    root = os.path.join(vlib.BUILD, "scratch", "redirect-replay-%d" % os.getpid())
    shutil.rmtree(root, ignore_errors=True)
    try:
        res = run_flow(dict(obj["sc"], idx=0), root, helper)
    finally:
        helper.close()
        shutil.rmtree(root, ignore_errors=True)
    n0, b0 = len(ctx.violations), len(ctx.broken)
    if obj["part"] == "redirect:c09":
        v = c09_judge_one(ctx, res)
        reqs = [e for e in res["log"] if e["kind"] == "req"]
        t0 = reqs[0]["t"] if reqs else 0
        for e in reqs:
            print("%9.3f s  %-4s %s" % ((e["t"] - t0) / 1e9, e["method"], e["path"]))
    else:
        v = c04_judge_one(ctx, res, records_of)
        for e in res["log"]:
            if e["kind"] == "req" and e["method"] == "POST":
                print("POST %s  protected url=%s nonce=%s url_ok=%s nonce_reused=%s" % (
                    e["path"], (e.get("hdr") or {}).get("url"), (e.get("hdr") or {}).get("nonce"), e.get("url_ok"),
                    e.get("nonce_reused")))
    print(v)
    for d, _ in ctx.violations[n0:]:
        print("VIOLATION:", d)
    for w, d, _ in ctx.broken[b0:]:
        print(w + ":", d[:600])
    return 1 if (len(ctx.violations) > n0 or len(ctx.broken) > b0) else 0
