"""`vlib.probe` with a PER-CASE time-out, for probe ops that run child processes (hooks).

`vlib.probe` gives a whole batch one time-out and raises `subprocess.TimeoutExpired` when it passes: one op
that never returns (a hook that never sees the end of its standard input, a child that is waited for for
ever) then crashes the check (`evaluations=0`) instead of being reported on the case that caused it.

`probe(inputs, …, idle=…)` feeds the same line protocol, reads the results as they come, and when NO result
arrives for `idle` seconds (every result line is progress: a slow machine makes a batch slow, not stuck) it
kills the probe process, reports `{"hung": True, "waited_s": …}` for the op that was being executed and
resumes the batch after it — exactly what `vlib.probe` does for a process death (`{"died": True}`).  After the
first such op the batch waits at most 10 times what its slowest answered op took (at least 5 s).
"""
import json
import os
import queue
import subprocess
import threading
import time

import vlib


def _batch(cmd, inputs, env, cwd, idle, seen):
    """Returns (results so far, "done" | "hung" | "died", returncode, stderr tail); seen["slowest_s"]: the longest
    time any result took so far."""
    data = "".join(json.dumps(i) + "\n" for i in inputs).encode()
    p = subprocess.Popen(cmd, stdin=subprocess.PIPE, stdout=subprocess.PIPE, stderr=subprocess.PIPE, env=env, cwd=cwd)
    q = queue.Queue()
    err = []

    def feed():
        try:
            p.stdin.write(data)
            p.stdin.close()
        except OSError:
            pass

    def read_out():
        for ln in p.stdout:
            q.put(ln)
        q.put(None)

    def read_err():
        for ln in p.stderr:
            err.append(ln)
            del err[:-40]
    threads = [threading.Thread(target=f, daemon=True) for f in (feed, read_out, read_err)]
    for t in threads:
        t.start()
    outs, why = [], "died"
    t_last = time.time()
    while len(outs) < len(inputs):
        try:
            ln = q.get(timeout=idle)
        except queue.Empty:
            why = "hung"
            break
        if ln is None:
            break
        if outs:        # (the first result of a process includes its start)
            seen["slowest_s"] = max(seen["slowest_s"], time.time() - t_last)
        t_last = time.time()
        ln = ln.decode(errors="replace")
        if not ln.strip():
            continue
        try:
            outs.append(json.loads(ln))
        except Exception:
            outs.append({"garbled": ln[:200]})
    if len(outs) == len(inputs):
        why = "done"
    if why == "hung":
        p.kill()       # its children lose the other end of their pipes and end on their own
    try:
        rc = p.wait(timeout=30)
    except subprocess.TimeoutExpired:
        p.kill()
        rc = p.wait()
    for t in threads:
        t.join(timeout=5)
    return outs, why, rc, b"".join(err).decode(errors="replace")[-2000:]


def probe(inputs, binary=None, extra_env=None, idle=60.0):
    """Like `vlib.probe(inputs, binary, extra_env=…)`; an op that gives no result within `idle` seconds is
    reported as {"hung": True, …} and the batch goes on after it."""
    binary = binary or vlib.ACMED_DEV
    env = vlib.env_offline({"ACMED_VERIF_RUN": "lines"})
    if extra_env:
        env.update(extra_env)
    cwd = os.path.join(vlib.BUILD, "scratch", "cwd")
    os.makedirs(cwd, exist_ok=True)
    results = []
    todo = list(inputs)
    seen = {"slowest_s": 0.0}
    wait = idle
    while todo:
        got, why, rc, err = _batch([binary], todo, env, cwd, wait, seen)
        results.extend(got)
        if len(got) == len(todo):
            break
        if why == "hung":
            results.append({"hung": True, "waited_s": round(wait, 1), "stderr": err[-300:]})
            # after the first one (which had the whole of `idle`: that wait alone decides whether a tree fails) the
            # batch waits no longer than 10 times what the slowest answered op took on this machine just now (at
            # least 5 s): fifteen hanging cases must not cost fifteen times `idle`
            wait = min(idle, max(5.0, 10 * seen["slowest_s"]))
        else:
            results.append({"died": True, "rc": rc, "stderr": err[-300:]})
        todo = todo[len(got) + 1:]
    return results
