"""C06 extension: WHERE renew_delay / random_early_renew are configured.

The property speaks of "renew_delay" and "random_early_renew" of a certificate: the values its configuration
gives it — the certificate's own, else its endpoint's, else the [global] section's, else the documented defaults
(acmed.toml(5): 30d / 0).  Probe op `schedule` (props/c06.py, c06x.py part 1) builds the `Certificate` itself and
never goes through the configuration; this module adds the PLACEMENT of the two settings as a generator dimension:

(1) `extend`: generated configuration FILES through the real start-up (probe op `c06_cfg_schedule`:
    config::from_file + MainEventLoop::new) and the real `Certificate::schedule_renewal` of every certificate
    they declare, on certificates made by vhelper; judged by the SAME judge op `c06` (Spec.C06.holdsOutcome /
    freshOk) with delay / jitter = the most specific configured value, computed HERE.
      * family "delay": all 2^3 presence patterns of renew_delay over (global, endpoint, certificate) x every
        assignment of distinct values (1h, 2d, 40d: smaller and larger than the default) to the levels present
        x remaining life below all / between each two neighbouring values (the default included) / above all /
        60 s on either side of the effective one;
      * family "jitter": the same patterns for random_early_renew (2s, 60m, 10d), the certificate 20 days
        before its date: a jitter taken from the wrong level shows as a wait outside the admissible interval
        whenever the wrong value is the larger one (with probability >= 1 - 1/240);
      * family "cross": both settings placed at once, independently;
      * family "no-file": no certificate on disk: requested at once wherever the periods are set.
    Certificates of one file share an endpoint whenever their endpoint-level settings agree (a certificate
    with its own value next to one that inherits the endpoint's).  One file per [global] setting.
(2) `loop_scenarios`: daemon-loop scenarios of c06x.py (`short`, `installed-short`, `issued-fresh`,
    `installed-fresh`, with and without a neighbour) whose periods are set at global / endpoint / certificate
    level or at several levels with different values (`place`); `resolve` fills in `delay_s` / `rer_s`, which is
    all the judge of c06x.py looks at.
"""
import itertools
import os
import shutil

import cfggen
import mockca
import vlib
from ext import c06nb

NS = 10 ** 9
DAY = 86400
LEVELS = ("global", "endpoint", "certificate")
# acmed.toml(5), [global]: "renew_delay ... Default is 30d", "random_early_renew ... the time frame is set to 0"
DEFAULT = {"delay": 30 * DAY, "rer": 0}
KEY = {"delay": "renew_delay", "rer": "random_early_renew"}
# (seconds, spelling in the file): several units, all different from the defaults
DELAYS = [(3600, "1h"), (2 * DAY, "2d"), (40 * DAY, "5w5d")]
JITTERS = [(2, "2s"), (3600, "60m"), (10 * DAY, "10d")]
TEXT = dict(DELAYS + JITTERS)


def effective(place, which):
    """The most specific configured value (seconds)."""
    for lvl in reversed(LEVELS):
        if (place.get(lvl) or {}).get(which) is not None:
            return place[lvl][which]
    return DEFAULT[which]


def spell(secs):
    return TEXT.get(secs, "%ds" % secs)


def assignments(values):
    """Every presence pattern over the three levels x every assignment of distinct values to the levels present."""
    out = [{}]
    for k in (1, 2, 3):
        for lvls in itertools.combinations(LEVELS, k):
            for vals in itertools.permutations([v for v, _ in values], k):
                out.append(dict(zip(lvls, vals)))
    return out


def lives_for(a):
    """Remaining lives that tell the candidate values of one placement apart."""
    marks = sorted(set(a.values()) | {DEFAULT["delay"]})
    eff = effective({l: {"delay": v} for l, v in a.items()}, "delay")
    out = [marks[0] // 2] + [(x + y) // 2 for x, y in zip(marks, marks[1:])] + [marks[-1] + 10 * DAY]
    return out + [eff - 60, eff + 60]


def gen_items(rng, quick):
    items = []

    def add(family, delay_a, rer_a, life, present="both"):
        place = {l: {"delay": delay_a.get(l), "rer": rer_a.get(l)} for l in LEVELS}
        items.append({"family": family, "place": place, "life": life, "present": present})
    for a in assignments(DELAYS):
        for life in lives_for(a):
            add("delay", a, {}, life)
    for a in assignments(JITTERS):
        # its own renew_delay (2 days), 20 more days to live: the wait is 20 d less the jitter
        add("jitter", {"certificate": 2 * DAY}, a, 22 * DAY)
    for lo in ("endpoint", "global"):
        # a zero duration is a value that is GIVEN: the certificate's 0 wins over the endpoint's / global non-zero value
        add("delay", {"certificate": 0, lo: 2 * DAY}, {}, DAY)
        add("jitter", {"certificate": 2 * DAY}, {"certificate": 0, lo: 10 * DAY}, 22 * DAY)
    da, ra = assignments(DELAYS), assignments(JITTERS)
    for _ in range(40 if quick else 600):
        d, r = rng.choice(da), rng.choice(ra)
        # (global values from a short list, so that the number of files stays small)
        if "global" in d:
            d = dict(d, **{"global": DELAYS[len(items) % 2][0]})
        if "global" in r:
            r = dict(r, **{"global": JITTERS[1 + len(items) % 2][0]})
        eff = effective({l: {"delay": v} for l, v in d.items()}, "delay")
        add("cross", d, r, eff + rng.choice([-3600, 30, 20 * DAY, 40 * DAY]))
    for a in assignments(DELAYS)[::5]:
        add("no-file", a, {}, 90 * DAY, present=rng.choice(["neither", "no-cert", "no-key"]))
    for i, it in enumerate(items):
        it["idx"] = i
    return items


def level_settings(place, lvl):
    return {KEY[w]: spell(v) for w, v in (place.get(lvl) or {}).items() if v is not None}


def build_files(items, root, helper):
    """Groups the items by their [global] settings: one configuration file per group, one certificate per item.
    Returns [(cfg_path, [items])]; every item gets name / dns / made_at."""
    groups = {}
    for it in items:
        g = level_settings(it["place"], "global")
        groups.setdefault(tuple(sorted(g.items())), []).append(it)
    out = []
    for gi, (gkey, its) in enumerate(sorted(groups.items())):
        d = os.path.join(root, "g%d" % gi)
        certs_dir = os.path.join(d, "certs")
        os.makedirs(certs_dir, exist_ok=True)
        cfg = {"global": dict({"accounts_directory": os.path.join(d, "accounts"), "certificates_directory": certs_dir}, **dict(gkey)),
               "endpoint": [], "account": [{"name": "acc", "contacts": [{"mailto": "a@example.org"}]}], "certificate": []}
        eps = {}
        for it in its:
            es = level_settings(it["place"], "endpoint")
            ekey = tuple(sorted(es.items()))
            if ekey not in eps:
                eps[ekey] = "ep%d" % len(eps)
                # (never contacted: scheduling does not talk to the CA)
                cfg["endpoint"].append(dict({"name": eps[ekey], "url": "http://127.0.0.1:9/directory", "tos_agreed": True}, **es))
            it["name"] = "c%d" % it["idx"]
            it["dns"] = "p%d.example.org" % it["idx"]
            it["endpoint"] = eps[ekey]
            cfg["certificate"].append(dict({"name": it["name"], "endpoint": eps[ekey], "account": "acc", "key_type": "ecdsa_p256",
                                            "identifiers": [{"dns": it["dns"], "challenge": "http-01"}], "hooks": []},
                                           **level_settings(it["place"], "certificate")))
            # when the validity begins: every class of py/ext/c06nb.py in turn (the judge is given notAfter only)
            it["nb_class"], nb = c06nb.by_index(it["idx"])
            it["not_before_offset"] = -3600 if nb is None else nb
            r = helper.call({"op": "selfsigned", "dns": [it["dns"]], "ips": [], "not_after_offset": it["life"],
                             "not_before_offset": it["not_before_offset"], "type": "ecdsa-p256"})
            if "err" in r:
                raise RuntimeError("vhelper selfsigned: %s" % r)
            base = os.path.join(certs_dir, it["name"] + "_ecdsa-p256")
            if it["present"] in ("both", "no-key"):
                with open(base + ".crt.pem", "w") as f:
                    f.write(r["cert_pem"])
            if it["present"] in ("both", "no-cert"):
                with open(base + ".pk.pem", "w") as f:
                    f.write(r["key_pem"])
            it["made_at"] = r["now_unix"]
        out.append((cfggen.write(os.path.join(d, "acmed.toml"), cfg), its))
    return out


def describe(place):
    return ", ".join("%s: %s" % (lvl, " ".join("%s=%s" % (KEY[w], spell(v)) for w, v in place[lvl].items() if v is not None) or "-")
                     for lvl in LEVELS)


def check_items(ctx, items, root, helper, tag="p:"):
    files = build_files(items, root, helper)
    outs = vlib.probe([{"op": "c06_cfg_schedule", "path": p} for p, _ in files], timeout=600)
    pairs = []
    for (p, its), o in zip(files, outs):
        sched = ((o or {}).get("loaded") or {}).get("schedules") if isinstance(o, dict) else None
        if sched is None:
            robj = {"part": "p:place", "items": [strip(it) for it in its[:40]], "impl": o}
            if isinstance(o, dict) and ("panic" in o or o.get("died")):
                ctx.violation("the real start-up + schedule_renewal crashed on a configuration that sets the renewal periods at "
                              "several levels: %s" % str(o)[:300], robj)
            else:
                ctx.broke("probe", "c06_cfg_schedule did not load a generated configuration: %s" % str(o)[:300], robj)
            continue
        by_name = {s.get("name"): s for s in sched}
        for it in its:
            pairs.append((it, by_name.get(it["name"])))
    jin = []
    for it, s in pairs:
        s = s or {}
        now = s.get("now_unix", it["made_at"])
        cert = {"sans": [it["dns"]], "not_after_in": it["life"] - (now - it["made_at"])} if it["present"] in ("both", "no-key") else None
        it["delay_s"], it["rer_s"] = effective(it["place"], "delay"), effective(it["place"], "rer")
        jin.append({"op": "c06", "disk": {"key_file": it["present"] in ("both", "no-cert"), "cert_file": it["present"] in ("both", "no-key"),
                                           "cert": cert},
                    "ids": [it["dns"]], "delay_ns": str(it["delay_s"] * NS), "rer_ns": str(it["rer_s"] * NS),
                    "slack_ns": str(2 * NS), "observed_ns": s.get("ok_ns")})
    verdicts = vlib.model(jin) if jin else []
    for (it, s), j, v in zip(pairs, jin, verdicts):
        place = it["place"]
        ctx.case({"place": place, "life": it["life"], "present": it["present"]}, nontrivial=it["present"] == "both")
        ctx.traces += 1
        ctx.count(tag + "family:" + it["family"])
        c06nb.count(ctx, tag, it, ":family=" + it["family"])
        for w in ("delay", "rer"):
            pat = "".join("GEC"[i] if place[l][w] is not None else "-" for i, l in enumerate(LEVELS))
            ctx.count(tag + "%s-set-at:%s" % (KEY[w], pat))
            held = [l for l in LEVELS if place[l][w] is not None]
            if len(held) > 1:
                ctx.count(tag + "%s:smallest-at:%s" % (KEY[w], min(held, key=lambda l: place[l][w])))
        if it["family"] == "delay":
            cands = sorted(set(place[l]["delay"] for l in LEVELS if place[l]["delay"] is not None) | {DEFAULT["delay"]})
            ctx.count(tag + "life:%s" % ("below-all" if it["life"] < cands[0] else "above-all" if it["life"] > cands[-1] else "between"))
        robj = {"part": "p:place", "items": [strip(it)], "impl": s, "judge_in": j, "verdict": v}
        if not s or not ("ok_ns" in s or "err" in s):
            ctx.broke("probe", "c06_cfg_schedule reports nothing for certificate %s" % it["name"], robj)
            continue
        ctx.count(tag + ("outcome:error" if "err" in s else "outcome:now" if s.get("ok_ns") == "0" else "outcome:wait"))
        failed = False
        if not v.get("holds"):
            failed = True
            ctx.violation("a certificate whose periods come from the configuration file (%s; most specific: renew_delay %d s, "
                          "random_early_renew %d s) with %d s left: schedule_renewal returned %s; the property allows [%s, %s] "
                          "(the Certificate built by the real start-up carries renew_delay %s s, random_early_renew %s s)" % (
                              describe(place), it["delay_s"], it["rer_s"], j["disk"]["cert"]["not_after_in"] if j["disk"]["cert"] else -1,
                              s.get("ok_ns", s.get("err")), v.get("model_lo"), v.get("model_hi"), s.get("renew_delay_s"),
                              s.get("random_early_renew_s")), robj)
        elif not v.get("fresh_ok", True):
            failed = True
            ctx.violation("a fresh covering certificate is renewed at once (%s)" % describe(place), robj)
        # what the real start-up put into the Certificate (reported by the probe) against the most specific value:
        # a difference that did not show in the judged wait (e.g. a SMALLER jitter range) still means the reference
        # of this generator and the code disagree on what the configuration says
        if not failed and (s.get("renew_delay_s") != str(it["delay_s"]) or s.get("random_early_renew_s") != str(it["rer_s"])):
            ctx.disagreements += 1
            ctx.broke("correspondence", "configuration (%s): the most specific values are renew_delay %d s / random_early_renew "
                      "%d s, the real start-up built a Certificate with %s s / %s s" % (
                          describe(place), it["delay_s"], it["rer_s"], s.get("renew_delay_s"), s.get("random_early_renew_s")), robj)
    for it, s in pairs[:1]:
        ctx.sample({"p-place": describe(it["place"]), "life_s": it["life"], "impl": s})


def strip(it):
    return {k: it[k] for k in ("family", "place", "life", "present", "idx", "nb_class", "not_before_offset") if k in it}


def extend(ctx, helper, root):
    items = gen_items(ctx.rng, ctx.quick())
    check_items(ctx, items, root, helper)


# ---------------------------------------------------------------------------------------------------------
# (2) the daemon's loop: scenarios of c06x.py with placed periods

def resolve(sc):
    """Fills in what the judge of c06x.py reads: `delay_s` / `rer_s` (the watched certificate), `nbr_delay_s` (a
    neighbour on the same endpoint inherits the endpoint's / the global value: it sets nothing itself)."""
    place = sc.get("place")
    if not place:
        return sc
    place = {l: dict({"delay": None, "rer": None}, **(place.get(l) or {})) for l in LEVELS}
    sc = dict(sc, place=place, delay_s=effective(place, "delay"), rer_s=effective(place, "rer"))
    sc["nbr_delay_s"] = effective(dict(place, certificate={}), "delay")
    sc["nbr_rer_s"] = effective(dict(place, certificate={}), "rer")
    return sc


def settings_for(sc, lvl):
    """TOML members of one level for a loop scenario ({} without placement)."""
    return level_settings(sc["place"], lvl) if sc.get("place") else {}


def loop_scenarios(ctx):
    """Placed variants of the loop scenarios (values in seconds; a level not named sets nothing)."""
    H = 3600
    scs = [
        # only the endpoint / only [global] set the periods: 13 s of life, due after 8 s
        {"kind": "short", "valid_secs": 13, "watch_s": 14, "place": {"endpoint": {"delay": 5}, "global": {"rer": 0}}},
        # certificate 5 s, its endpoint one hour, [global] 0: the certificate's value counts (due after 8 s, not at once)
        {"kind": "short", "valid_secs": 13, "watch_s": 14,
         "place": {"certificate": {"delay": 5, "rer": 0}, "endpoint": {"delay": H, "rer": H}, "global": {"delay": 0}}},
        # the smaller value on the endpoint: certificate 8 s (due after 6 s), endpoint 0 (would be due at 14 s)
        {"kind": "short", "valid_secs": 14, "watch_s": 13, "place": {"certificate": {"delay": 8}, "endpoint": {"delay": 0, "rer": 0}},
         "neighbour": "same-account"},
        # endpoint over [global]: installed with 11 s of life, endpoint 4 s (due after 7 s), [global] one hour (at once)
        {"kind": "installed-short", "pair_secs": 11, "watch_s": 13, "valid_secs": 90 * DAY,
         "place": {"endpoint": {"delay": 4, "rer": 0}, "global": {"delay": H, "rer": 2 * H}}},
        # fresh for its own renew_delay (1 day), inside the endpoint's (100 days): not requested again
        {"kind": "issued-fresh", "watch_s": 6, "valid_secs": 90 * DAY,
         "place": {"certificate": {"delay": DAY}, "endpoint": {"delay": 100 * DAY}}},
        {"kind": "installed-fresh", "watch_s": 6, "pair_secs": 90 * DAY, "valid_secs": 90 * DAY,
         "place": {"endpoint": {"delay": DAY, "rer": 60}, "global": {"delay": 100 * DAY, "rer": 80 * DAY}}, "neighbour": "other-account"},
        # issued by a CA whose clock runs two hours ahead (not valid yet for the local clock), the endpoint's renew_delay
        # (10 days) inside [global]'s (100 days): fresh, not requested again
        {"kind": "issued-fresh", "watch_s": 6, "valid_secs": 90 * DAY, "valid_from_offset": 2 * H,
         "place": {"endpoint": {"delay": 10 * DAY}, "global": {"delay": 100 * DAY}}},
    ]
    if not ctx.quick():
        for _ in range(6):
            d, other = ctx.rng.randint(2, 6), ctx.rng.choice([0, H])
            lv = ctx.rng.sample(LEVELS, 2)
            hi, lo = (lv[0], lv[1]) if LEVELS.index(lv[0]) > LEVELS.index(lv[1]) else (lv[1], lv[0])
            scs.append({"kind": "short", "valid_secs": d + ctx.rng.randint(7, 10), "watch_s": 30,
                        "place": {hi: {"delay": d, "rer": ctx.rng.choice([0, 2])}, lo: {"delay": other, "rer": H}}})
    return [resolve(s) for s in scs]


def replay(ctx, obj):
    vlib.build_acmed()
    vlib.build_helper()
    helper = mockca.Helper()
    root = os.path.join(vlib.BUILD, "scratch", "c06place-replay-%d" % os.getpid())
    shutil.rmtree(root, ignore_errors=True)
    n0 = len(ctx.violations), len(ctx.broken)
    try:
        items = [dict(it, idx=it.get("idx", i)) for i, it in enumerate(obj["items"])]
        check_items(ctx, items, root, helper)
    finally:
        helper.close()
        shutil.rmtree(root, ignore_errors=True)
    for d, _ in ctx.violations[n0[0]:]:
        print(d)
    for w, d, _ in ctx.broken[n0[1]:]:
        print("BROKEN", w, d)
    bad = len(ctx.violations) > n0[0] or len(ctx.broken) > n0[1]
    print("replay: %s" % ("the property fails on this input" if bad else "the property holds on this input"))
    return 1 if bad else 0
