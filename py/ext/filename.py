"""C02 / C03: the FILE NAME the storage layer computes (storage.rs `get_file_full_path`).

The storage model (Model/Storage.lean) takes the file name as an input; the code renders the MiniJinja template
`file_name_format` (built-in default: DEFAULT_CERT_FORMAT) over {name, key_type, file_type, ext} with the custom filter
`rev_labels` (template.rs).  Model/FileName.lean models the SUBSET {literal text, `{{ v }}`, `{{ v | rev_labels }}`};
its tokenizer answers "outside the subset" for everything else.  This module

(A) correspondence: formats drawn from the subset grammar (random token sequences, white space variations inside the
    braces, rev_labels over names with 0..5 dots, empty labels, leading / trailing dots, non-ASCII, '/', '_'), every key
    type the build knows (names printed by the real `KeyType::to_string`), extensions absent / "pem" / "der" / equal /
    different: the REAL `get_file_full_path` (probe op `file_names`) for PrivateKey and Certificate against
    `FileName.pkFileName` / `certFileName` (driver op `filename_render`), exact equality of both names; and the real
    `rev_labels` filter alone (`rev_labels_real`) against `FileName.revLabels`;
(B) a malformed / out-of-subset stream (other filters, `{% %}`, comments, unknown variables, white space control,
    unbalanced braces, random damage to in-subset formats): the only demand is "the model says subset = false, or model
    and code agree exactly";
(C) a JUDGE on real behaviour: with the built-in default format (not passed by the check: the probe's FileManager
    falls back on the crate's DEFAULT_CERT_FORMAT, which is also reported and counted) the private-key path and the
    certificate path differ and neither rendering fails, for every generated (name, key type, extensions) —
    C02 "stored files hold exactly what was issued" and C03 need the two files to be two files.
"""
import vlib

VARS = ("name", "key_type", "file_type", "ext")
KT_CANDIDATES = ["rsa2048", "rsa4096", "ecdsa-p256", "ecdsa-p384", "ecdsa-p521", "ed25519", "ed448"]
WS = ["", " ", " ", "  ", "\t", "\n", " \r\n ", "   "]
LIT_ALPHABET = list("abcXYZ019_-.. ,;:@+=~#%|!$&()[]'\"\\/") + ["é", "ß", "日", "本", "Ж"]
LABELS = ["example", "org", "com", "www", "mx1", "a", "b", "xn--bcher-kva", "sub_domain", "UPPER", "été",
          "日本", "a/b", "/", "..", "_", "-", "with space", "0", "127"]


def expr(rng, v, rev):
    s = "{{" + rng.choice(WS) + v + rng.choice(WS)
    if rev:
        s += "|" + rng.choice(WS) + "rev_labels" + rng.choice(WS)
    return s + "}}"


def gen_literal(rng):
    return "".join(rng.choice(LIT_ALPHABET) for _ in range(rng.choice([1, 1, 2, 3, 5, 9])))


def gen_format(rng):
    """(text, shape) of one in-subset format."""
    k = rng.random()
    if k < 0.12:
        return "{{ name }}_{{ key_type }}.{{ file_type }}.{{ ext }}", "default-text"
    if k < 0.2:
        return "{{ name | rev_labels }}_{{ key_type }}.{{ file_type }}.{{ ext }}", "default-with-rev"
    n = rng.choice([0, 1, 1, 2, 3, 4, 5, 7, 10])
    parts = []
    for _ in range(n):
        r = rng.random()
        if r < 0.35:
            parts.append(gen_literal(rng))
        elif r < 0.7:
            parts.append(expr(rng, rng.choice(VARS), False))
        else:
            parts.append(expr(rng, rng.choice(VARS[:1] * 3 + VARS), True))
    return "".join(parts), "random-%d" % min(n, 5)


def gen_name(rng):
    k = rng.random()
    if k < 0.08:
        return rng.choice(["", ".", "..", "...", ".a", "a.", ".a.", "a..b", "/", "a/b.c", "../x.y", "_"])
    dots = rng.choice([0, 1, 1, 2, 2, 3, 4, 5])
    labs = [rng.choice(LABELS + [""] if rng.random() < 0.15 else LABELS) for _ in range(dots + 1)]
    s = ".".join(labs)
    if rng.random() < 0.1:
        s = "." + s
    if rng.random() < 0.1:
        s += "."
    return s


def gen_exts(rng):
    k = rng.choice(["none", "pem", "der", "equal", "different", "pk-only", "cert-only"])
    pool = ["pem", "der", "crt", "key", "tar.gz", "", "p.k", "x/y", "é"]
    if k == "none":
        return None, None, k
    if k in ("pem", "der"):
        return k, k, k
    if k == "equal":
        e = rng.choice(pool)
        return e, e, k
    if k == "different":
        a = rng.choice(pool)
        b = rng.choice([p for p in pool if p != a])
        return a, b, k
    if k == "pk-only":
        return rng.choice(pool), None, k
    return None, rng.choice(pool), k


MALFORMED = [
    "{{ name | upper }}", "{{ name | lower }}.{{ ext }}", "{{ name | rev_labels | rev_labels }}", "{{ name | rev_labels() }}",
    "{{ name|replace('.', '_') }}", "{% if name %}x{% endif %}", "{% for c in name %}{{ c }}{% endfor %}", "{# c #}{{ name }}",
    "{{ unknown }}", "{{ names }}", "{{ NAME }}", "{{ name.x }}", "{{ name[0] }}", "{{ name ~ ext }}", "{{ 'a' }}", "{{ 1 + 1 }}",
    "{{- name -}}", "{{ name -}} x", "x {{- name }}", "{{ name", "{{ name }", "{ name }}", "{ {name} }", "{{ name }}{{", "}}", "}",
    "{", "a}b", "a{b", "{{}}", "{{ }}", "{{ | rev_labels }}", "{{ name | }}", "{{ name || rev_labels }}", "{{ name rev_labels }}",
    "{{ name }}\n", "{{ name }}\r\n", "a\nb{{ name }}", "{{ name }}}", "{{{ name }}", "{{ file_type | rev_labels | upper }}",
    "{{ ext | default('x') }}", "{{ name | rev_labels }}{% raw %}{{ x }}{% endraw %}", "{{ key_type | length }}",
    "{{ name | rev_labels_ }}", "{{ name_ }}", "{{ name }}", "{{ true }}", "{{ none }}", "{{ name if ext else ext }}",
]


def gen_malformed(rng):
    if rng.random() < 0.5:
        return rng.choice(MALFORMED), "listed"
    t, _ = gen_format(rng)
    for _ in range(rng.choice([1, 1, 2])):
        i = rng.randrange(len(t) + 1)
        c = rng.choice(list("{}%#|-~'\n\r.(") + ["{{", "}}", "{%", "%}", "{#", " upper ", "| upper", "x"])
        t = (t[:i] + c + t[i:]) if rng.random() < 0.7 or not t else (t[:i] + t[i + 1:])
    return t, "damaged"


def key_types():
    r = vlib.probe([{"op": "key_type_names", "candidates": KT_CANDIDATES}])[0]
    return list(r.get("names") or [])


def probe_op(c):
    op = {"op": "file_names", "name": c["name"], "key_type": c["key_type"], "dir": c.get("dir", "/certs")}
    if c.get("format") is not None:
        op["name_format"] = c["format"]
    if c.get("pk_ext") is not None:
        op["pk_file_ext"] = c["pk_ext"]
    if c.get("cert_ext") is not None:
        op["cert_file_ext"] = c["cert_ext"]
    return op


def model_op(c, fmt):
    return {"op": "filename_render", "format": fmt, "name": c["name"], "key_type": c["key_type"],
            "pk_ext": c.get("pk_ext"), "cert_ext": c.get("cert_ext")}


def real_names(r):
    pk, crt = r.get("pk") or {}, r.get("crt") or {}
    return pk.get("name"), crt.get("name"), pk.get("error") or crt.get("error")


def check_cases(ctx, cases):
    """cases: dicts {stream: subset|malformed|default, format (None = built-in), name, key_type, pk_ext, cert_ext, shape}."""
    if not cases:
        return
    reals = vlib.probe([probe_op(c) for c in cases])
    default = next((r.get("default_format") for r in reals if isinstance(r, dict) and r.get("default_format")), None)
    models = vlib.model([model_op(c, c["format"] if c.get("format") is not None else (default or "")) for c in cases])
    for c, r, m in zip(cases, reals, models):
        stream = c["stream"]
        replay_obj = {"kind": "filename", "case": c, "real": r, "model": m}
        if not isinstance(r, dict) or "pk" not in r:
            ctx.broke("correspondence:filename", "the probe op file_names gave no answer: %r" % (r,), replay_obj)
            continue
        pk, crt, err = real_names(r)
        ctx.case({"fn": [c.get("format"), c["name"], c["key_type"], c.get("pk_ext"), c.get("cert_ext")]},
                 nontrivial=stream != "malformed" or bool(m.get("subset")))
        ctx.count("FN:%s:cases" % stream)
        ctx.count("FN:%s:shape:%s" % (stream, c.get("shape")))
        if stream != "malformed":
            ctx.count("FN:ext:%s" % c.get("ext_kind"))
            ctx.count("FN:key_type:%s" % c["key_type"])
            ctx.count("FN:name:dots=%d" % min(c["name"].count("."), 6))
            if any(ord(ch) > 127 for ch in c["name"]):
                ctx.count("FN:name:non-ascii")
            if "/" in c["name"]:
                ctx.count("FN:name:with-slash")
            if "" in c["name"].split(".") and c["name"]:
                ctx.count("FN:name:empty-label")
        if m.get("subset"):
            ctx.count("FN:%s:model-in-subset" % stream)
            ctx.count("FN:tokens=%d" % min(m.get("n_tokens", 0), 8))
            if m.get("n_rev"):
                ctx.count("FN:formats-with-rev_labels")
            if err is not None or pk != m.get("pk") or crt != m.get("crt"):
                ctx.disagreements += 1
                ctx.broke("correspondence:filename",
                          "format %r name %r key_type %r pk_ext %r cert_ext %r: get_file_full_path gives pk=%r crt=%r%s, "
                          "Model/FileName gives pk=%r crt=%r" % (
                              c.get("format") if c.get("format") is not None else "(built-in) %s" % default, c["name"],
                              c["key_type"], c.get("pk_ext"), c.get("cert_ext"), pk, crt,
                              " (error: %s)" % err if err else "", m.get("pk"), m.get("crt")), replay_obj)
            elif pk == crt:
                ctx.count("FN:%s:pk-and-crt-names-collide(model agrees)" % stream)
        else:
            ctx.count("FN:%s:model-outside-subset" % stream)
            ctx.count("FN:%s:outside-subset:code-%s" % (stream, "rejects" if err else "renders"))
            if stream == "subset":
                ctx.disagreements += 1
                ctx.broke("correspondence:filename", "the tokenizer of Model/FileName rejects the generated in-subset format %r"
                          % c.get("format"), replay_obj)
        if stream == "default":
            # JUDGE on the real behaviour
            if default is None or c.get("format") is not None:
                ctx.broke("correspondence:filename", "the probe does not report the built-in default format", replay_obj)
                continue
            ctx.count("FN:default:format=%s" % default)
            pkp, crtp = (r.get("pk") or {}).get("path"), (r.get("crt") or {}).get("path")
            if err is not None:
                ctx.violation("file name: with the built-in format %r the name of certificate %r (%s, pk_file_ext=%r, "
                              "cert_file_ext=%r) cannot be computed: %s" % (default, c["name"], c["key_type"], c.get("pk_ext"),
                                                                           c.get("cert_ext"), err), replay_obj)
            elif pkp == crtp or pk == crt:
                ctx.violation("file name: with the built-in format %r the private key and the certificate %r (%s, "
                              "pk_file_ext=%r, cert_file_ext=%r) are stored in the SAME file %r: one overwrites the other"
                              % (default, c["name"], c["key_type"], c.get("pk_ext"), c.get("cert_ext"), pkp), replay_obj)
            else:
                ctx.count("FN:default:pk-path-differs-from-crt-path")
                ctx.sample({"filename": {"name": c["name"], "key_type": c["key_type"], "pk": pkp, "crt": crtp}}, limit=8)


def check_rev(ctx, texts):
    reals = vlib.probe([{"op": "rev_labels_real", "s": s} for s in texts])
    models = vlib.model([{"op": "rev_labels", "s": s} for s in texts])
    for s, r, m in zip(texts, reals, models):
        ctx.case({"rev": s}, nontrivial=len(set(s.split("."))) > 1)
        ctx.count("FN:rev_labels:cases")
        if s != ".".join(reversed(s.split("."))):
            ctx.count("FN:rev_labels:changes-the-text")
        if r.get("out") != m.get("out"):
            ctx.disagreements += 1
            ctx.broke("correspondence:filename", "rev_labels(%r): the filter of template.rs gives %r, FileName.revLabels %r"
                      % (s, r.get("out", r), m.get("out")), {"kind": "filename-rev", "s": s, "real": r, "model": m})


def gen_case(rng, kts, stream):
    pk_ext, cert_ext, ek = gen_exts(rng)
    c = {"stream": stream, "name": gen_name(rng), "key_type": rng.choice(kts), "pk_ext": pk_ext, "cert_ext": cert_ext,
         "ext_kind": ek}
    if stream == "subset":
        c["format"], c["shape"] = gen_format(rng)
    elif stream == "malformed":
        c["format"], c["shape"] = gen_malformed(rng)
    else:
        c["format"], c["shape"] = None, "built-in"
    return c


def extend(ctx, helper=None):
    quick = ctx.quick()
    rng = ctx.rng
    kts = key_types()
    ctx.count("FN:key-types-of-the-build", len(kts))
    if len(kts) < 5:
        ctx.broke("correspondence:filename", "the probe lists %r as key types" % (kts,), None)
        return 0
    n_sub, n_mal, n_def, n_rev = (450, 200, 200, 150) if quick else (12000, 5000, 4000, 3000)
    cases = [gen_case(rng, kts, "subset") for _ in range(n_sub)]
    cases += [gen_case(rng, kts, "malformed") for _ in range(n_mal)]
    # the judge: every key type × every kind of extension pair at least once, then random
    for kt in kts:
        for ek in (("pem", "pem"), (None, None), ("der", "der"), ("pem", "der"), ("", ""), ("crt", "pk"), ("pk", "crt")):
            cases.append({"stream": "default", "format": None, "shape": "built-in", "name": gen_name(rng), "key_type": kt,
                          "pk_ext": ek[0], "cert_ext": ek[1], "ext_kind": "grid"})
    cases += [gen_case(rng, kts, "default") for _ in range(n_def)]
    check_cases(ctx, cases)
    check_rev(ctx, [gen_name(rng) for _ in range(n_rev)] + ["", ".", "a", "a.b", "a.b.c", "mx1.example.org", "a..b", ".a", "a."])
    ctx.notes.append("FN (py/ext/filename.py): %d formats of the modelled template subset and %d malformed / out-of-subset "
                     "formats through the real get_file_full_path and Model/FileName (names of the private-key and of the "
                     "certificate file compared exactly whenever the model's tokenizer accepts the format); %d "
                     "configurations with the built-in format judged: the two paths differ; rev_labels alone on %d names"
                     % (n_sub, n_mal, len(cases) - n_sub - n_mal, n_rev + 9))
    return len(cases)


def replay(ctx, obj):
    if obj.get("kind") == "filename-rev":
        check_rev(ctx, [obj["s"]])
    else:
        check_cases(ctx, [obj["case"]])
