"""Shared by the C16 / C17 input-space extensions (`ext/auditd_c16.py`, `ext/auditd_c17.py`): a tacd
runner that can give the two values in every way tacd(8) allows (long / short options, files, FIFOs,
standard input written in pieces), hand-built ClientHellos, and further connection behaviours.
Nothing here judges anything; `tacdrun.py` is used unchanged."""
import os
import socket
import ssl
import struct
import subprocess
import tempfile
import threading
import time

import tacdrun
import vlib

ACME = tacdrun.ACME_ALPN


class Tacd(tacdrun.Tacd):
    """`argv`: the value / algorithm options exactly as they go on the command line.
    `stdin_parts`: pieces written to standard input one after the other, `stdin_gap` seconds apart,
    then EOF (None: standard input is /dev/null).  `fifos`: {path: text} — named pipes the caller
    created; each gets a writer that waits for tacd to open it."""

    def __init__(self, binary, listen, argv, short=False, stdin_parts=None, stdin_gap=0.3, fifos=None,
                 cwd=None, nofile=None):
        self.port = None
        if listen is None:
            self.port = tacdrun.free_port()
            listen = "127.0.0.1:%d" % self.port
        self.listen = listen
        cmd = [binary, "-f", "--no-pid-file", "-l" if short else "--listen", listen, "--log-stderr",
               "--log-level", "debug"] + list(argv)
        self.cmd = cmd
        self.errf = tempfile.TemporaryFile(dir=vlib.BUILD)
        pre = None
        if nofile:
            import resource

            def pre(n=nofile):
                resource.setrlimit(resource.RLIMIT_NOFILE, (n, n))
        self.p = subprocess.Popen(cmd, stdin=subprocess.PIPE if stdin_parts is not None else subprocess.DEVNULL,
                                  stdout=subprocess.DEVNULL, stderr=self.errf, cwd=cwd,
                                  env=vlib.env_offline(), preexec_fn=pre)
        self._threads = []
        if stdin_parts is not None:
            t = threading.Thread(target=self._feed_stdin, args=(list(stdin_parts), stdin_gap), daemon=True)
            t.start()
            self._threads.append(t)
        for path, text in (fifos or {}).items():
            t = threading.Thread(target=self._feed_fifo, args=(path, text), daemon=True)
            t.start()
            self._threads.append(t)

    def _feed_stdin(self, parts, gap):
        try:
            for k, part in enumerate(parts):
                if k:
                    time.sleep(gap)
                self.p.stdin.write(part.encode())
                self.p.stdin.flush()
            self.p.stdin.close()
        except Exception:
            pass

    def _feed_fifo(self, path, text):
        # open for writing fails with ENXIO until the reader has opened the pipe: poll, never block for good
        t0 = time.time()
        while time.time() - t0 < 20 and self.p.poll() is None:
            try:
                fd = os.open(path, os.O_WRONLY | os.O_NONBLOCK)
            except OSError:
                time.sleep(0.02)
                continue
            try:
                os.write(fd, text.encode())
            finally:
                os.close(fd)
            return


def log_so_far(t):
    """tacd's log while it runs, read through a SEPARATE open file description (`Tacd.stderr()` seeks the
    descriptor the child writes through: the child's next lines would land in the middle of the file)."""
    try:
        with open("/proc/self/fd/%d" % t.errf.fileno(), "rb") as f:
            return f.read().decode(errors="replace")
    except (OSError, ValueError):
        return ""


def _socket_inodes(pid):
    out = set()
    try:
        for fd in os.listdir("/proc/%d/fd" % pid):
            try:
                ln = os.readlink("/proc/%d/fd/%s" % (pid, fd))
            except OSError:
                continue
            if ln.startswith("socket:["):
                out.add(ln[8:-1])
    except OSError:
        pass
    return out


def owns_listener(t):
    """Is it THIS process that listens on the address the harness chose?  Decided from the kernel's tables
    (/proc/net/tcp*, /proc/net/unix against the socket inodes of the process), never from log wording."""
    mine = _socket_inodes(t.p.pid)
    if not mine:
        return False
    try:
        if t.listen.startswith("unix:"):
            path = t.listen[5:]
            for ln in open("/proc/net/unix").read().splitlines()[1:]:
                f = ln.split()
                if len(f) >= 8 and f[7] == path and f[6] in mine:
                    return True
            return False
        port = int(t.listen.rsplit(":", 1)[1])
        for tab in ("/proc/net/tcp", "/proc/net/tcp6"):
            try:
                rows = open(tab).read().splitlines()[1:]
            except OSError:
                continue
            for ln in rows:
                f = ln.split()
                if len(f) > 9 and f[3] == "0A" and int(f[1].rsplit(":", 1)[1], 16) == port and f[9] in mine:
                    return True
    except (OSError, ValueError):
        pass
    return False


def wait_own(t, timeout=20.0):
    """`Tacd.wait_listening`, but only satisfied by THIS tacd: the port the harness chose is not held while
    tacd makes its key (seconds for RSA-4096), so another server — of this very run — may be given the same
    port and answer there first.  Whether it is this process that listens is read from the kernel's socket
    tables (`owns_listener`); if the bind fails tacd exits (see `port_retry`)."""
    t0 = time.time()
    while time.time() - t0 < timeout:
        if t.p.poll() is not None:
            return False
        if owns_listener(t) and t.wait_listening(timeout=0.5):
            time.sleep(0.05)
            # gone already?  Only a lost race for the port is the harness's business (False -> `port_retry`);
            # a tacd that dies of the probe connection itself has started, and the history will show it dead
            return not (t.p.poll() is not None and "ddress already in use" in log_so_far(t))
        time.sleep(0.03)
    return False


def port_retry(run, stderr_of, tries=4):
    """`run()` again while tacd's log says that the TCP port the harness chose was taken by another program
    in the meantime (bind: "Address already in use") — a race of the harness, not a behaviour of tacd."""
    res = None
    for _ in range(tries):
        res = run()
        if "ddress already in use" not in (stderr_of(res) or ""):
            break
    return res


# ----------------------------------------------------------------------------------------------------
# handshakes

def handshake(listen, alpn, server_name="example.org", timeout=4.0, max_tls12=False, legacy=False,
              verify=False):
    """`tacdrun.handshake` plus: `legacy` = a client that speaks TLS 1.0 / 1.1 only; `verify` = a client
    that insists on a trusted chain (it aborts the handshake with an alert after the ServerHello)."""
    if not legacy and not verify:
        return tacdrun.handshake(listen, alpn, server_name=server_name, timeout=timeout, max_tls12=max_tls12)
    ctx = ssl.SSLContext(ssl.PROTOCOL_TLS_CLIENT)
    ctx.check_hostname = False
    ctx.verify_mode = ssl.CERT_REQUIRED if verify else ssl.CERT_NONE
    if legacy:
        try:
            ctx.set_ciphers("DEFAULT:@SECLEVEL=0")
            ctx.minimum_version = ssl.TLSVersion.TLSv1
            ctx.maximum_version = ssl.TLSVersion.TLSv1_1
        except (ValueError, ssl.SSLError):
            pass
    if alpn is not None:
        ctx.set_alpn_protocols(alpn)
    try:
        raw = tacdrun.connect(listen, timeout)
    except OSError as e:
        return {"ok": False, "error": "connect: %s" % e}
    try:
        s = ctx.wrap_socket(raw, server_hostname=server_name)
        res = {"ok": True, "alpn": s.selected_alpn_protocol(), "tls": s.version()}
        s.close()
        return res
    except (ssl.SSLError, OSError, ValueError) as e:
        try:
            raw.close()
        except Exception:
            pass
        return {"ok": False, "error": "%s: %s" % (type(e).__name__, e)}


def parse_hello(rec):
    """A ClientHello record as OpenSSL wrote it -> (prefix up to the extensions, [(type, data)])."""
    assert rec[0] == 0x16 and rec[5] == 0x01
    p = 5 + 4 + 2 + 32
    p += 1 + rec[p]
    p += 2 + struct.unpack(">H", rec[p:p + 2])[0]
    p += 1 + rec[p]
    head = rec[9:p]
    n = struct.unpack(">H", rec[p:p + 2])[0]
    q, end, exts = p + 2, p + 2 + n, []
    while q < end:
        t, l = struct.unpack(">HH", rec[q:q + 4])
        exts.append((t, rec[q + 4:q + 4 + l]))
        q += 4 + l
    return rec[1:3], head, exts


def build_hello(ver, head, exts):
    eb = b"".join(struct.pack(">HH", t, len(d)) + d for t, d in exts)
    body = head + struct.pack(">H", len(eb)) + eb
    hs = b"\x01" + struct.pack(">I", len(body))[1:] + body
    return b"\x16" + ver + struct.pack(">H", len(hs)) + hs


def hello_with_alpn(data, server_name="example.org"):
    """A well-formed ClientHello whose ALPN extension (type 16) carries exactly `data` (None: no ALPN
    extension) — the extension content may be malformed on purpose."""
    ver, head, exts = parse_hello(tacdrun.client_hello(alpn=(ACME,), server_name=server_name))
    out = []
    for t, d in exts:
        if t == 16:
            if data is not None:
                out.append((16, data))
        else:
            out.append((t, d))
    return build_hello(ver, head, out)


def alpn_wire(names):
    b = b"".join(bytes([len(n)]) + n for n in names)
    return struct.pack(">H", len(b)) + b


MALFORMED_ALPN = {
    "alpn-zero-length-name": struct.pack(">H", 3) + b"\x00\x01a",
    "alpn-empty-list": struct.pack(">H", 0),
    "alpn-no-body": b"",
    "alpn-overrun": struct.pack(">H", 50) + b"\x02h2",
    "alpn-name-overrun": struct.pack(">H", 4) + b"\x0aacm",
    "alpn-trailing": alpn_wire([b"h2"]) + b"\x00\x00\x00",
    "alpn-acme-then-overrun": struct.pack(">H", 14) + b"\x0aacme-tls/1" + b"\x09ab",
}


def send_raw(listen, data, read=True, hold=None, timeout=3.0):
    """Sends bytes; reads what comes back for a moment; closes (or hands the socket to `hold`)."""
    s = tacdrun.connect(listen, timeout)
    s.sendall(data)
    if read:
        try:
            s.settimeout(0.4)
            s.recv(4096)
        except OSError:
            pass
    if hold is not None:
        hold.append(s)
    else:
        s.close()


class Stopper:
    """Something the history keeps going until its end (`held` entries are closed by the caller)."""

    def __init__(self):
        self.stop = threading.Event()
        self.threads = []
        self.stats = {}

    def close(self):
        self.stop.set()
        for t in self.threads:
            t.join(timeout=10)


def valid_handshake(listen, timeout=15.0, **kw):
    """One valid acme-tls/1 handshake.  A connect() that the KERNEL turns away because the listen queue is
    full (EAGAIN on a unix socket) never reached tacd: it is repeated for a few seconds."""
    t0 = time.time()
    while True:
        hs = tacdrun.handshake(listen, [ACME], timeout=timeout, **kw)
        if hs.get("ok") or not str(hs.get("error", "")).startswith("connect: [Errno 11]") or time.time() - t0 > 8:
            return hs
        time.sleep(0.05)


def valid_once(listen, timeout=15.0, **kw):
    hs = valid_handshake(listen, timeout=timeout, **kw)
    return bool(hs.get("ok")) and hs.get("alpn") == ACME, hs


# behaviours after which (or during which) the next client may have to wait: the final handshake may be retried
LOAD = ("stalled-50", "fd-exhaustion", "storm", "burst-1100", "hello-then-stall-50", "valid-held-50",
        "slow-hello", "valid-x10-concurrent")

VOLUME = ["garbage-x300", "tls-foreign-alpn-x300", "tls-no-alpn-x300", "hello-abandoned-x300", "valid-x300",
          "burst-1100"]
SHAPES = ["alpn-h2-only", "alpn-255", "alpn-50", "alpn-near-miss", "alpn-embedded", "no-sni-foreign", "no-sni-valid",
          "sni-253", "tls-legacy-only", "client-rejects-cert"] + sorted(MALFORMED_ALPN)
STATES = ["valid", "valid-held-50", "hello-then-stall-50", "slow-hello", "half-close", "valid-x10-concurrent", "storm"]
NEW_BEHAVIOURS = VOLUME + SHAPES + STATES


def _many(n, workers, fn):
    """fn() n times on a few threads (a client farm, not a load test)."""
    left = [n]
    lock = threading.Lock()
    deadline = time.time() + 25     # (against a server that makes every client wait, the farm gives up: the
                                    # final valid handshake tells the story)

    def run():
        while time.time() < deadline:
            with lock:
                if left[0] <= 0:
                    return
                left[0] -= 1
            try:
                fn()
            except OSError:
                pass
    ts = [threading.Thread(target=run, daemon=True) for _ in range(workers)]
    for t in ts:
        t.start()
    for t in ts:
        t.join()


def behave(listen, kind, held):
    """One behaviour of the extended catalogue.  Returns {"valid_fail": [errors]} for the behaviours that
    contain VALID acme-tls/1 handshakes (each of them is a "subsequent valid handshake" of what came before
    and must be answered correctly), else {}."""
    if kind not in NEW_BEHAVIOURS:
        tacdrun.behave(listen, kind, held)
        return {}
    bad = []
    try:
        if kind == "garbage-x300":
            def f():
                s = tacdrun.connect(listen)
                s.sendall(os.urandom(64))
                s.close()
            _many(300, 6, f)
        elif kind == "tls-foreign-alpn-x300":
            _many(300, 6, lambda: tacdrun.handshake(listen, ["h2", "http/1.1"]))
        elif kind == "tls-no-alpn-x300":
            _many(300, 6, lambda: tacdrun.handshake(listen, None))
        elif kind == "hello-abandoned-x300":
            hello = tacdrun.client_hello()

            def f():
                s = tacdrun.connect(listen)
                s.sendall(hello)
                s.close()
            _many(300, 6, f)
        elif kind == "valid-x300":
            lock = threading.Lock()

            def f():
                if len(bad) >= 3:
                    return          # (three refused validations are enough: do not wait for 300 time-outs)
                ok, hs = valid_once(listen)
                if not ok:
                    with lock:
                        bad.append(hs.get("error") or "negotiated %s" % hs.get("alpn"))
            _many(300, 6, f)
        elif kind == "burst-1100":
            # more simultaneous idle connections than a default descriptor limit of 1024 leaves room for;
            # the burst goes away again before the next client comes
            burst = []
            for _ in range(1100):
                try:
                    burst.append(tacdrun.connect(listen, timeout=1.0))
                except OSError:
                    pass
            time.sleep(0.8)
            for s in burst:
                try:
                    s.close()
                except OSError:
                    pass
            time.sleep(0.5)
        elif kind == "alpn-h2-only":
            tacdrun.handshake(listen, ["h2"])
        elif kind == "alpn-255":
            tacdrun.handshake(listen, ["x" * 255])
        elif kind == "alpn-50":
            tacdrun.handshake(listen, ["proto-%02d" % i for i in range(50)])
        elif kind == "alpn-near-miss":
            for offer in (["acme-tls/10"], ["acme-tls/"], ["ACME-TLS/1"], ["acme-tls/2", "acme-tls/1.1"]):
                tacdrun.handshake(listen, offer)
        elif kind == "alpn-embedded":
            tacdrun.handshake(listen, ["x\nacme-tls/1"])
        elif kind == "no-sni-foreign":
            tacdrun.handshake(listen, ["h2"], server_name=None)
        elif kind == "no-sni-valid":
            ok, hs = valid_once(listen, server_name=None)
            if not ok:
                bad.append(hs.get("error") or "negotiated %s" % hs.get("alpn"))
        elif kind == "sni-253":
            tacdrun.handshake(listen, ["h2"], server_name=".".join(["a" * 61] * 4) + ".example")
        elif kind == "tls-legacy-only":
            handshake(listen, [ACME], legacy=True)
        elif kind == "client-rejects-cert":
            handshake(listen, [ACME], verify=True)
        elif kind in MALFORMED_ALPN:
            send_raw(listen, hello_with_alpn(MALFORMED_ALPN[kind]))
        elif kind == "valid":
            ok, hs = valid_once(listen)
            if not ok:
                bad.append(hs.get("error") or "negotiated %s" % hs.get("alpn"))
        elif kind == "valid-held-50":
            # completed validations whose connections the client keeps open
            ctx = ssl.SSLContext(ssl.PROTOCOL_TLS_CLIENT)
            ctx.check_hostname = False
            ctx.verify_mode = ssl.CERT_NONE
            ctx.set_alpn_protocols([ACME])
            for _ in range(50):
                if len(bad) >= 3:
                    break           # (three refused validations are enough: do not sit through 50 time-outs)
                raw = tacdrun.connect(listen, 15.0)
                try:
                    s = ctx.wrap_socket(raw, server_hostname="example.org")
                    if s.selected_alpn_protocol() != ACME:
                        bad.append("negotiated %s" % s.selected_alpn_protocol())
                    held.append(s)
                except (ssl.SSLError, OSError) as e:
                    bad.append("%s: %s" % (type(e).__name__, e))
                    raw.close()
        elif kind == "hello-then-stall-50":
            hello = tacdrun.client_hello()
            for _ in range(50):
                s = tacdrun.connect(listen)
                s.sendall(hello)
                held.append(s)
        elif kind == "half-close":
            s = tacdrun.connect(listen)
            s.sendall(tacdrun.client_hello())
            s.shutdown(socket.SHUT_WR)
            held.append(s)
        elif kind == "slow-hello":
            st = Stopper()
            hello = tacdrun.client_hello()

            def drip():
                try:
                    s = tacdrun.connect(listen)
                    for i in range(len(hello)):
                        if st.stop.is_set():
                            break
                        s.sendall(hello[i:i + 1])
                        time.sleep(0.02)
                    s.close()
                except OSError:
                    pass
            for _ in range(8):
                t = threading.Thread(target=drip, daemon=True)
                t.start()
                st.threads.append(t)
            held.append(st)
        elif kind == "valid-x10-concurrent":
            lock = threading.Lock()

            def f():
                ok, hs = valid_once(listen)
                if not ok:
                    with lock:
                        bad.append(hs.get("error") or "negotiated %s" % hs.get("alpn"))
            ts = [threading.Thread(target=f, daemon=True) for _ in range(10)]
            for t in ts:
                t.start()
            for t in ts:
                t.join()
        elif kind == "storm":
            # hostile clients that keep coming WHILE the next valid client is served
            st = Stopper()
            hello = tacdrun.client_hello()

            def loop(which):
                while not st.stop.is_set():
                    try:
                        if which == 0:
                            s = tacdrun.connect(listen)
                            s.sendall(os.urandom(80))
                            s.close()
                        elif which == 1:
                            tacdrun.handshake(listen, ["h2", "http/1.1"], timeout=2.0)
                        elif which == 2:
                            s = tacdrun.connect(listen)
                            s.sendall(hello)
                            s.close()
                        else:
                            tacdrun.handshake(listen, None, timeout=2.0)
                    except OSError:
                        pass
                    time.sleep(0.01)
            for i in range(16):
                t = threading.Thread(target=loop, args=(i % 4,), daemon=True)
                t.start()
                st.threads.append(t)
            time.sleep(0.3)
            held.append(st)
    except OSError:
        pass
    return {"valid_fail": bad} if bad or kind.startswith("valid") or kind == "no-sni-valid" else {}
