"""C20: an INTERRUPTED attempt as a dimension of the history a shipped hook group meets.

Every other history of the check ends an attempt with its clean hooks: the daemon is only ever stopped where no hook
has run since the last clean step (auditd_c20 `restart_after`), and the `stale` dimension plants files no hook of the
group made.  Here the attempt is interrupted BETWEEN the challenge hooks and the clean hooks, so that what the challenge
hooks made is still there when the next attempt's challenge hooks run: the proof file of http-01-echo (at the very path
the next `echo` writes to when the CA hands out the same token again), the running tacd with its pid file / socket of the
tls-alpn-01 groups.

  interrupt = {"how": "kill", "at": "challenge"}   the CA holds the POST to the challenge URL ("the challenge is
                     ready") unanswered and unprocessed; the daemon is killed (SIGKILL) there and started again on the
                     same directories
              {"how": "kill", "at": "authz"}       the challenge POST was answered; the CA holds the first poll of the
                     authorization that follows it; killed there, started again
              {"how": "fail", "at": "challenge"}   the challenge POST is answered 500 serverInternal until the attempt
                     gives up (as often as the client repeats the POST); the same process tries again after its pause
  reuse_authz = bool   mock-CA option `reuse_pending_authz`: the next order of the same account for the same identifier
                     gets the still-pending authorization again — same URL, same challenges, same TOKEN (RFC 8555 allows
                     it; Boulder did so for years).  Without it the next order gets a fresh token.

What is judged (unchanged judge Spec.C20.holds): the `n` issuances that FOLLOW the interruption — the CA's verdict on each
and what is left at the documented places after its clean hooks.  Records made before the interruption ended (the
validations of the interrupted attempt, the failure report of a given-up attempt) are not issuances and are left out.
"""
import os
import random
import signal
import threading
import time

import flow

FAIL_LABEL = "interrupt:fail"      # the scripted 500 answers (as many as the client asks for until its attempt gives up)
ERR = "urn:ietf:params:acme:error:"


def widen(ctx, add, groups, judged_groups):
    """`add` = auditd_c20.widen's scenario maker.  `judged_groups`: the groups whose interrupted histories are judged;
    the others are run and counted only (see `count_only`)."""
    rng = random.Random("c20-interrupt-%d" % ctx.seed)
    quick = ctx.quick()

    def one(g, how, at, reuse, **kw):
        extra = {} if g in judged_groups else {"count_only": "interrupted:%s:%s-at-%s:%s" % (
            g, how, at, "same-token" if reuse else "fresh-token")}
        add(group=g, n=2, interrupt={"how": how, "at": at}, reuse_authz=reuse, **dict(extra, **kw))

    for g in groups:
        idents = ["example.org", "a.b.example.net", "vm"]
        # the CA hands the same token to the next order
        one(g, "kill", "challenge", True, ident=rng.choice(idents), **{"async": None})
        # (the CA validates at the 2nd / 3rd request for the authorization counted from the restart: the first one is the
        #  fetch that precedes the challenge hooks — a CA that concluded the validation of the interrupted attempt while
        #  the daemon was away serves a VALID authorization, no hook of the group runs at all, nothing ever cleans)
        one(g, "kill", "authz", True, ident=rng.choice(idents), **{"async": {"after_polls": rng.choice([2, 3])}})
        one(g, "fail", "challenge", True, ident=rng.choice(idents), **{"async": None})
        if not quick:
            one(g, "kill", "challenge", True, ident=rng.choice(idents), **{"async": {"after_polls": 2}})
            one(g, "kill", "authz", True, ident=rng.choice(idents), **{"async": {"after_polls": 2}})
            one(g, "fail", "challenge", True, ident=rng.choice(idents), git=True, **{"async": {"delay_s": 0.5}})
            one(g, "kill", "challenge", True, ident="example.org", more_idents=["www.example.org"], **{"async": None})
    # a FRESH token after the interruption: what the interrupted attempt left is never named by a clean hook again
    # (http-01-echo: the old proof file stays for ever; tls-alpn-01: the responder of the interrupted attempt keeps the
    # pid-file lock and the address and goes on answering with the OLD digest, the unchanged code never validates
    # again — reported) — observed and counted, not judged
    for g in groups:
        for how in ("kill", "fail"):
            add(group=g, n=2, interrupt={"how": how, "at": "challenge"}, reuse_authz=False, ident="example.org",
                count_only="interrupted:%s:%s-at-challenge:fresh-token" % (g, how), **{"async": None})


def rules(sc):
    it = sc.get("interrupt") or {}
    if it.get("how") != "fail":
        return []
    body = {"type": ERR + "serverInternal", "detail": "scripted", "status": 500}
    return [{"kind": "challenge", "times": 10 ** 6, "label": FAIL_LABEL,
             "answer": {"status": 500, "ctype": "application/problem+json", "body": body}}]


def arm(ca, sc):
    it = sc.get("interrupt") or {}
    ca.interrupt_at = it.get("at") if it.get("how") == "kill" else None
    ca.interrupt_reached = threading.Event()
    ca.interrupt_release = threading.Event()


def hold(ca, kind, path):
    """Called by the CA for every request it is about to process: True = the request was held until the daemon was
    gone and must be answered as never processed."""
    want = getattr(ca, "interrupt_at", None)
    if want is None or kind != want:
        return False
    if want == "authz":
        a = ca.authzs.get(path.split("/")[-1])
        if a is None or a["status"] == "pending":      # (the fetch BEFORE the challenge hooks)
            return False
    ca.interrupt_at = None
    ca.interrupt_reached.set()
    ca.interrupt_release.wait(600)
    return True


def first_life(sc, ca, cfg_path, denv, log):
    """Plays the interrupted attempt.  -> (resume, daemon | None, note): records older than resume() (monotonic ns)
    belong to the interrupted attempt; a daemon that is returned goes on running (how = fail)."""
    it = sc.get("interrupt")
    if not it:
        return (lambda: 0), None, None
    dmn = flow.Daemon(cfg_path, env=denv, stderr_path=cfg_path + ".stderr-interrupted")
    life = lambda: len(ca.log)                                               # noqa: E731
    if it["how"] == "kill":
        ok = flow.wait_progress(lambda: ca.interrupt_reached.is_set() or not dmn.alive(), life, idle=60, cap=600)
        note = None if ok and dmn.alive() else "the daemon never reached the %s request to be held at" % it["at"]
        try:
            dmn.p.send_signal(signal.SIGKILL)
            dmn.p.wait()
        except OSError:
            pass
        dmn.errf.close()
        ca.interrupt_at = None
        ca.interrupt_release.set()
        time.sleep(0.1)
        t = time.monotonic_ns()
        return (lambda: t), None, note
    # how = fail: the attempt gives up (its failure report is the first post-operation record), the process goes on;
    # from then on the challenge POSTs are answered as they should be
    ok = flow.wait_progress(lambda: len(flow.post_ops(log)) >= 1 or not dmn.alive(), life, idle=60, cap=600)
    with ca.lock:
        for r in ca.rules:
            if r.get("label") == FAIL_LABEL:
                r["done"] = True
    posts = flow.post_ops(log)
    note = None
    if not ok or not posts or flow.hook_args(posts[0]).get("is_success") != "false":
        note = "the attempt whose challenge POST was answered 500 did not report a failure"

    def resume():
        # every attempt that received one of the scripted answers is part of the interruption (a second attempt may
        # have begun before the answers stopped): the end of the last report that follows such an answer
        scripted = [e["t"] for e in list(ca.log) if e["kind"] == "req" and e.get("rule") == FAIL_LABEL]
        ends = [p["t_end"] for p in flow.post_ops(log) if scripted and p["t"] > scripted[-1]]
        return (ends[0] + 1) if ends else (1 << 62)
    return resume, (dmn if dmn.alive() else None), note


def reap(marker):
    """No responder of an interrupted attempt may outlive the check: every process whose command line names the
    scenario's directory is killed (the pid file that named it may have been overwritten or removed)."""
    for pid in os.listdir("/proc"):
        if not pid.isdigit() or int(pid) == os.getpid():
            continue
        try:
            with open("/proc/%s/cmdline" % pid, "rb") as f:
                cmd = f.read()
        except OSError:
            continue
        if os.fsencode(marker) in cmd and b"tacd" in cmd.split(b"\0")[0]:
            try:
                os.kill(int(pid), signal.SIGKILL)
            except OSError:
                pass


def describe(sc):
    """For a violation message: the history the judged issuances follow."""
    it = sc.get("interrupt")
    if not it:
        return ""
    how = {"kill": "the daemon was killed while the CA held the %s unanswered, and started again",
           "fail": "the %s was answered 500 until the attempt gave up, the same process tried again"}[it["how"]]
    return " [after an attempt interrupted between its challenge hooks and its clean hooks: %s; the CA gave the next order %s]" % (
        how % {"challenge": "POST to the challenge URL", "authz": "first poll of the authorization"}[it["at"]],
        "the same pending authorization (same token)" if sc.get("reuse_authz") else "a fresh token")


def count(ctx, sc, r):
    it = sc.get("interrupt")
    if it:
        ctx.count("interrupted:%s-at-%s:%s" % (it["how"], it["at"], "same-token" if sc.get("reuse_authz") else "fresh-token"))
        ctx.count("interrupted:group:" + sc["group"])
        if r.get("interrupt_note"):      # the history was not the one the scenario asks for: nothing was learnt from it
            ctx.broke("harness", "interrupted attempt (%s, %s): %s" % (sc["group"], it, r["interrupt_note"]), {"sc": sc})
