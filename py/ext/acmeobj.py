"""C08 (also C03 / C07) extension, clause "malformed or missing fields, invalid object statuses, non-JSON
error bodies, unknown / absent error type": tie of `Model/AcmeObj.lean` (serde's reading of the ACME objects,
`http.rs`'s classification of an answer; theorems `Props/C08Obj.lean`) and of the judge `Spec/C08Obj.lean`
to the real code.

`extend(ctx)`
  1. object texts (`gen_texts`): valid Let's-Encrypt-shaped objects of every kind from a schema, then
     mutations (each member deleted / null / of every other JSON type, unknown extra members, duplicate
     members, wrong / upper-case / object-form enum words, number forms incl. huge ones and the f64 overflow
     boundary, escapes incl. unpaired surrogates and escaped member names, struct-as-array forms, deep nesting
     around serde_json's recursion limit, white space, truncations, non-JSON) through the REAL
     `T::from_str` and `serde_json::from_str::<T>` (= `ValidHttpResponse::json::<T>`) in ONE probe batch
     (op `acme_parse`) and through the model in ONE model batch (driver ops `acme_parse`, `c08obj_judge`).
     Compared exactly (correspondence): accepted / refused, the canonical dump of the parsed object, and —
     when the model names a data error (anything but `syntax`) — the class of the real error message and
     the member it names.
     Judged (violation): `Spec.C08Obj.neverSuccess` with status 200 on what the real reader did: a body
     that is not a well-formed object of the awaited kind (`validBody`) must not be accepted.
  2. answers (`gen_answers`): (status, content type, body) through the REAL `http::post_jose` / `http::get`
     against the probe's loop-back server and `ValidHttpResponse::json::<T>()` (op `acme_classify`), and
     through `classifyAnswer` / `classifyGet` / `stepOutcome`.  Compared: success / ACME error (type,
     recoverable) / other failure, retry or not (10 POSTs and no ApiError = every round retried).
     Judged: `neverSuccess` on the observed outcome.
  3. `AcmeError::from(String)` + `is_recoverable` on the URNs of the compiled table and near misses (op
     `acme_errtype`).
`replay(obj)`   one stored case again: verdict 0 / 1.
"""
import json
import re

import vlib

# --------------------------------------------------------------------------------------------------------
# JSON trees with room for what json.dumps cannot write


class Obj:
    """An object as a LIST of (key, value): order and duplicates are expressible."""

    def __init__(self, pairs):
        self.pairs = list(pairs)

    def copy(self):
        return Obj([(k, clone(v)) for k, v in self.pairs])

    def keys(self):
        return [k for k, _ in self.pairs]

    def get(self, key):
        for k, v in self.pairs:
            if k == key:
                return v
        return None

    def set(self, key, val):
        self.pairs = [(k, val if k == key else v) for k, v in self.pairs]

    def drop(self, key):
        self.pairs = [(k, v) for k, v in self.pairs if k != key]


class Raw:
    """A lexeme written verbatim (number forms, strings with escapes, garbage)."""

    def __init__(self, text):
        self.text = text


class RawKey:
    """A member name written verbatim between the quotes."""

    def __init__(self, text):
        self.text = text


def clone(v):
    if isinstance(v, Obj):
        return v.copy()
    if isinstance(v, list):
        return [clone(x) for x in v]
    return v


def ser(v, ws=""):
    if isinstance(v, Raw):
        return v.text
    if isinstance(v, Obj):
        return "{" + ws + ("," + ws).join(
            ('"%s"' % k.text if isinstance(k, RawKey) else json.dumps(k, ensure_ascii=False)) + ws + ":" + ws + ser(x, ws)
            for k, x in v.pairs) + ws + "}"
    if isinstance(v, list):
        return "[" + ws + ("," + ws).join(ser(x, ws) for x in v) + ws + "]"
    return json.dumps(v, ensure_ascii=False)


# --------------------------------------------------------------------------------------------------------
# schema: valid objects

BASE = "https://acme-v02.api.letsencrypt.org"
ORDER_STATUS = ["pending", "ready", "processing", "valid", "invalid"]
AUTHZ_STATUS = ["pending", "valid", "invalid", "deactivated", "expired", "revoked"]
CHAL_STATUS = ["pending", "processing", "valid", "invalid"]
CHAL_TYPES = ["http-01", "dns-01", "tls-alpn-01"]


def problem(rng, typ="urn:ietf:params:acme:error:unauthorized", full=True):
    p = [("type", typ), ("detail", rng.choice(["No valid IP addresses found for example.org", "Déjà vu   \"x\"", ""]))]
    if full:
        p.append(("status", rng.choice([400, 403, 429, 500, 0])))
    if rng.random() < 0.3:
        p.append(("subproblems", [Obj([("type", "urn:ietf:params:acme:error:caa"), ("identifier", Obj([("type", "dns"), ("value", "a.example")]))])]))
    rng.shuffle(p)
    return Obj(p)


def identifier(rng, wildcard=False):
    if rng.random() < 0.2:
        return Obj([("type", "ip"), ("value", rng.choice(["192.0.2.7", "2001:db8::1"]))])
    return Obj([("type", "dns"), ("value", ("*." if wildcard else "") + rng.choice(["example.org", "www.example.org", "xn--bcher-kva.example"]))])


def order(rng, status=None, rich=True):
    status = status or rng.choice(ORDER_STATUS)
    n = rng.choice([1, 1, 2, 3])
    p = [("status", status), ("expires", "2026-10-04T21:06:43Z"),
         ("identifiers", [identifier(rng) for _ in range(n)]),
         ("authorizations", ["%s/acme/authz/%d/%d" % (BASE, rng.randrange(10 ** 9), i) for i in range(n)]),
         ("finalize", "%s/acme/finalize/%d/%d" % (BASE, rng.randrange(10 ** 9), rng.randrange(10 ** 9)))]
    if rich:
        if status == "valid":
            p.append(("certificate", "%s/acme/cert/%x" % (BASE, rng.getrandbits(120))))
        if status == "invalid":
            p.append(("error", problem(rng)))
        if rng.random() < 0.3:
            p += [("notBefore", "2026-09-27T00:00:00Z"), ("notAfter", "2026-12-26T00:00:00Z")]
        if rng.random() < 0.3:
            p.append(("profile", "classic"))
    return Obj(p)


def challenge(rng, typ=None, status=None):
    typ = typ or rng.choice(CHAL_TYPES + ["dns-account-01"])
    status = status or rng.choice(CHAL_STATUS)
    p = [("type", typ), ("url", "%s/acme/chall/%d/%d/%s" % (BASE, rng.randrange(10 ** 9), rng.randrange(10 ** 9), "AbC_-9")),
         ("status", status), ("token", "LoqXcYV8q5ONbJQxbmR7SCTNo3tiAXDfowyjxAjEuX0")]
    if status == "valid":
        p.append(("validated", "2026-09-27T21:06:43Z"))
        p.append(("validationRecord", [Obj([("url", "http://example.org/.well-known/acme-challenge/x"), ("hostname", "example.org"),
                                            ("port", "80"), ("addressesResolved", ["192.0.2.7"]), ("addressUsed", "192.0.2.7")])]))
    if status == "invalid":
        p.append(("error", problem(rng, "urn:ietf:params:acme:error:connection")))
    return Obj(p)


def authorization(rng, status=None):
    status = status or rng.choice(AUTHZ_STATUS)
    wc = rng.random() < 0.2
    types = rng.sample(CHAL_TYPES, rng.choice([1, 2, 3])) + (["dns-account-01"] if rng.random() < 0.4 else [])
    rng.shuffle(types)
    p = [("identifier", identifier(rng)), ("status", status), ("expires", "2026-10-27T21:06:43Z"),
         ("challenges", [challenge(rng, t, "valid" if status == "valid" else None) for t in types])]
    if wc:
        p.append(("wildcard", True))
    return Obj(p)


def directory(rng, rich=True):
    p = [("newNonce", BASE + "/acme/new-nonce"), ("newAccount", BASE + "/acme/new-acct"), ("newOrder", BASE + "/acme/new-order"),
         ("revokeCert", BASE + "/acme/revoke-cert"), ("keyChange", BASE + "/acme/key-change")]
    if rich:
        p.append(("meta", Obj([("caaIdentities", ["letsencrypt.org"]), ("termsOfService", "https://letsencrypt.org/documents/LE-SA-v1.5.pdf"),
                               ("website", "https://letsencrypt.org"),
                               ("profiles", Obj([("classic", "https://letsencrypt.org/docs/profiles#classic")]))] +
                              ([("externalAccountRequired", False)] if rng.random() < 0.5 else []))))
        p.append(("renewalInfo", BASE + "/acme/renewal-info"))
        p.append(("%x" % rng.getrandbits(40), "https://community.letsencrypt.org/t/adding-random-entries-to-the-directory/33417"))
        if rng.random() < 0.3:
            p.append(("newAuthz", BASE + "/acme/new-authz"))
    rng.shuffle(p)
    return Obj(p)


def account(rng, rich=True):
    p = [("status", rng.choice(["valid", "deactivated", "revoked", "whatever"]))]
    if rich:
        p += [("key", Obj([("kty", "EC"), ("crv", "P-256"), ("x", "f83OJ3D2xF1Bg8vub9tLe1gHMzV76e8Tus9uPHvRVEU"),
                           ("y", "x_FEzRu9m36HLN_tue659LNpXW6pCyStikYjKIWI5a0")])),
              ("contact", ["mailto:admin@example.org"]), ("createdAt", "2026-09-27T21:06:43.123Z"),
              ("termsOfServiceAgreed", True), ("orders", BASE + "/acme/orders/123")]
        if rng.random() < 0.5:
            p.append(("externalAccountBinding", Obj([("protected", "eyJhbGciOiJIUzI1NiJ9"), ("payload", "e30"), ("signature", "AbCd"),
                                                     ("n", 7), ("m", -3), ("f", 1.5), ("l", [None, True, Obj([])])])))
    return Obj(p)


KINDS = {
    "order": order, "authorization": authorization, "challenge": challenge, "directory": directory,
    "account": account, "problem": lambda rng: problem(rng), "identifier": identifier,
}
AWAITED = ("order", "authorization", "directory", "account")     # kinds a flow step awaits (judged)

ENUM_AT = {  # kind -> {member: words}
    "order": {"status": ORDER_STATUS}, "authorization": {"status": AUTHZ_STATUS},
    "challenge": {"status": CHAL_STATUS}, "identifier": {"type": ["dns", "ip"]},
}

# --------------------------------------------------------------------------------------------------------
# mutations

TYPE_SWAPS = [0, 1, -1, "x", "", True, False, [], ["x"], Raw("{}"), Raw('{"x":1}'), 1.5, Raw("1e2"), Raw("-0"), Raw("[null]"),
              Raw('"\\ud800"'), Raw("1e999")]
NUMBERS = ["0", "7", "400", "-0", "-1", "1.0", "4e2", "1e2", "400.0", "18446744073709551615", "18446744073709551616",
           "9223372036854775807", "9223372036854775808", "-9223372036854775808", "-9223372036854775809", "1e999", "-1e999",
           "1e-999", "0e999999999999", "1e99999999999", "1e-99999999999", "0.0e99999999999", "1" + "0" * 400, "9" * 25,
           "0." + "0" * 400 + "1", "0." + "0" * 30 + "1e400", "1.7976931348623157e308", "1.7976931348623158e308",
           "1.797693134862315807e308", "1.7976931348623159e308", "1.8e308", "17976931348623157e292", "17976931348623158e292",
           "17976931348623159e292", "179769313486231570" + "0" * 291, "179769313486231580" + "0" * 291, "1" + "0" * 308,
           "1" + "0" * 309, "2e308", "1e308", "1e309", "0.1e310", "10e307", "1E+308", "1E308", "1e+309", "18446744073709551615e289",
           "18446744073709551616e289", "184467440737095516150e288", "1.8446744073709551615e308", "4294967296", "1e+2", "1E-2"]
STRINGS = ['"\\u00e9"', '"\\ud83d\\ude00"', '"\\ud800"', '"\\udc00"', '"\\ud800\\u0041"', '"\\ud800x"', '"\\ud800\\n"',
           '"\\udbff\\udfff"', '"\\ud800\\ud800\\udc00"', '"\\u12"', '"\\u12G4"', '"\\x41"', '"\\/"', '"\\b\\f\\n\\r\\t\\"\\\\"',
           '"\\u0000"', '"a\tb"', '"a\nb"', '"\x7f"', '"é京\U0001F600"', '"\\uD83D\\uDE00"', '"\\u00E9"', '"\\', '"abc', "'abc'",
           '"\\uDBFF"', '"\\ud800\\', '"\\ud800\\u"', '"\\ud800\\udc0"', '"\\a"', '"\x00"', '"\x1f"', '"﻿"', '""']
NON_JSON = ["", " ", "\n", "<html><body>502 Bad Gateway</body></html>", "null", "true", "false", "42", "-1", "1.5", '"str"', "[]", "{}",
            "[[]]", "nul", "nulll", "tru", "True", "NaN", "Infinity", "-Infinity", "+1", ".5", "1.", "01", "-", "--1", "1e", "1e+",
            "0x10", "{,}", "[,]", "[1,]", "[,1]", '{"a":1,}', '{"a" 1}', '{a:1}', "{'a':1}", '{"a":1 "b":2}', '{"a":}', '{"a"}',
            '{"a":1}}', '{"a":1}]', '{} x', '{},', '{}{}', '{} {}', '[] []', '{"a":1} // c', '/* c */ {}', '﻿{}', '{}﻿',
            '\x0c{}', '\x0b{}', ' {}', '{}\x00', '\x00', '{"a":1}\r\n', '\t{\r\n}\n ', '[1 2]', '[1,,2]', '{"a":1,,"b":2}',
            '{1:2}', '{null:1}', '{"a":undefined}', '{"a":01}', '{"a":-}', '{"a":1.}', '{"a":.1}', '{"a":1e}', '{"a":"\\q"}',
            "{", "}", "[", "]", '{"', '{"a', '{"a"', '{"a":', '{"a":1', '{"a":1,', '[1', '[1,', '"', ":", ",", "é", "京"]


def nest(d, inner="1", kind="["):
    if kind == "[":
        return "[" * d + inner + "]" * d
    return '{"a":' * d + inner + "}" * d


def paths(tree, kind):
    """(description, getter of the Obj) for the top object and the nested objects worth mutating."""
    out = [("", tree)]
    if not isinstance(tree, Obj):
        return out
    for k, v in tree.pairs:
        if isinstance(v, Obj):
            out.append((k, v))
        elif isinstance(v, list) and v and isinstance(v[0], Obj):
            out.append((k + "[0]", v[0]))
            if len(v) > 1:
                out.append((k + "[-1]", v[-1]))
            for x in v:
                if isinstance(x, Obj) and isinstance(x.get("error"), Obj):
                    out.append((k + "[].error", x.get("error")))
                    break
    return out


def sub_kind(kind, where):
    w = where.split("[")[0]
    return {"identifiers": "identifier", "identifier": "identifier", "challenges": "challenge", "error": "problem",
            "meta": "meta"}.get(w.split(".")[-1] if "." in where else w, None) if where else kind


def mutations(rng, kind, base, tier):
    """Yields (label, text) for one valid tree `base` of kind `kind`."""
    def fresh():
        t = clone(base)
        return t, paths(t, kind)

    _, ps = fresh()
    for pi, (where, o0) in enumerate(ps):
        if not isinstance(o0, Obj):
            continue
        sk = "problem" if where.endswith("error") else sub_kind(kind, where)
        for key in list(dict.fromkeys(o0.keys())):
            # delete, null
            t, p = fresh()
            p[pi][1].drop(key)
            yield "delete:%s.%s" % (where, key), ser(t)
            t, p = fresh()
            p[pi][1].set(key, None)
            yield "null:%s.%s" % (where, key), ser(t)
            # other JSON types
            for sw in (TYPE_SWAPS if tier != "quick" or pi == 0 else rng.sample(TYPE_SWAPS, 6)):
                t, p = fresh()
                p[pi][1].set(key, sw)
                yield "type:%s.%s" % (where, key), ser(t)
            # wrapped: [v], {"x": v}
            t, p = fresh()
            p[pi][1].set(key, [clone(o0.get(key))])
            yield "wrap-array:%s.%s" % (where, key), ser(t)
            t, p = fresh()
            p[pi][1].set(key, Obj([("x", clone(o0.get(key)))]))
            yield "wrap-object:%s.%s" % (where, key), ser(t)
            # duplicates
            for mode in ("same-end", "same-next", "other-end", "null-end", "escaped-name"):
                t, p = fresh()
                o = p[pi][1]
                v = clone(o.get(key))
                if mode == "same-end":
                    o.pairs.append((key, v))
                elif mode == "same-next":
                    i = o.keys().index(key)
                    o.pairs.insert(i + 1, (key, v))
                elif mode == "other-end":
                    o.pairs.append((key, "other"))
                elif mode == "null-end":
                    o.pairs.append((key, None))
                else:
                    o.pairs.insert(0, (RawKey("\\u%04x" % ord(key[0]) + key[1:]), v))
                yield "duplicate-%s:%s.%s" % (mode, where, key), ser(t)
            # the member's name spelled with an escape (still the known member)
            t, p = fresh()
            o = p[pi][1]
            o.pairs = [((RawKey(k[:-1] + "\\u%04X" % ord(k[-1])) if k == key else k), v) for k, v in o.pairs]
            yield "escaped-name:%s.%s" % (where, key), ser(t)
            # case of the name
            t, p = fresh()
            o = p[pi][1]
            o.pairs = [((k.upper() if k == key else k), v) for k, v in o.pairs]
            yield "upper-name:%s.%s" % (where, key), ser(t)
            t, p = fresh()
            o = p[pi][1]
            snake = re.sub(r"([A-Z])", lambda m: "_" + m.group(1).lower(), key)
            if snake != key:
                o.pairs = [((snake if k == key else k), v) for k, v in o.pairs]
                yield "snake-name:%s.%s" % (where, key), ser(t)
            # string content
            if isinstance(o0.get(key), str):
                for s in (STRINGS if tier != "quick" else rng.sample(STRINGS, 5)):
                    t, p = fresh()
                    p[pi][1].set(key, Raw(s))
                    yield "string:%s.%s" % (where, key), ser(t)
            # numbers
            if isinstance(o0.get(key), int) and not isinstance(o0.get(key), bool):
                for s in NUMBERS:
                    t, p = fresh()
                    p[pi][1].set(key, Raw(s))
                    yield "number:%s.%s" % (where, key), ser(t)
        # enum words
        for key, words in ENUM_AT.get(sk or "", {}).items():
            if o0.get(key) is None:
                continue
            w0 = o0.get(key)
            alts = [w0.upper(), w0.capitalize(), w0 + " ", " " + w0, "", w0[:-1], w0 + "x", "unknown", "done", "deactivated", "processing",
                    Raw('{"%s":null}' % w0), Raw('{"%s":{}}' % w0), Raw('{"%s":[]}' % w0), Raw('{"%s":null,"x":null}' % w0),
                    Raw('{"%s":null,"%s":null}' % (w0, w0)), Raw('{"%s":null}' % w0.upper()), Raw("{}"), Raw('{"%s":0}' % w0),
                    Raw('{ "%s" : null }' % w0), Raw('{"%s":"x"}' % w0), Raw('["%s"]' % w0), Raw('"\\u%04x%s"' % (ord(w0[0]), w0[1:])),
                    Raw('{"\\u%04x%s":null}' % (ord(w0[0]), w0[1:])), Raw('{"%s":{"a":1}}' % w0), Raw('{"x":null}')]
            alts += [w for w in words if w != w0]
            for w in words:        # every word of the table in another case, as a string and in object form
                alts += [w.upper(), w.capitalize(), w[0] + w[1:].upper(), Raw('{"%s":null}' % w.upper()), Raw('{"%s":null}' % w)]
            for a in alts:
                t, p = fresh()
                p[pi][1].set(key, a)
                yield "enum:%s.%s" % (where, key), ser(t)
        # unknown extra members
        extras = [("foo", "bar"), ("foo", None), ("foo", Obj([("status", "x"), ("status", "y")])), ("", 1), ("foo", Raw("1e999")),
                  ("foo", Raw('"\\ud800"')), ("foo", Raw('"\\udc00\\ud800"')), ("foo", Raw(nest(200))), ("foo", Raw(nest(200, "1", "{"))),
                  (RawKey("\\ud800"), 1), (RawKey("a\\u0000b"), 1), ("foo", Raw("-0")), ("foo", Raw("1" + "0" * 400)),
                  ("foo", Raw('{"a":1,"a":2}')), ("Status", "ready"), ("STATUS", "ready"), ("foo", Raw('"a\tb"')), ("foo", Raw("[1,]")),
                  ("foo", Raw("01")), ("foo", Raw('{"\\ud800":1}')), ("foo", Raw('[1e999,"\\ud800"]')),
                  ("foo", Raw("1.7976931348623159e308")), ("foo", Raw("1.7976931348623157e308"))]
        for ek, ev in extras:
            for pos in ("front", "end"):
                if pos == "front" and tier == "quick" and rng.random() < 0.5:
                    continue
                t, p = fresh()
                o = p[pi][1]
                if pos == "front":
                    o.pairs.insert(0, (ek, clone(ev)))
                else:
                    o.pairs.append((ek, clone(ev)))
                yield "extra:%s" % where, ser(t)
        # nesting depth of an extra member, around the limit
        for d in (1, 60, 120, 121, 122, 123, 124, 125, 126, 127, 128, 129, 130, 300):
            for shape in ("[", "{"):
                t, p = fresh()
                p[pi][1].pairs.append(("deep", Raw(nest(d, "1", shape))))
                yield "depth-extra:%s" % where, ser(t)
        # numbers at the f64 overflow boundary as an extra member
        for s in NUMBERS:
            t, p = fresh()
            p[pi][1].pairs.append(("num", Raw(s)))
            yield "number-extra:%s" % where, ser(t)
        for _ in range(4 if tier == "quick" else 40):
            t, p = fresh()
            p[pi][1].pairs.append(("num", Raw(boundary_number(rng))))
            yield "number-boundary:%s" % where, ser(t)
    # the external account binding (a serde_json::Value): depth and numbers inside it
    if kind == "account":
        for d in (120, 124, 125, 126, 127, 128, 129):
            for shape in ("[", "{"):
                t = clone(base)
                t.drop("externalAccountBinding")
                t.pairs.append(("externalAccountBinding", Raw(nest(d, "1", shape))))
                yield "depth-eab", ser(t)
        for s in NUMBERS + STRINGS:
            t = clone(base)
            t.drop("externalAccountBinding")
            t.pairs.append(("externalAccountBinding", Raw('{"b":[%s],"a":1,"b":[%s,2]}' % (s, s))))
            yield "value-eab", ser(t)
    # white space
    for ws in (" ", "\n", "\t", "\r\n", " \t\n\r", "\x0c", " ", " "):
        yield "whitespace", ser(base, ws)
        yield "whitespace-around", ws + ser(base) + ws
    # struct as array
    fields = STRUCT_FIELDS.get(kind)
    if fields and isinstance(base, Obj):
        def arr_of(o, fl):
            return [arr_value(o.get(f), f) for f in fl]

        def arr_value(v, f):
            return v
        a = arr_of(base, fields)
        yield "array-form", ser(a)
        yield "array-form-short", ser(a[:-1])
        yield "array-form-long", ser(a + [None])
        yield "array-form-empty", "[]"
        if kind in ("order", "authorization"):
            b = clone(base)
            for k, v in b.pairs:
                if k == "identifiers":
                    b.set(k, [[x.get("type"), x.get("value")] for x in v])
                if k == "identifier":
                    b.set(k, [v.get("type"), v.get("value")])
                if k == "challenges":
                    b.set(k, [[x.get("type"), x.get("url"), x.get("status"), x.get("validated"), x.get("error"), x.get("token")]
                              if i % 2 == 0 else [x.get("type")] for i, x in enumerate(v)])
            yield "array-form-nested", ser(b)
        if kind == "challenge":
            yield "array-form-tag-only", ser([base.get("type")])
            yield "array-form-unknown-tag", ser(["foo"])
            yield "array-form-unknown-tag-rest", ser(["foo", 1])
            yield "array-form-tag-not-first", ser([base.get("url"), base.get("type"), None, None, None, base.get("token")])
            yield "array-form-number-tag", ser([1] + a[1:])
            yield "array-form-deep", "[" + json.dumps(base.get("type")) + "," + nest(126) + "]"
            yield "array-form-deep", "[" + json.dumps(base.get("type")) + "," + nest(127) + "]"
    # truncations
    text = ser(base)
    cuts = sorted(set([1, 2, len(text) // 2, len(text) - 2, len(text) - 1] +
                      [rng.randrange(1, len(text)) for _ in range(6 if tier == "quick" else 60)]))
    for c in cuts:
        yield "truncated", text[:c]
    yield "trailing-garbage", text + "x"
    yield "trailing-comma", text + ","
    yield "twice", text + text
    yield "twice-ws", text + " " + text
    yield "in-array", "[" + text + "]"
    yield "as-string", json.dumps(text)
    yield "bom", "﻿" + text


STRUCT_FIELDS = {
    "order": ["status", "expires", "identifiers", "notBefore", "notAfter", "error", "authorizations", "finalize", "certificate"],
    "authorization": ["identifier", "status", "expires", "challenges", "wildcard"],
    "challenge": ["type", "url", "status", "validated", "error", "token"],
    "directory": ["meta", "newNonce", "newAccount", "newOrder", "newAuthz", "revokeCert", "keyChange"],
    "account": ["status", "contact", "termsOfServiceAgreed", "externalAccountBinding", "orders"],
    "problem": ["type", "status", "detail"],
    "identifier": ["type", "value"],
}


def boundary_number(rng):
    """A decimal near f64::MAX = 1.7976931348623157e308 (the tie with 2^1024 is at …15807e308…)."""
    digits = rng.choice([16, 17, 18, 19, 20, 21, 25])
    lead = "1797693134862315"
    tail = "".join(rng.choice("0123456789") for _ in range(digits - 16)) if digits > 16 else ""
    last = rng.choice(["6", "7", "7", "8", "8", "9"])
    sig = lead[:15] + last + tail if rng.random() < 0.5 else lead + rng.choice(["7", "8", "80", "81", "79", "807", "808", "8079", "8081"]) + tail
    form = rng.randrange(4)
    n = len(sig)
    if form == 0:
        return "%s.%se308" % (sig[0], sig[1:])
    if form == 1:
        return "%se%d" % (sig, 309 - n)
    if form == 2:
        return sig + "0" * (309 - n)
    k = rng.randrange(1, n)
    return "%s.%se%d" % (sig[:k], sig[k:], 309 - k)


def gen_texts(ctx):
    """[(kind, label, text)]: valid objects, then mutations."""
    rng = ctx.rng
    out = []
    quick = ctx.tier == "quick"
    for kind, mk in KINDS.items():
        bases = []
        if kind == "order":
            bases = [order(rng, s) for s in ORDER_STATUS] + [order(rng, "pending", rich=False)]
        elif kind == "authorization":
            bases = [authorization(rng, s) for s in AUTHZ_STATUS]
        elif kind == "challenge":
            bases = [challenge(rng, t, s) for t in CHAL_TYPES + ["dns-account-01"] for s in CHAL_STATUS]
        elif kind == "directory":
            bases = [directory(rng), directory(rng, rich=False), directory(rng)]
        elif kind == "account":
            bases = [account(rng), account(rng, rich=False), account(rng)]
        else:
            bases = [mk(rng) for _ in range(4)]
        for b in bases:
            out.append((kind, "valid", ser(b)))
        # mutate one base of each kind systematically, the others by sampling
        nfull = 1 if quick else len(bases)
        for bi, b in enumerate(bases):
            ms = list(mutations(rng, kind, b, ctx.tier))
            if bi >= nfull:
                ms = rng.sample(ms, min(len(ms), 60))
            out += [(kind, lab, t) for lab, t in ms]
        for t in NON_JSON:
            out.append((kind, "non-json", t))
    # every kind read as every other kind (an order where an authorization is awaited …)
    for kind, mk in KINDS.items():
        t = ser(mk(rng))
        for other in KINDS:
            if other != kind:
                out.append((other, "other-kind:" + kind, t))
    # deduplicate, keep order
    seen, res = set(), []
    for k, lab, t in out:
        if (k, t) not in seen and len(t) < 200000:
            seen.add((k, t))
            res.append((k, lab, t))
    return res


# --------------------------------------------------------------------------------------------------------
# comparison

ERR_PATTERNS = [
    (r"missing field `([^`]*)`", "missingField"), (r"duplicate field `([^`]*)`", "duplicateField"),
    (r"unknown variant", "unknownVariant"), (r"invalid type", "invalidType"), (r"invalid value", "invalidValue"),
    (r"invalid length", "invalidLength"), (r"number out of range", "numberOutOfRange"),
    (r"recursion limit exceeded", "recursionLimit"), (r"lone leading surrogate in hex escape", "badString"),
    (r"unexpected end of hex escape", "badString"), (r"trailing characters", "trailing"), (r"trailing comma", "trailing"),
    (r"expected value", "expectedValue"),
]


def real_err_class(msg):
    for pat, cls in ERR_PATTERNS:
        m = re.search(pat, msg)
        if m:
            return cls, (m.group(1) if m.groups() else None)
    return "syntax", None


def strip_display(o):
    if isinstance(o, dict):
        return {k: strip_display(v) for k, v in o.items() if k != "display"}
    if isinstance(o, list):
        return [strip_display(x) for x in o]
    return o


def hexs(t):
    return t.encode("utf-8").hex()


def compare_parse(ctx, kind, label, text, real, mod, judge, quiet=False):
    """One text: real = probe answer, mod = model answer, judge = c08obj_judge answer (or None)."""
    robj = {"kind": "acmeobj", "what": "parse", "object": kind, "label": label, "text": text}
    if real.get("died") or "panic" in real:
        ctx.violation("reading a %s body crashes the process (%s)" % (kind, label), dict(robj, real=real))
        return
    if "from_str" not in real or "from_str" not in mod:
        ctx.broke("harness", "acme_parse gave no answer", dict(robj, real=real, model=mod))
        return
    for path in ("json", "from_str"):
        r, m = real[path], mod[path]
        what = "serde_json::from_str::<%s>" % kind if path == "json" else "%s::from_str" % kind
        if bool(r.get("ok")) != bool(m.get("ok")):
            ctx.disagreements += 1
            ctx.broke("correspondence", "%s %s this text (%s), the model %s it" % (
                what, "accepts" if r.get("ok") else "refuses: " + str(r.get("err")), label,
                "accepts" if m.get("ok") else "refuses (%s)" % m.get("err_class")), dict(robj, real=r, model=m))
            continue
        if r.get("ok"):
            if strip_display(r.get("obj")) != m.get("obj"):
                ctx.disagreements += 1
                ctx.broke("correspondence", "%s and the model read different objects from this text (%s)" % (what, label),
                          dict(robj, real=r, model=m))
        else:
            rc, rf = real_err_class(r.get("err", ""))
            mc, mf = m.get("err_class"), m.get("field")
            if mc != "syntax" and (rc, rf) != (mc, mf):
                ctx.disagreements += 1
                ctx.broke("correspondence", "%s fails with `%s`, the model names the first error %s%s (%s)" % (
                    what, r.get("err"), mc, " `%s`" % mf if mf else "", label), dict(robj, real=r, model=m))
    rj = real["json"]
    if not quiet:
        ctx.count("acmeobj:%s:%s" % (kind, "accepted" if rj.get("ok") else "refused"))
        ctx.count("acmeobj:mutation:%s" % label.split(":")[0])
        if not rj.get("ok"):
            ctx.count("acmeobj:error:%s" % real_err_class(rj.get("err", ""))[0])
    if judge is not None:
        if not judge.get("holds"):
            ctx.disagreements += 1
            ctx.violation("a 2xx answer whose body is not a well-formed %s (Spec.C08Obj.validBody: a required member missing "
                          "or ill-typed, a status that is no RFC 8555 word, a duplicate member, not JSON …) is ACCEPTED by "
                          "the code and the step proceeds (%s)" % (kind, label), dict(robj, real=rj, judge=judge))
        elif bool(judge.get("valid_body")) != bool(rj.get("ok")):
            ctx.disagreements += 1
            ctx.broke("correspondence", "Spec.C08Obj.validBody says this %s body is %s, the code %s it (%s): the theorem "
                      "`*_parse_iff` no longer describes the code" % (kind, "well-formed" if judge.get("valid_body") else "malformed",
                                                                      "accepts" if rj.get("ok") else "refuses", label),
                      dict(robj, real=rj, judge=judge))


def run_parse(ctx, texts, quiet=False):
    pops = [{"op": "acme_parse", "kind": k, "text_hex": hexs(t)} for k, _, t in texts]
    reals = vlib.probe(pops, timeout=1200, idle=90)
    mops = []
    for (k, _, t), r in zip(texts, reals):
        mops.append({"op": "acme_parse", "kind": k, "text_hex": hexs(t)})
        if k in AWAITED:
            ok = bool((r.get("json") or {}).get("ok"))
            mops.append({"op": "c08obj_judge", "kind": k, "status": 200, "body_hex": hexs(t),
                         "outcome": "proceeds" if ok else "fails"})
    mods = vlib.model(mops, timeout=1200)
    i = 0
    for (k, lab, t), r in zip(texts, reals):
        m = mods[i]
        i += 1
        j = None
        if k in AWAITED:
            j = mods[i]
            i += 1
        compare_parse(ctx, k, lab, t, r, m, j, quiet=quiet)
        if not quiet:
            ctx.case("acmeobj|%s|%s" % (k, t), nontrivial=lab != "non-json")
    ctx.traces += len(texts)


# --------------------------------------------------------------------------------------------------------
# answers

def gen_answers(ctx, table):
    """[(method, kind, status, ctype, body, label)]"""
    rng = ctx.rng
    urns = ["urn:ietf:params:acme:error:" + row[0] for row in table if row[0]]
    out = []
    good = {"order": ser(order(rng, "ready")), "authorization": ser(authorization(rng, "valid")), "directory": ser(directory(rng)),
            "account": ser(account(rng))}
    bad = {"order": ser(Obj([(k, v) for k, v in order(rng, "ready").pairs if k != "finalize"])),
           "authorization": ser(Obj([(k, ("VALID" if k == "status" else v)) for k, v in authorization(rng, "valid").pairs])),
           "directory": ser(Obj([(k, v) for k, v in directory(rng).pairs if k != "newOrder"])),
           "account": ser(Obj([("status", 5)]))}
    ctypes = ["application/json", "application/problem+json", "text/html", None, "application/json; charset=utf-8",
              "application/pem-certificate-chain"]
    for kind in ("order", "authorization", "account"):
        for st in (200, 201, 299):
            out.append(("POST", kind, st, "application/json", good[kind], "2xx-good"))
            out.append(("POST", kind, st, rng.choice(ctypes), bad[kind], "2xx-malformed"))
        out.append(("POST", kind, 200, "application/json", "<html>", "2xx-non-json"))
        out.append(("POST", kind, 200, "application/json", good[kind] + " x", "2xx-trailing-garbage"))
        out.append(("POST", kind, 200, "application/json", good[kind] + good[kind], "2xx-twice"))
        out.append(("POST", kind, 200, "application/json", good[kind][:-1], "2xx-truncated"))
        out.append(("POST", kind, 200, "application/json", "[" + good[kind] + "]", "2xx-in-array"))
        out.append(("POST", kind, 200, "application/problem+json", ser(Obj([("type", urns[0]), ("detail", "x")])), "2xx-problem-body"))
        out.append(("POST", kind, 204, None, "", "2xx-empty"))
        # a perfectly good object under an error status
        for st in (199, 300, 400, 404, 500, 503):
            if st == 199:
                continue
            out.append(("POST", kind, st, "application/json", good[kind], "non2xx-good-object"))
    # every error type under an error status (order step), content types varied
    for u in urns + ["urn:ietf:params:acme:error:doesNotExist", "urn:ietf:params:acme:error:BadNonce", "about:blank", "",
                     "urn:ietf:params:acme:error:badNonce ", "badNonce"]:
        st = rng.choice([400, 403, 409, 429, 500, 503])
        out.append(("POST", "order", st, rng.choice(ctypes), ser(Obj([("type", u), ("detail", "d"), ("status", st)])), "problem"))
    for body, lab in [('{"detail":"no type"}', "problem-no-type"), ("{}", "problem-empty-object"), ('{"type":null}', "problem-null-type"),
                      ('{"type":5}', "problem-type-number"), ('{"type":"%s","status":"400"}' % urns[3], "problem-status-string"),
                      ('{"type":"%s","status":-1}' % urns[3], "problem-status-negative"), ('{"type":"%s","status":4e2}' % urns[3], "problem-status-float"),
                      ('{"type":"%s","detail":5}' % urns[3], "problem-detail-number"), ('{"type":"%s","type":"%s"}' % (urns[3], urns[3]), "problem-duplicate-type"),
                      ('["%s",400,"d"]' % urns[3], "problem-as-array"), ('["%s",null,null]' % urns[20], "problem-as-array"),
                      ('{"type":"%s","subproblems":[1e999]}' % urns[3], "problem-skipped-member"), ('{"type":"%s"' % urns[3], "problem-truncated"),
                      ('{"type":"%s"} x' % urns[3], "problem-trailing"), ("", "empty"), ("<html>502</html>", "html"), ("null", "json-null"),
                      ("[]", "json-array"), ('"%s"' % urns[3], "json-string"), ("42", "json-number"),
                      ('{"type":"\\u0075rn:ietf:params:acme:error:badNonce"}', "problem-escaped-type"),
                      ('{"type":"urn:ietf:params:acme:error:badNonce\\ud800"}', "problem-bad-surrogate"),
                      ('{"\\u0074ype":"%s"}' % urns[3], "problem-escaped-name"), ('{"Type":"%s"}' % urns[3], "problem-capital-name")]:
        for st in ((400, 500) if ctx.tier == "quick" else (300, 400, 403, 404, 429, 500, 502, 503, 599)):
            out.append(("POST", "order", st, rng.choice(ctypes), body, lab))
    # GET (directory)
    for st in (200, 203):
        out.append(("GET", "directory", st, "application/json", good["directory"], "get-2xx-good"))
        out.append(("GET", "directory", st, "application/json", bad["directory"], "get-2xx-malformed"))
    out.append(("GET", "directory", 200, "text/html", "<html>", "get-2xx-non-json"))
    for st in (400, 404, 500, 503):
        out.append(("GET", "directory", st, "application/json", good["directory"], "get-non2xx-good-object"))
        out.append(("GET", "directory", st, "application/problem+json", ser(Obj([("type", urns[3])])), "get-non2xx-problem"))
    return out


def real_outcome(r):
    """What the step did, from the probe's observation."""
    if r.get("class") == "success":
        j = r.get("json")
        return "proceeds" if (j is None or j.get("ok")) else "fails"
    if r.get("class") == "other" and r.get("posts", 0) > 1:
        return "retries"
    return "fails"


def run_answers(ctx, answers, retry_bound, quiet=False):
    ops = [{"op": "acme_classify", "method": m, "kind": k, "status": st, "ctype": ct, "body_hex": hexs(b)}
           for m, k, st, ct, b, _ in answers]
    reals = vlib.probe(ops, timeout=1200, idle=90)
    mops = []
    for o, r in zip(ops, reals):
        mops.append(o)
        mops.append({"op": "c08obj_judge", "kind": o["kind"], "status": o["status"], "body_hex": o["body_hex"],
                     "outcome": real_outcome(r)})
    mods = vlib.model(mops, timeout=600)
    for i, ((meth, kind, st, ct, body, lab), r) in enumerate(zip(answers, reals)):
        m, j = mods[2 * i], mods[2 * i + 1]
        robj = {"kind": "acmeobj", "what": "answer", "method": meth, "object": kind, "status": st, "ctype": ct, "body": body,
                "label": lab, "real": r, "model": m}
        if r.get("died") or "panic" in r or "class" not in r:
            ctx.violation("answering a %s with status %d (%s) %s" % (meth, st, lab, "makes the client go on for ever (no end of the step "
                          "within 90 s; the retry bound is %s transmissions)" % retry_bound if r.get("hung") else "crashes the client or the probe"), robj)
            continue
        out = real_outcome(r)
        if not quiet:
            ctx.count("acmeobj:answer:%s:%s" % (lab, out))
            ctx.case("acmeobj-answer|%s|%s|%d|%s|%s" % (meth, kind, st, ct, body))
        if not j.get("holds"):
            ctx.disagreements += 1
            ctx.violation("Spec.C08Obj.neverSuccess fails: a %s answered %d (%s) makes the step `%s`" % (meth, st, lab, out), robj)
            continue
        # correspondence with classifyAnswer / stepOutcome
        bad = None
        if r["class"] == "success":
            if m.get("class") != "success":
                bad = "the code returns Ok, the model classifies `%s`" % m.get("class")
            elif out != m.get("outcome"):
                bad = "the code's step %s, the model's %s" % (out, m.get("outcome"))
            elif r.get("body") != body:
                bad = "the body handed on differs from the body served"
        elif r["class"] == "acme":
            if m.get("class") != "acme" or m.get("acme_type") != r.get("acme_type") or m.get("recoverable") or r.get("recoverable") \
                    or r.get("posts") != 1:
                bad = "the code returns ApiError(%s) after %s POST(s), the model: %s" % (r.get("acme_type"), r.get("posts"), m)
        else:
            if meth == "GET":
                if m.get("class") != "other" or r.get("gets") != 1:
                    bad = "the code's GET fails after %s request(s), the model: %s" % (r.get("gets"), m)
            elif r.get("posts") == 1:
                if m.get("class") != "other":
                    bad = "the code gives up at once with `%s`, the model: %s" % (r.get("message"), m)
            # (the wording of the final message is not compared: `retry_bound` POSTs and no ApiError IS "every round
            # was answered with a recoverable error")
            elif not (m.get("class") == "acme" and m.get("recoverable") and r.get("posts") == retry_bound):
                bad = "the code sent %s POSTs and ended with `%s`, the model: %s" % (r.get("posts"), r.get("message"), m)
        if bad:
            ctx.disagreements += 1
            ctx.broke("correspondence", "answer classification (%s %d, %s): %s" % (meth, st, lab, bad), robj)
    ctx.traces += len(answers)


def run_errtypes(ctx, table):
    urns = []
    for row in table:
        if row[0]:
            u = "urn:ietf:params:acme:error:" + row[0]
            urns += [u, u.upper(), u + " ", " " + u, u[:-1], u + "x", row[0], "urn:ietf:params:acme:error:" + row[0].lower(),
                     u.replace("acme:error", "acme:err")]
    urns += ["", "about:blank", "urn:ietf:params:acme:error:", "urn:ietf:params:acme:error:unknown", "é", "\x00"]
    ops = [{"op": "acme_errtype", "type_hex": hexs(u)} for u in urns]
    reals = vlib.probe(ops, idle=90)
    mods = vlib.model(ops)
    for u, r, m in zip(urns, reals, mods):
        ctx.count("acmeobj:errtype:%s" % ("recoverable" if r.get("recoverable") else "other"))
        if r != m:
            ctx.disagreements += 1
            ctx.broke("correspondence", "AcmeError::from(%r) is %s, the model says %s" % (u, r, m),
                      {"kind": "acmeobj", "what": "errtype", "type": u, "real": r, "model": m})
    ctx.traces += len(urns)


def cross_check_classify(ctx, seen):
    """seen: [(status, body text, cls)] — the harness's own reading (py/props/c08.py `classify`, part of C08's
    trusted base) of every POST answer the mock CA served in the black-box runs, against `classifyAnswer`."""
    uniq = {}
    for st, text, cls in seen:
        if isinstance(st, int) and (text is None or isinstance(text, str)) and cls not in ("dropped", "invalidNonceHdr"):
            uniq[(st, text or "")] = cls
    keys = sorted(uniq)
    if not keys:
        return
    mods = vlib.model([{"op": "acme_classify", "status": st, "ctype": None, "body_hex": hexs(t), "kind": "raw"} for st, t in keys])
    for (st, t), m in zip(keys, mods):
        cls = uniq[(st, t)]
        ctx.count("acmeobj:harness-classify:%s" % cls)
        want = {"ok2xx": ("success", None), "notJson": ("other", None), "untypedProblem": ("acme", False),
                "recoverableProblem": ("acme", True), "otherProblem": ("acme", False)}.get(cls)
        if want is None:
            continue
        if m.get("class") != want[0] or (want[1] is not None and bool(m.get("recoverable")) != want[1]) \
                or (cls == "untypedProblem" and m.get("acme_type") != "Unknown"):
            ctx.disagreements += 1
            ctx.broke("correspondence", "py/props/c08.py classify() reads the answer (status %d) as `%s`, classifyAnswer as %s" % (
                st, cls, m), {"kind": "acmeobj", "what": "harness-classify", "status": st, "body": t, "harness": cls, "model": m})
    ctx.traces += len(keys)


def extend(ctx, table, retry_bound=10):
    """table: gen.gen_tables()["acme_errors"] (rows (suffix, variant, recoverable)); retry_bound =
    DEFAULT_HTTP_FAIL_NB_RETRY."""
    texts = gen_texts(ctx)
    run_parse(ctx, texts)
    run_answers(ctx, gen_answers(ctx, table), retry_bound)
    run_errtypes(ctx, table)
    for kind in KINDS:
        for k, lab, t in texts:
            if k == kind and lab == "valid":
                ctx.sample({"acmeobj": kind, "text": t}, limit=40)
                break
    return len(texts)


def replay(ctx, obj, table, retry_bound=10):
    """One stored case again (0 = holds, 1 = fails)."""
    if obj.get("what") == "parse":
        run_parse(ctx, [(obj["object"], obj.get("label", "replay"), obj["text"])], quiet=True)
    elif obj.get("what") == "answer":
        run_answers(ctx, [(obj["method"], obj["object"], obj["status"], obj.get("ctype"), obj["body"], obj.get("label", "replay"))],
                    retry_bound, quiet=True)
    else:
        run_errtypes(ctx, table)
    for d, _ in ctx.violations:
        print("VIOLATED:", d)
    for w, d, _ in ctx.broken:
        print("NO LONGER CHECKS (%s): %s" % (w, d))
    return 1 if (ctx.violations or ctx.broken) else 0
