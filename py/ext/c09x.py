"""C09 extension: limit sets and arrival patterns the base generator of props/c09.py does not produce.

deterministic (appended to the `rl_case` stream; same comparison with Model.Limiter, same independent
`window_full` reading): n = 0 (a limit that allows nothing must be refused), periods "0s", multi-part and h/d/w
spellings, pairs of limits with EQUAL periods spelt differently.

flows (real daemon against the mock CA; arrival times judged by the same op `judge_c09`, 40 % latency slack):
  attempts      several consecutive FAILING attempts of one certificate inside one window (the admission log
                must survive the end of an attempt);
  multi-limit   an endpoint with two limits attached through the configuration, in both orders of the name
                list (every attached limit binds);
  two-eps       two endpoints with different limits in one daemon (each CA's arrivals against ITS limit), two
                accounts on the limited one;
  call-sites    a re-registration after accountDoesNotExist, and a restart with changed contacts and account key
                type (contact update + key roll-over POSTs) under a limit;
  contention    three certificates on one endpoint with retried newOrder, nonce fetches and a cut connection;
  transport     REPEATED transport faults: more than n requests of one period are read by the server (logged as
                arrivals) and then the connection is closed, or reset, before any answer — at the directory GET and
                at POSTs (newAccount, newOrder), two or three certificates on one endpoint whose failing attempts
                follow one another, under 2 per 8 s / 3 per 6 s.  A request the server received counts, whatever
                became of its answer.
"""
import concurrent.futures
import os
import random
import time

import cfggen
import flow
import mockca
import vlib

NS = 10 ** 9
MULT = {"s": 1, "m": 60, "h": 3600, "d": 86400, "w": 604800}


def parse_secs(txt):
    total, num = 0, ""
    for ch in txt:
        if ch.isdigit():
            num += ch
        else:
            total += int(num) * MULT[ch]
            num = ""
    return total


def edge_cases(seed, uptime_ns, n):
    rng = random.Random(seed * 13 + 9)
    out = []
    spell = [("90s", "1m30s"), ("60s", "1m"), ("3600s", "1h"), ("3600s", "60m"), ("120s", "2m"), ("86400s", "1d"),
             ("604800s", "1w"), ("61s", "1m1s"), ("3661s", "1h1m1s"), ("2s", "1s1s"), ("7s", "7s")]
    max_ago = min(uptime_ns - 2 * NS, 130 * NS)
    for i in range(n):
        k = i % 4
        if k == 0:        # a limit of zero requests, alone or next to a good one
            limits = [[0, rng.choice(["1s", "5s", "1m", "2s"])]]
            if rng.random() < 0.5:
                limits.insert(rng.randint(0, 1), [rng.randint(1, 9), "%ds" % rng.randint(1, 30)])
        elif k == 1:      # equal periods, different spellings, different n
            a, b = rng.choice(spell)
            limits = [[rng.randint(1, 12), a], [rng.randint(1, 12), b]]
            if rng.random() < 0.4:
                limits.append([rng.randint(1, 20), "%ds" % rng.randint(1, 100)])
            rng.shuffle(limits)
        elif k == 2:      # spellings on their own + a zero period
            limits = [[rng.randint(1, 10), rng.choice(spell)[1]]]
            if rng.random() < 0.5:
                limits.append([rng.randint(1, 5), "0s"])
        else:
            limits = [[rng.randint(1, 6), rng.choice(["0s", "0m", "1s", "2s"])], [rng.randint(1, 20), rng.choice(spell)[rng.randint(0, 1)]]]
        bounds = [parse_secs(l[1]) * NS for l in limits]
        agos = []
        for _ in range(rng.randint(0, 22)):
            for _try in range(20):
                if rng.random() < 0.5:
                    a = rng.choice(bounds) + rng.choice([-1, 1]) * rng.randint(30, 400) * 10 ** 6
                else:
                    a = rng.randint(0, max(max_ago, NS))
                if a <= 30 * 10 ** 6 or a >= max_ago or any(abs(a - b) < 30 * 10 ** 6 for b in bounds):
                    continue
                agos.append(a)
                break
        agos.sort(reverse=True)
        out.append({"op": "rl_case", "limits": limits, "ago_ns": agos})
    return out


# ---------------------------------------------------------------------------------------------------------
# flows

def problem(typ, status, nonce="fresh"):
    return {"status": status, "ctype": "application/problem+json", "body": {"type": mockca.ERR + typ, "detail": "x"}, "nonce": nonce}


def scenarios(ctx):
    quick = ctx.quick()
    rng = random.Random(ctx.seed * 13 + 10)
    scs = [
        # (the limiter sleeps period/5n before every admission: the numbers are chosen so that a log that does not
        #  survive an attempt lets the 5th request through > 1 s earlier than the 40 % latency slack forgives)
        {"kind": "attempts", "limits": [["rl", 4, 10]], "n_reports": 3},
        {"kind": "multi-limit", "limits": [["a", 3, 1], ["b", 8, 4]], "names": ["a", "b"]},
        {"kind": "multi-limit", "limits": [["a", 3, 1], ["b", 8, 4]], "names": ["b", "a"]},
        {"kind": "two-eps", "limits": [["slow", 3, 1], ["fast", 6, 1]]},
        {"kind": "call-sites", "limits": [["rl", 3, 2]]},
        {"kind": "contention", "limits": [["rl", 4, 1]], "ncerts": 3},
        # (every attempt fails at `pos`: the run is watched until `n_reports` failure reports: > n faulty requests
        #  in the first period, and the first request after it)
        {"kind": "transport", "limits": [["rl", 2, 8]], "ncerts": 3, "pos": "directory", "drop": True, "n_reports": 5},
        {"kind": "transport", "limits": [["rl", 3, 6]], "ncerts": 3, "pos": "newAccount", "drop": "reset", "n_reports": 4},
        {"kind": "transport", "limits": [["rl", 3, 6]], "ncerts": 2, "pos": "newOrder", "drop": True, "n_reports": 4},
    ]
    if not quick:
        scs += [{"kind": "attempts", "limits": [["rl", rng.randint(3, 5), rng.randint(9, 12)]], "n_reports": 4},
                {"kind": "multi-limit", "limits": [["a", 2, 1], ["b", 5, 3], ["c", 9, 8]], "names": ["c", "a", "b"]},
                {"kind": "multi-limit", "limits": [["a", 2, 1], ["b", 5, 3], ["c", 9, 8]], "names": ["b", "c", "a"]},
                {"kind": "contention", "limits": [["rl", 2, 2]], "ncerts": 3},
                {"kind": "call-sites", "limits": [["rl", 1, 1]]},
                {"kind": "two-eps", "limits": [["slow", 2, 2], ["fast", 5, 1]]},
                {"kind": "transport", "limits": [["rl", 2, 8]], "ncerts": 2, "pos": "directory", "drop": "reset", "n_reports": 5},
                {"kind": "transport", "limits": [["rl", 1, 5]], "ncerts": 3, "pos": "newAccount", "drop": True, "n_reports": 3},
                {"kind": "transport", "limits": [["rl", 2, 4]], "ncerts": 3, "pos": "newOrder", "drop": "reset", "n_reports": 6},
                {"kind": "transport", "limits": [["a", 2, 4], ["b", 5, 12]], "names": ["a", "b"], "ncerts": 3, "pos": rng.choice(["directory", "newOrder"]),
                 "drop": rng.choice([True, "reset"]), "n_reports": 6}]
    for i, s in enumerate(scs):
        s["idx"] = 200 + i
    return scs


def arrivals(ca, since=0):
    reqs = [e for e in ca.log[since:] if e["kind"] == "req"]
    return [e["t"] for e in reqs], [e["rk"] for e in reqs]


def run_flow(sc, root, helper):
    d = os.path.join(root, "x%d" % sc["idx"])
    os.makedirs(d, exist_ok=True)
    kind = sc["kind"]
    rls = [{"name": n, "number": k, "period": "%ds" % p} for n, k, p in sc["limits"]]
    ident = lambda n: [{"dns": n + ".example.org", "challenge": "http-01"}]
    out = {"sc": sc, "streams": []}       # stream: {"limits": [[n, period_s]], "arrivals", "kinds", "what"}
    rules, opts = [], {"polls_before_valid": 1}
    certs = [{"name": "crt", "identifiers": ident("a"), "key_type": "ecdsa_p256"}]
    accounts = None
    n_reports = 1
    if kind == "attempts":
        rules.append({"kind": "newOrder", "times": 10 ** 6, "answer": problem("unauthorized", 403)})
        n_reports = sc["n_reports"]
    elif kind == "call-sites":
        rules.append({"kind": "newOrder", "nth": 0, "answer": problem("accountDoesNotExist", 400)})
        opts["valid_secs"] = 86400           # due again at the restart
    elif kind == "contention":
        certs = [{"name": "crt%d" % k, "identifiers": ident("c%d" % k), "key_type": "ecdsa_p256"} for k in range(sc["ncerts"])]
        rules.append({"kind": "newOrder", "times": 3, "answer": problem("serverInternal", 503, "none")})
        rules.append({"kind": "authz", "nth": 1, "answer": {"drop": True}})
        opts["nonce_on_get"] = False
        n_reports = sc["ncerts"] + 1          # one attempt is cut and repeated
    elif kind == "transport":
        certs = [{"name": "crt%d" % k, "identifiers": ident("t%d" % k), "key_type": "ecdsa_p256"} for k in range(sc["ncerts"])]
        # (the mock CA logs the arrival when it has read the request, BEFORE it looks for a rule and drops the connection)
        rules.append({"kind": sc["pos"], "times": 10 ** 6, "answer": {"drop": sc["drop"]}, "label": "transport"})
        n_reports = sc["n_reports"]
    ca = mockca.MockCA(helper, rules=rules, opts=opts)
    ca.start()
    ca2 = None
    endpoints = None
    if kind == "two-eps":
        ca2 = mockca.MockCA(helper)
        ca2.start()
        endpoints = [{"name": "ep1", "url": ca.base + "/directory", "tos_agreed": True, "rate_limits": ["slow"]},
                     {"name": "ep2", "url": ca2.base + "/directory", "tos_agreed": True, "rate_limits": ["fast"]}]
        accounts = [{"name": "acc1", "contacts": [{"mailto": "a@example.org"}]}, {"name": "acc2", "contacts": [{"mailto": "b@example.org"}]}]
        certs = [{"name": "s1", "identifiers": ident("s1"), "key_type": "ecdsa_p256", "endpoint": "ep1", "account": "acc1"},
                 {"name": "s2", "identifiers": ident("s2"), "key_type": "ecdsa_p256", "endpoint": "ep1", "account": "acc2"},
                 {"name": "f1", "identifiers": ident("f1"), "key_type": "ecdsa_p256", "endpoint": "ep2", "account": "acc1"}]
        n_reports = 3
    cfg, log = flow.make_config(d, ca.base + "/directory", certs, accounts=accounts, rate_limits=rls, endpoints=endpoints)
    if kind != "two-eps":
        cfg["endpoint"][0]["rate_limits"] = sc.get("names") or [rls[0]["name"]]
    cfg_path = cfggen.write(os.path.join(d, "acmed.toml"), cfg)
    dmn = flow.Daemon(cfg_path)
    life = lambda: len(ca.log) + (len(ca2.log) if ca2 else 0)
    done = flow.wait_progress(lambda: len(flow.post_ops(log)) >= n_reports or not dmn.alive(), life, idle=60, cap=600)
    rc = dmn.stop()
    out["done"] = bool(done) and rc is None
    lim = {n: [k, p] for n, k, p in sc["limits"]}
    if kind == "two-eps":
        for c, name in ((ca, "slow"), (ca2, "fast")):
            a, k = arrivals(c)
            out["streams"].append({"limits": [lim[name]], "arrivals": a, "kinds": k, "what": name})
    else:
        a, k = arrivals(ca)
        out["streams"].append({"limits": [lim[n] for n in (sc.get("names") or [rls[0]["name"]])], "arrivals": a, "kinds": k, "what": "phase 1"})
    if kind == "call-sites" and out["done"]:
        # restart: contacts and the account key type edited: contact update + key roll-over, then the renewal
        since = len(ca.log)
        cfg["account"][0]["contacts"] = [{"mailto": "changed@example.org"}]
        cfg["account"][0]["key_type"] = "ecdsa_p384"
        cfggen.write(cfg_path, cfg)
        n0 = len(flow.post_ops(log))
        dmn = flow.Daemon(cfg_path)
        done = flow.wait_progress(lambda: len(flow.post_ops(log)) > n0 or not dmn.alive(), lambda: len(ca.log), idle=60, cap=600)
        rc = dmn.stop()
        out["done"] = bool(done) and rc is None
        a, k = arrivals(ca, since)
        out["streams"].append({"limits": [lim["rl"]], "arrivals": a, "kinds": k, "what": "after the restart"})
    ca.stop()
    if ca2:
        ca2.stop()
    out["dropped"] = sum(1 for e in ca.log if e["kind"] == "ans" and e.get("drop"))
    out["stderr"] = dmn.stderr()[-400:]
    return out


def judge_flow(ctx, r):
    sc = r["sc"]
    ctx.case({"xflow": sc}, nontrivial=True)
    ctx.count("x:flow:" + sc["kind"])
    if not r["done"]:
        ctx.broke("harness", "the rate-limited scenario `%s` did not reach its reports (or the daemon ended): %s" % (sc["kind"], r.get("stderr")),
                  {"part": "x:flow", "sc": sc})
        return
    for st in r["streams"]:
        ev = None
        ok = True
        worst = None
        for n, per in st["limits"]:
            p = per * NS
            slack = int(0.4 * p)
            ev = [[str(t), str(t + slack)] for t in st["arrivals"]]
            v = vlib.model([{"op": "judge_c09", "limits_ns": [[n, str(p)]], "events": ev, "bound_ns": str(10 ** 15)}])[0]
            ctx.count("x:flow:%s:requests" % sc["kind"], len(st["arrivals"]))
            if not v["holds"]:
                gaps = [(st["arrivals"][i + n] - st["arrivals"][i]) / 1e9 for i in range(len(st["arrivals"]) - n)]
                i = min(range(len(gaps)), key=lambda k: gaps[k])
                ok, worst = False, (n, per, i, gaps[i])
                break
        for k in set(st["kinds"]):
            ctx.count("x:flow:kind:" + k, st["kinds"].count(k))
        if not ok:
            n, per, i, gap = worst
            ctx.violation("%s (%s): limit %d per %d s: requests %d..%d (%s) reached the server within %.3f s" % (
                sc["kind"], st["what"], n, per, i, i + n, st["kinds"][i:i + n + 1], gap),
                {"part": "x:flow", "sc": sc, "stream": st})
            return
    if sc["kind"] == "transport":
        ctx.count("x:flow:transport:%s:%s" % (sc["pos"], "reset" if sc["drop"] == "reset" else "closed"))
        ctx.count("x:flow:transport:requests-read-then-unanswered", r.get("dropped", 0))
        if r.get("dropped", 0) <= max(n for _, n, _ in sc["limits"]):
            ctx.broke("harness", "transport: only %d requests were left unanswered (limit %s)" % (r.get("dropped", 0), sc["limits"]), {"part": "x:flow", "sc": sc})
    if sc["kind"] == "call-sites":
        kinds = r["streams"][0]["kinds"]
        if kinds.count("newAccount") < 2:
            ctx.broke("harness", "call-sites: no re-registration was observed", {"part": "x:flow", "sc": sc, "kinds": kinds})
        k2 = r["streams"][1]["kinds"] if len(r["streams"]) > 1 else []
        ctx.count("x:flow:call-sites:keyChange", k2.count("keyChange"))
        ctx.count("x:flow:call-sites:account-update", k2.count("account"))
        if "keyChange" not in k2 or "account" not in k2:
            ctx.broke("harness", "call-sites: the restart produced no contact update / key roll-over", {"part": "x:flow", "sc": sc, "kinds": k2})
    ctx.traces += 1


def start(ctx):
    vlib.build_helper()
    helper = mockca.Helper()
    root = os.path.join(vlib.BUILD, "scratch", "c09x-%d" % os.getpid())
    scs = scenarios(ctx)
    ex = concurrent.futures.ThreadPoolExecutor(max_workers=12)
    return {"ex": ex, "futs": [ex.submit(run_flow, s, root, helper) for s in scs], "t0": time.time(), "helper": helper,
            "root": root}


def finish(ctx, handle):
    import shutil
    try:
        for f in handle["futs"]:
            judge_flow(ctx, f.result())
    finally:
        handle["ex"].shutdown()
        handle["helper"].close()
        shutil.rmtree(handle["root"], ignore_errors=True)
    ctx.notes.append("c09x flows: %.1f s" % (time.time() - handle["t0"]))


def replay(ctx, obj):
    vlib.build_acmed()
    vlib.build_helper()
    helper = mockca.Helper()
    import shutil
    root = os.path.join(vlib.BUILD, "scratch", "c09x-replay-%d" % os.getpid())
    n0 = len(ctx.violations)
    try:
        judge_flow(ctx, run_flow(dict(obj["sc"], idx=0), root, helper))
    finally:
        helper.close()
        shutil.rmtree(root, ignore_errors=True)
    for d, _ in ctx.violations[n0:]:
        print(d)
    return 1 if len(ctx.violations) > n0 else 0
