"""C19 (auditd): a wider input space for the start-up property, same judge (Spec.C19 through c19_judge).

* `more_periods`     — period strings with 10^4..10^5 parts and 25..1000 digits (compared with the model
                       like every other period string).
* `add_cases`        — more configurations for `config_part`: cfggen.hazards_more (tables missing /
                       duplicated, file-name formats, size and depth, more cycle and include shapes) and
                       the RECURSIVE field mutations of a base configuration with every optional field set.
* `first_schedule_part` — every configuration through probe op `first_schedule` (real start-up + the real
                       `schedule_renewal` of every certificate) with a VALID key + certificate pair installed
                       where the configuration will look for it.
* `daemon_part`      — the REAL binary through main.rs (`-f`, `--no-pid-file` | `--pid-file`) for a few seconds.
Daemonised mode (no -f) is out of scope.  Everything random comes from ctx.rng."""
import concurrent.futures
import os
import shutil
import stat
import subprocess
import time

import cfggen
import vlib

SCHED_TIMEOUT_MS = 2500
DEFAULT_FORMAT = "{{ name }}_{{ key_type }}.{{ file_type }}.{{ ext }}"
KEY_TYPES = {"rsa2048": "rsa2048", "rsa4096": "rsa4096", "ecdsa_p256": "ecdsa-p256", "ecdsa_p384": "ecdsa-p384",
             "ecdsa_p521": "ecdsa-p521", "ed25519": "ed25519", "ed448": "ed448"}
REPLAY_OPS = ("first_schedule", "daemon")
# path of main.toml -> {"extra": {rel: text}, "catalogue": True | False}
META = {}
# controls that look like hazards but are valid: counted by outcome (the judge accepts `rejected` too)
EXPECTED_TO_START = ("full-base", "group-cycle-unreferenced", "group-same-name-second-cyclic", "group-empty",
                     "include-star-toml-clean", "include-dev-null", "include-absolute-path", "include-chain-30",
                     "group-deep-acyclic-30", "global-only-in-include",
                     "include-same-file-thrice", "group-deep-30-by-100-certificates",
                     "include-glob-matching-the-including-file")
SAME_TYPE_KINDS = ("empty", "unicode", "long", "nul", "newline", "template", "emptylist", "unknownref", "emptyitem",
                   "doubled", "x300", "emptytable", "emptykey")
# hazards of the environment (label env-…): only ever run as a daemon under its window, counted, not judged
ENV_CASES = []


def probe_parallel(ops, n=6, timeout=1800):
    """vlib.probe on n processes (op i goes to process i mod n; results in the order of `ops`).  Most of the
    wall time of a start-up observation is the limiter's first sleep (100 ms, by design) and the time-outs:
    waiting, not computing."""
    if len(ops) < 2 * n:
        return vlib.probe(ops, timeout=timeout)
    with concurrent.futures.ThreadPoolExecutor(max_workers=n) as ex:
        parts = list(ex.map(lambda i: vlib.probe(ops[i::n], timeout=timeout), range(n)))
    out = [None] * len(ops)
    for i, part in enumerate(parts):
        out[i::n] = part
    return out


def reobserve_hung(ctx, ops, impl, verdicts, obs_fn, tries=2):
    """An observation classified `hung` (no answer within the time-out) is repeated, alone, with the SAME
    time-out, up to `tries` times: on a machine busy with other builds 2.5 s can pass without the process
    having been scheduled.  A real hang stays a hang in every observation; the verdict is that of the last one."""
    for i in range(len(verdicts)):
        n = 0
        while verdicts[i].get("class") == "hung" and n < tries:
            n += 1
            ctx.count("reobserved-after-time-out")
            impl[i] = vlib.probe([ops[i]], timeout=1800)[0]
            verdicts[i] = vlib.model([{"op": "c19_judge", "start_obs": obs_fn(impl[i])}])[0]


# ---------------------------------------------------------------------------------------------
# period strings

def more_periods(ctx):
    rng = ctx.rng
    big = 100000 if not ctx.quick() else 20000
    out = ["1s" * 10000, "1s" * big, "1w2d3h4m5s" * (big // 5), "1s" * 9999 + "x", "x" + "1s" * 9999,
           "18446744073709551615s" + "0s" * 10000, "18446744073709551615s" + "0s" * 10000 + "1s",
           "30500568904943w" + "0w" * 10000, "1s" * 5000 + " " + "1s" * 5000]
    for digits in (20, 21, 25, 64, 1000, 100000):
        out.append("0" * (digits - 1) + "5s")                      # leading zeros, small value: accepted
        out.append("0" * (digits - 20) + "18446744073709551615s" if digits >= 20 else "5s")
        out.append("0" * max(digits - 20, 0) + "18446744073709551616s")
        out.append("9" * digits + "s")                              # huge: rejected
        out.append("1" + "0" * (digits - 1) + "w")
    for _ in range(6 if ctx.quick() else 60):
        n = rng.choice([10000, 30000, big])
        unit = rng.choice("smhdw")
        z = "0" * rng.choice([0, 1, 24, 30])
        s = "".join("%s%d%s" % (z, rng.randint(0, 9), rng.choice("smhdw") if rng.random() < 0.3 else unit)
                    for _ in range(n))
        if rng.random() < 0.3:
            k = rng.randrange(len(s))
            s = s[:k] + rng.choice(["x", " ", "-", "ss", "18446744073709551615w"]) + s[k:]
        out.append(s)
    for s in out:
        ctx.count("period:long:%s" % ("parts>=1000" if sum(s.count(u) for u in "smhdw") >= 1000 else "digits>=20"))
    return out


# ---------------------------------------------------------------------------------------------
# more configurations

def _write_extra(path, text):
    if text == "FIFO:":
        os.makedirs(os.path.dirname(path), exist_ok=True)
        if os.path.lexists(path):
            os.remove(path)
        os.mkfifo(path)
        return path
    return cfggen.write(path, text)


def _reroot(v, old, new):
    if isinstance(v, str):
        return new + v[len(old):] if v.startswith(old) else v
    if isinstance(v, list):
        return [_reroot(x, old, new) for x in v]
    if isinstance(v, dict):
        return {k: _reroot(x, old, new) for k, x in v.items()}
    return v


def add_cases(ctx, cases, scratch, url, helper, idx):
    """Appends (label, path of main.toml, cfg) to `cases`; returns the next free index."""
    root = os.path.join(scratch, "x")
    for label, cfg, extra in cfggen.hazards_more(root, url, thorough=not ctx.quick()):
        d = os.path.join(root, "c%d" % idx)
        idx += 1
        for rel, text in extra.items():
            _write_extra(os.path.join(d, rel), text)
        if isinstance(cfg, dict) and isinstance(cfg.get("global"), dict) and cfg["global"]:
            cfg["global"]["accounts_directory"] = os.path.join(d, "accounts")
            cfg["global"]["certificates_directory"] = os.path.join(d, "certs")
        if isinstance(cfg, dict):
            cfg = _reroot(cfg, os.path.join(root, "crt-dir"), os.path.join(d, "crt-dir"))
        p = cfggen.write(os.path.join(d, "main.toml"), cfg)
        META[p] = {"extra": extra, "catalogue": True}
        (ENV_CASES if label.startswith("env-") else cases).append((label, p, cfg))
        ctx.count("more-hazards:" + label.split("-")[0])
    # every optional field present, mutated recursively
    pem = helper.call({"op": "selfsigned", "dns": ["root.example"], "ips": [], "not_after_offset": 3650 * 86400,
                       "not_before_offset": -3600}).get("cert_pem")
    froot = os.path.join(scratch, "f")
    full = cfggen.base_full(froot, url, root_pem=pem)
    cfggen.write(os.path.join(froot, "full", "main.toml"), full)
    cases.append(("full-base", os.path.join(froot, "full", "main.toml"), full))
    muts = list(cfggen.field_mutations_deep(full))
    if ctx.quick():
        # stratified: for EVERY field (label up to the colon) one structural mutation (delete / duplicate /
        # unknown key), one that changes the type, one that keeps the type but not the meaning
        by_field = {}
        for m in muts:
            field, kind = m[0].rsplit(":", 1)
            klass = (0 if kind in ("delete", "duplicate", "unknownkey") else
                     2 if kind in SAME_TYPE_KINDS or (kind[:3] == "int" and kind[3:4] in "-0123456789" and kind[3:]) else 1)
            by_field.setdefault(field, {}).setdefault(klass, []).append(m)
        muts = [ctx.rng.choice(by_field[f][k]) for f in by_field for k in sorted(by_field[f])]
    ctx.count("full-mutation:fields", len({m[0].rsplit(":", 1)[0] for m in muts}))
    for label, cfg in muts:
        d = os.path.join(froot, "c%d" % idx)
        idx += 1
        # directories of its own (the daemon writes there); the shared input files (root.pem, hook stdin) stay
        for sub in ("accounts", "certs", "crt-dir", "h1.", "h2."):
            cfg = _reroot(cfg, os.path.join(froot, sub), os.path.join(d, sub))
        p = cfggen.write(os.path.join(d, "main.toml"), cfg)
        cases.append(("full:" + label, p, cfg))
        kind = label.rsplit(":", 1)[1]
        ctx.count("full-mutation:" + ("int" if kind.startswith("int") and kind != "intitem" and kind != "intvalue" else kind))
    return idx


# ---------------------------------------------------------------------------------------------
# a valid key + certificate pair where the configuration will look for it

def make_pairs(helper):
    pairs = {}
    for tag, off in (("90d", 90 * 86400), ("20d", 20 * 86400), ("1h", 3600), ("expired", -86400)):
        r = helper.call({"op": "selfsigned", "dns": ["example.org"], "ips": ["192.0.2.7"], "not_after_offset": off,
                         "not_before_offset": min(-3600, off - 3600)})
        if "err" not in r and "cert_pem" in r:
            pairs[tag] = r
    return pairs


def _render(fmt, name, kt, ftype, ext):
    s = fmt.replace("{{ name | rev_labels }}", ".".join(reversed(name.split("."))))
    for k, v in (("name", name), ("key_type", kt), ("file_type", ftype), ("ext", ext)):
        s = s.replace("{{ %s }}" % k, v)
    if not s or "{{" in s or "{%" in s or "\x00" in s or len(s) > 200:
        return None
    return s


def cert_targets(cfg):
    """(directory, certificate file name, key file name) for every certificate of a configuration whose
    file names this harness can predict (plain strings, the four documented variables)."""
    if not isinstance(cfg, dict):
        return
    g = cfg.get("global") if isinstance(cfg.get("global"), dict) else {}
    eps = {}
    for e in cfg.get("endpoint", []) or []:
        if isinstance(e, dict) and isinstance(e.get("name"), str):
            eps.setdefault(e["name"], e)
    for c in cfg.get("certificate", []) or []:
        if not isinstance(c, dict):
            continue
        d = c.get("directory", g.get("certificates_directory"))
        if not isinstance(d, str) or not d.startswith(vlib.BUILD + os.sep):
            continue
        name = c.get("name")
        if name is None:
            ids = c.get("identifiers")
            first = ids[0] if isinstance(ids, list) and ids and isinstance(ids[0], dict) else {}
            name = first.get("dns", first.get("ip"))
        kt = c.get("key_type", "rsa2048")
        ep = eps.get(c.get("endpoint")) if isinstance(c.get("endpoint"), str) else None
        fmt = c.get("file_name_format", (ep or {}).get("file_name_format", g.get("file_name_format", DEFAULT_FORMAT)))
        cext, kext = g.get("cert_file_ext", "pem"), g.get("pk_file_ext", "pem")
        if not all(isinstance(x, str) for x in (name, kt, fmt, cext, kext)) or not name or len(name) > 100:
            continue
        kt = KEY_TYPES.get(kt.lower().replace("-", "_"))
        if kt is None:
            continue
        for ch in "*:/":
            name = name.replace(ch, "_")
        crt, key = _render(fmt, name, kt, "crt", cext), _render(fmt, name, kt, "pk", kext)
        if crt and key:
            yield d, crt, key


def install_pairs(ctx, cases, pairs):
    done = set()
    # mostly certificates that are not due: the decision then goes through renew_in
    tags = [t for t in sorted(pairs) for _ in range({"90d": 4, "20d": 2}.get(t, 1))]
    if not tags:
        ctx.count("sched:no-pair-made")
        return
    for label, path, cfg in cases:
        for d, crt, key in cert_targets(cfg):
            if (d, crt) in done:
                continue
            done.add((d, crt))
            tag = ctx.rng.choice(tags)
            try:
                for n, (rel, text) in enumerate(((crt, pairs[tag]["cert_pem"]), (key, pairs[tag]["key_pem"]))):
                    parts = rel.split("/")
                    if len(parts) > 1:
                        # "<name>/../x": the directory in front of `..` must exist for the path to resolve
                        os.makedirs(os.path.join(d, parts[0]), exist_ok=True)
                    full = os.path.join(d, rel)
                    if not os.path.normpath(full).startswith(vlib.BUILD + os.sep):
                        raise OSError("outside scratch")
                    os.makedirs(d, exist_ok=True)
                    # one name for both files (no {{ file_type }} in the format): certificate first, key appended
                    with open(full, "a" if n == 1 and crt == key else "w") as f:
                        f.write(text)
                ctx.count("pair-installed:" + tag)
            except OSError:
                ctx.count("pair-not-installed")


# ---------------------------------------------------------------------------------------------
# first_schedule

def sched_obs(res, timeout_ms):
    """The raw facts of one start-up + first scheduling decision, as Spec.C19.StartObs wants them: a
    decision that did not come within the time-out is a request that never happens (no rate limit excuses it)."""
    res = res if isinstance(res, dict) else {"died": True}
    sc = (res.get("loaded") or {}).get("schedules", []) if isinstance(res.get("loaded"), dict) else []
    return {"died": bool(res.get("died")), "panicked": "panic" in res, "rejected": "rejected" in res,
            "loaded": "loaded" in res, "late": [[] for r in sc if r[1] not in ("ok", "err")], "timeout_ms": timeout_ms}


def _config_text(path, limit=300000):
    try:
        if os.path.getsize(path) > limit:
            return None
        with open(path, errors="replace") as f:
            return f.read()
    except OSError:
        return None


def _replay_obj(op, label, path, impl, **kw):
    m = META.get(path, {})
    extra = {k: v for k, v in m.get("extra", {}).items() if len(v) < 20000}
    return dict({"op": op, "label": label, "config_text": _config_text(path), "extra_files": extra,
                 "catalogue": bool(m.get("catalogue")), "impl": impl}, **kw)


def first_schedule_part(ctx, cases, helper, scratch):
    t0 = time.time()
    pairs = make_pairs(helper)
    install_pairs(ctx, cases, pairs)
    todo = [(l, p, c) for l, p, c in cases if not l.startswith("env-")]
    ops = [{"op": "first_schedule", "path": p, "timeout_ms": SCHED_TIMEOUT_MS} for _, p, _ in todo]
    impl = probe_parallel(ops)
    verdicts = vlib.model([{"op": "c19_judge", "start_obs": sched_obs(r, SCHED_TIMEOUT_MS)} for r in impl]) if impl else []
    reobserve_hung(ctx, ops, impl, verdicts, lambda r: sched_obs(r, SCHED_TIMEOUT_MS))
    for (label, path, cfg), res, v in zip(todo, impl, verdicts):
        cls = v.get("class", "unknown")
        ctx.count("sched:" + cls)
        ctx.case({"config": label, "op": "first_schedule"})
        if label in EXPECTED_TO_START:
            ctx.count("valid-control:%s" % ("starts" if cls == "starts" else label + ":" + cls))
        for r in ((res.get("loaded") or {}).get("schedules", []) if isinstance(res, dict) and "loaded" in res else []):
            ctx.count("sched:certificate:" + ("renew-now" if r[1] == "ok" and r[2] == "0" else
                                              "wait" if r[1] == "ok" else r[1]))
        if not v.get("holds"):
            ctx.violation("configuration %s: first scheduling decision: outcome %s (%s)" % (label, cls, str(res)[:200]),
                          _replay_obj("first_schedule", label, path, res))
    for (label, path, cfg), res in zip(todo, impl):
        if label == "global-random_early_renew-5000w":
            ctx.sample({"config": label, "first_schedule": res})
    ctx.traces += len(todo)
    # counted only, never judged: a file-name template may LOOP; its cost is the product of its nested ranges
    loops = "{% for i in range(2000) %}{% for j in range(2000) %}{% endfor %}{% endfor %}z"
    d = os.path.join(scratch, "template-loop")
    c = cfggen.base(d, "http://127.0.0.1:9/directory")
    c["global"]["file_name_format"] = loops
    p = cfggen.write(os.path.join(d, "main.toml"), c)
    r = vlib.probe([{"op": "first_schedule", "path": p, "timeout_ms": 400}], timeout=300)[0]
    sc = (r.get("loaded") or {}).get("schedules", [[None, "?"]]) if isinstance(r, dict) else [[None, "died"]]
    ctx.count("observed-only:template-4e6-iterations-within-400ms:" + ("yes" if sc and sc[0][1] == "ok" else "no"))
    # counted only: minijinja 2.8 keeps line and column in 16 bits; a build with overflow checks (the dev profile
    # of this harness) panics on a template line of 65536 characters, a release build wraps silently
    d = os.path.join(scratch, "template-long-line")
    c = cfggen.base(d, "http://127.0.0.1:9/directory")
    c["global"]["file_name_format"] = "y" * 65536
    p = cfggen.write(os.path.join(d, "main.toml"), c)
    r = vlib.probe([{"op": "first_schedule", "path": p, "timeout_ms": SCHED_TIMEOUT_MS}], timeout=300)[0]
    ctx.count("observed-only:template-line-65536-characters:" +
              ("panicked" if isinstance(r, dict) and "panic" in r else "loaded" if isinstance(r, dict) and "loaded" in r else "other"))
    ctx.count("wall-seconds:first_schedule_part", int(time.time() - t0))


# ---------------------------------------------------------------------------------------------
# the real binary through main.rs

def uses_default_dirs(cfg):
    """True if the daemon would work in the compiled-in default directories (/var/lib/acmed/…): such a
    configuration is only loaded through the probe, never left running."""
    if not isinstance(cfg, dict):
        return False
    g = cfg.get("global")
    if not isinstance(g, dict) or "accounts_directory" not in g:
        return True
    if "certificates_directory" not in g:
        return any(not (isinstance(c, dict) and "directory" in c) for c in cfg.get("certificate", []) or [])
    return False


def run_daemon(path, pid_file, window):
    e = vlib.env_offline()
    e.pop("ACMED_VERIF_RUN", None)
    cmd = [vlib.ACMED_DEV, "-f", "-c", path, "--log-stderr", "--log-level", "debug"]
    cmd += ["--pid-file", pid_file] if pid_file else ["--no-pid-file"]
    cwd = os.path.join(vlib.BUILD, "scratch", "cwd")
    os.makedirs(cwd, exist_ok=True)
    errp = path + (".pid.stderr" if pid_file else ".stderr")
    pid_while_running = None
    with open(errp, "wb") as ef:
        p = subprocess.Popen(cmd, env=e, stdout=subprocess.DEVNULL, stderr=ef, stdin=subprocess.DEVNULL, cwd=cwd)
        try:
            rc = p.wait(timeout=window)
        except subprocess.TimeoutExpired:
            rc = None
            pid_while_running = os.path.exists(pid_file) if pid_file else None
            p.kill()
            p.wait()
    size = os.path.getsize(errp)
    with open(errp, "rb") as f:
        f.seek(max(0, size - 4000))
        tail = f.read().decode(errors="replace")
    return {"rc": rc, "stderr_len": size, "stderr_tail": tail[-600:], "no_certificate": "No certificate found" in tail,
            "pid_file": bool(pid_file), "pid_file_left": os.path.exists(pid_file) if pid_file else False,
            "pid_file_while_running": pid_while_running}


def daemon_outcome(o):
    """Outcome class (the strings of Spec.C19.StartOutcome) of one run of the binary."""
    rc = o["rc"]
    if rc is None:
        return "starts"
    if rc < 0:
        return "died"
    if rc == 101:
        return "panicked"
    if rc == 1 and o["stderr_len"] > 0 and not o["pid_file_left"]:
        return "rejected"
    if rc == 0 and o["no_certificate"]:
        return "rejected"
    return "unknown"


def daemon_part(ctx, cases):
    t0 = time.time()
    window = 2.0 if ctx.quick() else 3.0
    chosen, rest = [], []
    for label, path, cfg in cases:
        if uses_default_dirs(cfg):
            ctx.count("daemon:not-run:default-directories")
            continue
        # <scratch>/h/cN, <scratch>/x/cN: the hazard catalogues; m, f: field mutations
        is_hazard = os.path.basename(os.path.dirname(os.path.dirname(path))) in ("h", "x")
        (chosen if is_hazard or label == "full-base" else rest).append((label, path, cfg))
    chosen += ENV_CASES
    if ctx.quick():
        ctx.rng.shuffle(rest)
        rest = rest[:100]
    jobs = []
    for label, path, cfg in chosen + rest:
        variants = [True, False] if not ctx.quick() else [ctx.rng.random() < 0.5]
        for with_pid in variants:
            jobs.append((label, path, os.path.join(os.path.dirname(path), "acmed.pid") if with_pid else None))
    with concurrent.futures.ThreadPoolExecutor(max_workers=32) as ex:
        outs = list(ex.map(lambda j: run_daemon(j[1], j[2], window), jobs))
    verdicts = vlib.model([{"op": "c19_judge", "outcome": daemon_outcome(o)} for o in outs]) if outs else []
    for (label, path, pid_file), o, v in zip(jobs, outs, verdicts):
        cls = daemon_outcome(o)
        mode = "pid-file" if pid_file else "no-pid-file"
        if label.startswith("env-"):
            ctx.count("observed-only:daemon:%s:%s" % (label, cls if o["rc"] is not None else "still-running"))
            continue
        ctx.count("daemon:%s:%s" % (mode, cls if o["rc"] is not None else "running-after-window"))
        if o["rc"] == 0:
            ctx.count("daemon:exit-0-no-certificate" + (":pid-file-left" if o["pid_file_left"] else ""))
        if o["rc"] is None and pid_file:
            ctx.count("daemon:pid-file-present-while-running:%s" % o["pid_file_while_running"])
        ctx.case({"config": label, "op": "daemon", "pid": bool(pid_file)})
        if not v.get("holds"):
            why = ("killed by signal %d" % -o["rc"] if o["rc"] is not None and o["rc"] < 0 else
                   "exit status %s, %d bytes on stderr, pid file %s" % (
                       o["rc"], o["stderr_len"], "left behind" if o["pid_file_left"] else "gone/not asked"))
            ctx.violation("configuration %s: the daemon (%s) ended: %s: %s" % (label, mode, why, o["stderr_tail"][-200:]),
                          _replay_obj("daemon", label, path, o, pid_file=bool(pid_file), window=window))
    ctx.traces += len(jobs)
    ctx.count("wall-seconds:daemon_part", int(time.time() - t0))


# ---------------------------------------------------------------------------------------------
# replay

def replay(ctx, obj):
    import mockca
    vlib.build_helper()
    helper = mockca.Helper()
    ca = mockca.MockCA(helper)
    url = ca.start() + "/directory"
    root = os.path.join(vlib.BUILD, "scratch", "c19-replay")
    shutil.rmtree(root, ignore_errors=True)
    try:
        d = os.path.join(root, "c0")
        label, cfg, extra = obj.get("label"), obj.get("config_text"), obj.get("extra_files") or {}
        lab = label[5:] if label and label.startswith("full:") else None
        if lab is not None or label == "full-base":
            pem = helper.call({"op": "selfsigned", "dns": ["root.example"], "ips": [], "not_after_offset": 3650 * 86400,
                               "not_before_offset": -3600}).get("cert_pem")
            full = cfggen.base_full(d, url, root_pem=pem)
            cfg = full if lab is None else dict(cfggen.field_mutations_deep(full)).get(lab, cfg)
        else:
            cat = list(cfggen.hazards(root, url)) + list(cfggen.hazards_more(root, url, thorough=True)) + \
                list(cfggen.hazards_more(root, url))
            for l, c, e in cat:
                if l == label:
                    cfg, extra = c, e
                    if isinstance(c, dict) and isinstance(c.get("global"), dict) and c["global"]:
                        c["global"]["accounts_directory"] = os.path.join(d, "accounts")
                        c["global"]["certificates_directory"] = os.path.join(d, "certs")
                    break
            else:
                fm = dict(cfggen.field_mutations(cfggen.base(d, url)))
                cfg = fm.get(label, cfg)
        if cfg is None:
            print("nothing to replay: configuration %s is neither stored nor in the catalogue" % label)
            return 2
        for rel, text in extra.items():
            _write_extra(os.path.join(d, rel), text)
        p = cfggen.write(os.path.join(d, "main.toml"), cfg)
        cases = [(label, p, cfg if isinstance(cfg, dict) else None)]
        n0 = len(ctx.violations)
        if obj["op"] == "first_schedule":
            first_schedule_part(ctx, cases, helper, root)
        else:
            pairs = make_pairs(helper)
            install_pairs(ctx, cases, pairs)
            o = run_daemon(p, os.path.join(d, "acmed.pid") if obj.get("pid_file") else None, obj.get("window", 3.0))
            cls = daemon_outcome(o)
            print("configuration %s: daemon -> %s (%s)" % (label, cls, {k: v for k, v in o.items() if k != "stderr_tail"}))
            v = vlib.model([{"op": "c19_judge", "outcome": cls}])[0]
            if not v.get("holds"):
                ctx.violations.append(("daemon outcome %s" % cls, obj))
        for desc, _ in ctx.violations[n0:]:
            print(desc)
        print("configuration %s: %s" % (label, "VIOLATION" if len(ctx.violations) > n0 else "holds"))
        return 1 if len(ctx.violations) > n0 else 0
    finally:
        ca.stop()
        helper.close()
        shutil.rmtree(root, ignore_errors=True)
