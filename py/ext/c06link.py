"""C06 — the KIND OF DIRECTORY ENTRY at the certificate path and at the key path, as a dimension of the `present` axis.

The statement speaks of "the certificate file or the key file is missing".  A path that names a symbolic link to a
regular file names a file that is there (every open / read / stat of the path reaches it: the certificates directory
holds links into a shared volume, into the directory the web server reads, …); a dangling link names nothing (= the
file is missing: request at once), and so does a link to a directory (not a file, like a directory itself).

`pick(idx)`      deterministic (no draw from the run's random stream: the other dimensions keep their values)
`apply(t, …)`    turns the regular files `prepare` wrote into the chosen entries
`disk(t, …)`     what the judge is told exists under the configured names
Used by py/props/c06.py (`check`), py/ext/c06x.py (`check_triples`, two scenarios of the daemon's loop)."""
import os

# the path resolves to the regular file `prepare` wrote
RESOLVE = ("link-rel", "link-abs", "link-link")
# the path names no regular file
MISSING = ("dangling", "link-dir")

# (certificate path, key path)
COMBOS = [("link-rel", "file"), ("file", "link-rel"), ("link-rel", "link-rel"), ("link-abs", "link-abs"),
          ("dangling", "file"), ("link-abs", "file"), ("file", "link-abs"), ("link-link", "link-rel"),
          ("file", "dangling"), ("link-rel", "link-abs"), ("link-dir", "file"), ("link-abs", "link-link"),
          ("file", "link-dir"), ("dangling", "dangling"), ("link-rel", "dangling"), ("link-dir", "link-abs")]

SUB = "linked"


def pick(idx, every=5):
    """Every `every`-th triple gets entries other than plain files, the combinations in rotation."""
    if idx % every:
        return None
    c, k = COMBOS[(idx // every) % len(COMBOS)]
    return {"cert": c, "key": k}


def make_entry(p, kind):
    """Replaces what `prepare` left at `p` (a regular file, or nothing) by an entry of the given kind."""
    if kind in (None, "file"):
        return
    if os.path.isdir(p) and not os.path.islink(p):
        return      # (a directory put there on purpose by another dimension stays)
    had = os.path.isfile(p) and not os.path.islink(p)
    store = os.path.join(os.path.dirname(p), SUB)
    os.makedirs(store, exist_ok=True)
    base = os.path.basename(p)
    target = os.path.join(store, base)
    if kind in RESOLVE:
        if not had:
            return      # nothing to link to: the file is absent in this triple and stays absent
        os.replace(p, target)
        if kind == "link-rel":
            os.symlink(os.path.join(SUB, base), p)
        elif kind == "link-abs":
            os.symlink(target, p)
        else:           # a link to a link (absolute) to the file
            os.symlink(target, target + ".hop")
            os.symlink(os.path.join(SUB, base + ".hop"), p)
    elif kind == "dangling":
        if had:
            os.unlink(p)
        os.symlink(os.path.join(SUB, "no-such-file-" + base), p)
    elif kind == "link-dir":
        if had:
            os.unlink(p)
        os.makedirs(target + ".d", exist_ok=True)
        os.symlink(target + ".d", p)
    else:
        raise ValueError("entry kind %r" % (kind,))


def apply(t, crt, key):
    e = t.get("entry")
    if not e:
        return
    make_entry(crt, e.get("cert"))
    make_entry(key, e.get("key"))


def disk(t, key_file, cert_file, cert):
    """(key_file, cert_file, cert) for the judge: a dangling link / a link to a directory is no file."""
    e = t.get("entry") or {}
    if e.get("key") in MISSING:
        key_file = False
    if e.get("cert") in MISSING:
        cert_file, cert = False, None
    return key_file, cert_file, cert


def describe(t):
    e = t.get("entry")
    if not e:
        return ""
    return " [certificate path: %s, key path: %s]" % (e.get("cert", "file"), e.get("key", "file"))


def count(ctx, tag, t, key_file, cert_file):
    e = t.get("entry")
    if not e:
        return
    ctx.count(tag + "entry:cert=%s,key=%s" % (e.get("cert", "file"), e.get("key", "file")))
    through = [w for w, there in (("cert", cert_file), ("key", key_file)) if there and e.get(w) in RESOLVE]
    if key_file and cert_file and through:
        ctx.count(tag + "entry:both-files-there,reached-through-a-link:" + "+".join(through))


def state(p):
    """What is at `p` now (after a run)."""
    if os.path.islink(p):
        return "link-to-file" if os.path.isfile(p) else "link-to-dir" if os.path.isdir(p) else "dangling-link"
    return "file" if os.path.isfile(p) else "dir" if os.path.isdir(p) else "nothing"
