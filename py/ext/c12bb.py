"""C12 extension: the BLACK-BOX part — the real daemon binary over several starts.

The probe part of py/props/c12.py starts the attempts itself (its op `concurrent_attempts` owns a copy of the
task-spawning loop of `MainEventLoop::run`) and looks at ONE process at a time on accounts it loads itself.  This part
runs `acmed` as it is shipped (flow.Daemon), so whatever `MainEventLoop::new` / `run` make of the accounts — and what
the account FILE holds after a process in which several attempts registered the account on several endpoints at the
same time — is part of what is observed:

  start 1   several certificates of ONE account on TWO (or three) endpoints (each endpoint = one mock CA), none of them
            on disk: all due at once, the account gets registered on every endpoint by concurrent attempts;
  start 2   the same directories, the certificate files removed (due again): nothing may register again;
  start 3   once more (the file start 2 left is the one read here).

Variants: two accounts crossed over two endpoints; one CA that forgets the account between two starts (that CA answers
accountDoesNotExist: exactly there one more registration is allowed — the positive control of the allowance); seeded
random sharing patterns in the thorough tier.  Every CA delays each answer by a seeded random 0..d ms.

Judged by the unchanged `c12_judge` (Spec.C12.holds + registerOnceFromOk), fed from the CA logs only: per start and per
(endpoint, account key) the newAccount requests answered 200/201 against `base` + the accountDoesNotExist answers that
CA gave about that key, where base = 1 iff no earlier start of this history registered the key there; the nonces of all
POSTs a CA has received since start 1 pairwise distinct; `all_returned` = every certificate's attempt reported its end
(post-operation record) in every start (no lock trace exists outside the process: tasks / events are empty).
"""
import json
import os
import random
import shutil
import threading
import time

import cfggen
import flow
import mockca
import vlib

# fixed histories (account index, endpoint index per certificate); `forget`: [start index, endpoint index] = that CA loses
# every account just before that start
FIXED = [
    {"name": "4c-1a-2e", "shape": [(0, 0), (0, 1), (0, 0), (0, 1)]},
    {"name": "5c-1a-3e", "shape": [(0, 0), (0, 1), (0, 2), (0, 1), (0, 2)]},
    {"name": "4c-2ax2e-crossed", "shape": [(a, e) for a in range(2) for e in range(2)]},
    {"name": "3c-1a-2e-forgotten", "shape": [(0, 0), (0, 1), (0, 1)], "forget": [1, 1]},
]
THOROUGH_FIXED = [
    {"name": "2c-1a-2e", "shape": [(0, 0), (0, 1)]},
    {"name": "6c-2ax3e", "shape": [(c % 2, c % 3) for c in range(6)]},
    {"name": "4c-1a-2e-forgotten-late", "shape": [(0, 0), (0, 1), (0, 0), (0, 1)], "forget": [2, 0]},
]


def scenarios(ctx):
    rng = random.Random(ctx.seed * 31 + 12)
    quick = ctx.quick()
    out = []
    for f in FIXED + ([] if quick else THOROUGH_FIXED):
        out.append(dict(f, shape=[list(p) for p in f["shape"]]))
    for k in range(0 if quick else 8):
        nacc, nep = rng.randint(1, 2), rng.randint(2, 3)
        # every endpoint in use, at least one account on two endpoints
        shape = [[0, e] for e in range(nep)] + [[rng.randrange(nacc), rng.randrange(nep)] for _ in range(rng.randint(0, 4))]
        rng.shuffle(shape)
        sc = {"name": "random-%d" % k, "shape": shape}
        if rng.random() < 0.3:
            sc["forget"] = [rng.randint(1, 2), rng.randrange(nep)]
        out.append(sc)
    for i, sc in enumerate(out):
        sc["idx"] = 500 + i
        sc["starts"] = 3
        sc["nacc"] = 1 + max(a for a, _ in sc["shape"])
        sc["nep"] = 1 + max(e for _, e in sc["shape"])
        sc["delay"] = [rng.choice([0, 5, 25]) for _ in range(sc["nep"])]
        sc["polls"] = [rng.choice([0, 0, 1]) for _ in range(sc["nep"])]
    return out


def cert_name(c):
    return "bb%d" % c


def seeded_delays(ca, seed, bound):
    """Every answer of the CA is delayed by a seeded random 0..bound ms."""
    r = random.Random(seed)
    orig = ca.send

    def send(rq, ans, rec, method, _orig=orig, _r=r, _bound=bound):
        if _bound:
            time.sleep(_r.random() * _bound / 1000.0)
        return _orig(rq, ans, rec, method)
    ca.send = send


class Meeting:
    """CAs of one daemon that hold their answer to a newAccount request until each of the CAs in `want` has received
    one (since `begin`), at most `cap` seconds: registrations on several endpoints that CAN overlap DO overlap, a client
    that registers on one endpoint after the other is delayed by `cap` per endpoint and no more."""

    def __init__(self, cas, cap=1.0):
        self.cond, self.cap, self.want, self.seen = threading.Condition(), cap, None, set()
        for name, ca in cas.items():
            ca.send = self.wrap(name, ca.send)

    def wrap(self, name, orig):
        def send(rq, ans, rec, method):
            want = self.want
            if want is not None and name in want and rec.get("rk") == "newAccount":
                with self.cond:
                    self.seen.add(name)
                    self.cond.notify_all()
                    self.cond.wait_for(lambda: self.want is None or self.want <= self.seen, timeout=self.cap)
            return orig(rq, ans, rec, method)
        return send

    def begin(self, want):
        with self.cond:
            self.want, self.seen = set(want), set()

    def end(self):
        with self.cond:
            self.want = None
            self.cond.notify_all()


def run_history(sc, root, helper):
    """Returns {"sc", "starts": [{"index", "rc", "done", "posts", "ca_logs", "kid_keys", "stderr_tail"}]}."""
    d = os.path.join(root, "bb%d" % sc["idx"])
    shutil.rmtree(d, ignore_errors=True)
    os.makedirs(d)
    cas = []
    for j in range(sc["nep"]):
        ca = mockca.MockCA(helper, opts={"polls_before_valid": sc["polls"][j]})
        seeded_delays(ca, sc["idx"] * 100 + j, sc["delay"][j])
        ca.start()
        cas.append(ca)
    out = {"sc": sc, "starts": []}
    try:
        certs = [{"name": cert_name(c), "account": "acc%d" % a, "endpoint": "ep%d" % e, "key_type": "ecdsa_p256",
                  "identifiers": [{"dns": "bb%d.example.org" % c, "challenge": "http-01"}]}
                 for c, (a, e) in enumerate(sc["shape"])]
        accounts = [{"name": "acc%d" % a, "contacts": [{"mailto": "a%d@example.org" % a}], "key_type": "ecdsa_p256"}
                    for a in range(sc["nacc"])]
        endpoints = [{"name": "ep%d" % j, "url": cas[j].base + "/directory", "tos_agreed": True} for j in range(sc["nep"])]
        cfg, log = flow.make_config(d, None, certs, accounts=accounts, endpoints=endpoints, with_file_hooks=False)
        cfg_path = cfggen.write(os.path.join(d, "acmed.toml"), cfg)
        for s in range(sc["starts"]):
            fg = sc.get("forget")
            if fg and fg[0] == s:
                with cas[fg[1]].lock:
                    for a in cas[fg[1]].accounts.values():
                        a["forgotten"] = True
            # every certificate is due at this start: no certificate file
            cdir = os.path.join(d, "certs")
            for fn in (os.listdir(cdir) if os.path.isdir(cdir) else []):
                if fn.endswith(".crt.pem"):
                    os.remove(os.path.join(cdir, fn))
            marks = [len(ca.log) for ca in cas]
            n0 = len(flow.post_ops(log))
            dmn = flow.Daemon(cfg_path, stderr_path=cfg_path + ".stderr%d" % s)

            def life():
                n = sum(len(ca.log) for ca in cas)
                for p in (log, dmn.stderr_path):
                    try:
                        n += os.path.getsize(p)
                    except OSError:
                        pass
                return n
            done = flow.wait_progress(lambda: len(flow.post_ops(log)) >= n0 + len(certs) or not dmn.alive(), life,
                                      idle=60, cap=600)
            time.sleep(0.05)
            rc = dmn.stop()
            posts = flow.post_ops(log)[n0:]
            out["starts"].append({
                "index": s, "rc": rc, "done": bool(done) and len(posts) >= len(certs),
                "posts": [[flow.hook_args(p).get("identifiers"), flow.hook_args(p).get("is_success")] for p in posts],
                "ca_logs": [ca.log[m:] for ca, m in zip(cas, marks)],
                # account URL -> account key on record at the CA (whose accountDoesNotExist was it?)
                "kid_keys": [{u: json.dumps(a["jwk"], sort_keys=True) for u, a in list(ca.accounts.items())} for ca in cas],
                "stderr_tail": dmn.stderr()[-1200:]})
            if not out["starts"][-1]["done"]:
                break
    finally:
        for ca in cas:
            ca.stop()
        shutil.rmtree(d, ignore_errors=True)
    return out


def brief_log(log):
    """What a replay file shows of a CA log: request kinds and answer statuses, in order."""
    ans = {e["for"]: e for e in log if e["kind"] == "ans"}
    return [[r["rk"], ans.get(r["gidx"], {}).get("status"), ans.get(r["gidx"], {}).get("problem")]
            for r in log if r["kind"] == "req" and r["method"] == "POST"]


def judge_history(ctx, res):
    sc = res["sc"]
    robj = {"bb": {k: sc[k] for k in ("name", "shape", "forget", "idx", "starts", "nacc", "nep", "delay", "polls") if k in sc}}
    shared = len({tuple(p) for p in sc["shape"]}) < len(sc["shape"]) or sc["nep"] > 1
    ctx.case({"blackbox": robj["bb"]}, nontrivial=shared)
    ctx.count("bb:history:" + (sc["name"] if not sc["name"].startswith("random") else "random"))
    ctx.count("bb:endpoints:%d" % sc["nep"])
    ctx.count("bb:accounts:%d" % sc["nacc"])
    ctx.count("bb:certificates:%d" % len(sc["shape"]))
    registered = set()          # (endpoint, account key) pairs some earlier start registered
    nonces = [[] for _ in range(sc["nep"])]
    for st in res["starts"]:
        s = st["index"]
        what = "start %d of %d" % (s + 1, sc["starts"])
        pairs, names = [], []
        for j, log in enumerate(st["ca_logs"]):
            reqs = [e for e in log if e["kind"] == "req"]
            ans = {e["for"]: e for e in log if e["kind"] == "ans"}
            nonces[j] += [r["hdr"]["nonce"] for r in reqs if r["method"] == "POST" and "hdr" in r and "nonce" in r["hdr"]]
            created, dne, dne_any = {}, {}, 0
            for r in reqs:
                a = ans.get(r["gidx"], {})
                if r["rk"] == "newAccount" and a.get("status") in (200, 201):
                    k = json.dumps(r["hdr"].get("jwk"), sort_keys=True)
                    created[k] = created.get(k, 0) + 1
                if a.get("problem") == "accountDoesNotExist":
                    k = st["kid_keys"][j].get((r.get("hdr") or {}).get("kid"))
                    dne[k] = dne.get(k, 0) + 1
                    dne_any += k is None
            for k, n in sorted(created.items()):
                base = 0 if (j, k) in registered else 1
                pairs.append([n, dne.get(k, 0) + dne_any, 0, base])
                names.append("ep%d" % j)
                registered.add((j, k))
            ctx.count("bb:newAccount-answered-200/201:start-%d" % (s + 1), sum(created.values()))
            ctx.count("bb:accountDoesNotExist:start-%d" % (s + 1), sum(dne.values()))
        ctx.count("bb:starts")
        detail = dict(robj, start=s + 1, pairs=[[e] + p for e, p in zip(names, pairs)],
                      posts=st["posts"], post_requests=[brief_log(l) for l in st["ca_logs"]], stderr_tail=st["stderr_tail"][-500:])
        if st["rc"] is not None:
            ctx.broke("harness", "black box, %s: the daemon ended by itself (status %s): %s" % (what, st["rc"], st["stderr_tail"][-300:]),
                      detail)
            return
        v = vlib.model([{"op": "c12_judge", "tasks": [], "events": [], "all_returned": st["done"], "pairs": pairs,
                         "nonces": nonces}])[0]
        if not v.get("holds"):
            why = [k for k in ("all_returned", "register_once_ok", "register_once_from_start_ok", "nonces_distinct") if not v.get(k)]
            over = ["%s: %d newAccount answered 200/201, %d allowed (%d from the start state + %d accountDoesNotExist)"
                    % (e, p[0], p[3] + p[1], p[3], p[1]) for e, p in zip(names, pairs) if p[0] > p[3] + p[1]]
            ctx.violation("real daemon, %d certificates of %d account(s) on %d endpoints, %s on the same directories: %s%s%s"
                          % (len(sc["shape"]), sc["nacc"], sc["nep"], what, ", ".join(why),
                             (" — " + "; ".join(over)) if over else "",
                             "" if st["done"] else " — %d of %d attempts reported their end" % (len(st["posts"]), len(sc["shape"]))),
                          dict(detail, verdict=v))
            return
        failed = [p for p in st["posts"] if p[1] != "true"]
        if failed:
            ctx.broke("harness", "black box, %s: attempts failed against a conforming CA: %s" % (what, failed), detail)
            return
        fg = sc.get("forget")
        if fg and fg[0] == s and not any(p[1] for p in pairs):
            ctx.broke("harness", "black box, %s: the CA that forgot the account answered no accountDoesNotExist" % what, detail)
    ctx.traces += len(res["starts"])


def start(ctx, ex, root, helper):
    """Submits the histories to the executor of the check (they run beside the probe scenarios)."""
    return [ex.submit(run_history, sc, root, helper) for sc in scenarios(ctx)]


def finish(ctx, futs):
    for f in futs:
        judge_history(ctx, f.result())


def replay(ctx, obj):
    vlib.build_acmed()
    vlib.build_helper()
    helper = mockca.Helper()
    root = os.path.join(vlib.BUILD, "scratch", "c12bb-replay-%d" % os.getpid())
    n0 = len(ctx.violations)
    try:
        judge_history(ctx, run_history(dict(obj["bb"]), root, helper))
    finally:
        helper.close()
        shutil.rmtree(root, ignore_errors=True)
    for d, _ in ctx.violations[n0:]:
        print(d)
    return 1 if len(ctx.violations) > n0 else 0
