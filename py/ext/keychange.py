"""C04 extension: every POST the real daemon sent to the mock CA against the call-site table of
`Model/PostBind.lean` (`siteOf` + `roundTx`, driver op `post_site`), and every key roll-over request
against `Model/KeyChange.lean` (`prepare` + `outerFor`, driver op `keychange_expect`).  Theorems:
`Props/C04Bind.lean`.

The log of one mock CA is replayed in order; the inputs of the model are what the CA SUPPLIED up to
that request (directory, Location of the newAccount answer, order / authorization bodies, key and
algorithm on record for the account) plus the values only the client knows (its new key, the nonce
it picked, the signatures).  The call site a POST comes from is read off the shape of its payload
where that is telling (a `csr` member: finalize, …), else off its path.

Compared exactly (a difference = broken correspondence): the destination; the protected header of
every POST and of every inner object (key-change inner JWS, external account binding) as TEXT, members
in the order the code emits them (so: member set, `url`, `kid`, presence of `jwk`, `nonce`, `alg`) -
the same convention as the bulk part of c04.py; the key-change inner payload and the flattened inner
JWS as PARSED JSON values (`account`, `oldKey`; `protected`, `payload`, `signature`): RFC 8555 fixes
no member order there; that the inner signature verifies under the key the MODEL says signs it (the
new key) and the outer one under the key on record (OpenSSL, vhelper).
Only counted (`…:text-same` / `…:text-differs`): whether payloads are also byte-identical to the
text the model predicts (POST-as-GET `""`, `{}`, the newAccount object, the roll-over object, the
flattened inner JWS): the property does not speak about them."""
import base64
import json


def b64u(b):
    return base64.urlsafe_b64encode(b).decode().rstrip("=")


def b64u_dec(s):
    return base64.urlsafe_b64decode(s + "=" * (-len(s) % 4))


def canon(jwk):
    """serde_json's rendering of a `Value` (BTreeMap: members sorted, compact)."""
    return json.dumps(jwk, sort_keys=True, separators=(",", ":"), ensure_ascii=False)


KIND = {"newAccount": "newAccount", "account": "accountUpdate", "keyChange": "keyChange", "newOrder": "newOrder",
        "order": "orderPoll", "finalize": "finalize", "cert": "certDownload"}
PAYLOAD_IS_INPUT = ("accountUpdate", "newOrder", "finalize")
# (a POST-as-GET of the account URL is one of the two queries that precede a roll-over: "accountProbeOld" =
# signed by the key the endpoint record names, Model.PostBind.oldKeyProbeSite; "accountProbe" = signed by the
# current key, Model.PostBind.siteOf .accountProbe)


def kind_by_payload(r):
    """The call site a POST comes from, read off the shape of its payload where that is telling (the
    CSR goes out at exactly one call site, …); None = look at the path."""
    try:
        v = json.loads(r.get("payload") or "null")
    except Exception:
        return None
    if not isinstance(v, dict):
        return None
    if "csr" in v:
        return "finalize"
    if "identifiers" in v:
        return "newOrder"
    if "termsOfServiceAgreed" in v or "onlyReturnExisting" in v:
        return "newAccount"
    if "protected" in v and "signature" in v:
        return "keyChange"
    if list(v) == ["contact"]:
        return "accountUpdate"
    if v == {}:
        return "challengeReady"
    return None


class Replay:
    """What the CA has supplied so far (state of one server log)."""

    def __init__(self, sc):
        self.sc = sc
        self.dir = None
        self.base = None
        self.account_url = None
        self.record = {}          # account url -> {"jwk": obj, "alg": str}  (key on record at the CA)
        self.urls = {"authz": [], "chal": [], "order": "", "finalize": "", "cert": ""}
        self.reqs = {}
        self.n_new_account = 0
        self.cur = {}             # the CLIENT's current key as its own requests show it: {"jwk", "alg"}
        self.helper = None

    def request(self, r):
        """What a request tells about the client's current key (whatever the answer will be)."""
        hdr = r.get("hdr") or {}
        if r["rk"] == "newAccount" and hdr.get("jwk"):
            self.cur = {"jwk": hdr["jwk"], "alg": hdr.get("alg", "")}
        elif r["rk"] == "keyChange":
            try:
                ih = json.loads(b64u_dec(json.loads(r.get("payload") or "{}")["protected"]).decode())
                if ih.get("jwk"):
                    self.cur = {"jwk": ih["jwk"], "alg": ih.get("alg", "")}
            except Exception:
                pass

    def verifies(self, r, key):
        if not (self.helper and key and key.get("jwk") and "protected_b64" in r):
            return False
        v = self.helper.call({"op": "verify_jws", "jwk": key["jwk"], "alg": (r.get("hdr") or {}).get("alg"),
                              "protected_b64": r["protected_b64"], "payload_b64": r["payload_b64"], "sig_b64": r["sig_b64"]})
        return bool(v.get("valid"))

    def answer(self, a):
        r = self.reqs.get(a.get("for"))
        if r is None or a.get("drop") or "status" not in a:
            return
        body = None
        try:
            body = json.loads(a.get("body_text") or "")
        except Exception:
            pass
        st, rk = a["status"], r["rk"]
        if rk == "directory" and st == 200 and isinstance(body, dict) and "newAccount" in body:
            self.dir = body
            # (`url_decor`: a CA that appends something to every URL it hands out)
            self.base = body["newAccount"][:-len("/new-account" + (self.sc.get("url_decor") or ""))]
        elif rk == "newAccount" and st in (200, 201) and a.get("location") and (r.get("hdr") or {}).get("jwk"):
            self.account_url = a["location"]
            self.record[a["location"]] = {"jwk": r["hdr"]["jwk"], "alg": r["hdr"].get("alg", "")}
        elif rk == "keyChange" and st == 200 and r.get("inner_hdr"):
            self.record[r["hdr"].get("kid")] = {"jwk": r["inner_hdr"].get("jwk"), "alg": r["inner_hdr"].get("alg", "")}
        elif rk == "account" and 200 <= st < 300 and (r.get("payload") or "") == "" and self.cur.get("jwk") \
                and r.get("_signed_by") == "cur":
            # the account query signed by the client's current key was answered 2xx: that key is on record
            self.record[(r.get("hdr") or {}).get("kid")] = dict(self.cur)
        elif rk == "newOrder" and st == 201 and isinstance(body, dict):
            self.urls = {"authz": list(body.get("authorizations", [])), "chal": [], "order": a.get("location") or "",
                         "finalize": body.get("finalize", ""), "cert": body.get("certificate", "")}
        elif rk == "authz" and st == 200 and isinstance(body, dict):
            for c in body.get("challenges", []):
                if c.get("url") and c["url"] not in self.urls["chal"]:
                    self.urls["chal"].append(c["url"])
        elif rk in ("order", "finalize") and st == 200 and isinstance(body, dict):
            if body.get("certificate"):
                self.urls["cert"] = body["certificate"]
            if body.get("finalize"):
                self.urls["finalize"] = body["finalize"]

    def site_input(self, r):
        """post_site input for the POST `r`, or (None, reason)."""
        if self.dir is None:
            return None, "no directory served yet"
        hdr = r.get("hdr") or {}
        dest = self.base + r["path"] + (self.sc.get("url_decor") or "")
        rk = r["rk"]
        kind, index = KIND.get(rk), 0
        if rk == "authz":
            kind = "authz"
            index = self.urls["authz"].index(dest) if dest in self.urls["authz"] else len(self.urls["authz"])
        elif rk == "challenge":
            kind = "challengeReady"
            index = self.urls["chal"].index(dest) if dest in self.urls["chal"] else len(self.urls["chal"])
        rec0 = self.record.get(self.account_url) or {}
        if rk == "account" and (r.get("payload") or "") == "":
            # a POST-as-GET of the account URL: the queries `update_account_key` makes before a roll-over
            # (acme_proto/account.rs:136-172): signed by the key the record names, or by the current key
            if self.verifies(r, rec0):
                kind, r["_signed_by"] = "accountProbeOld", "old"
            elif self.verifies(r, self.cur):
                kind, r["_signed_by"] = "accountProbe", "cur"
            else:
                # signed by a key no request has shown yet (the new key, before any roll-over request carried it)
                kind, r["_signed_by"] = "accountProbe", "?"
        pk = kind_by_payload(r)
        if pk is not None and pk != kind:
            # e.g. a CSR sent to the order URL: the model says where THAT call site posts to
            kind = pk
            index = self.urls["chal"].index(dest) if dest in self.urls["chal"] else len(self.urls["chal"])
        if kind is None:
            return None, "not-a-call-site"
        op = {"op": "post_site", "kind": kind, "index": index,
              "dir": {k: self.dir.get(k, "") for k in ("newAccount", "newOrder", "keyChange")},
              "urls": self.urls, "account_url": self.account_url, "nonce": hdr.get("nonce") or "",
              "old": None, "contacts": [], "tos": True, "eab": None, "sigs": {"cur": r.get("sig_b64", "")},
              "payload_hex": b64u_dec(r.get("payload_b64", "")).hex()}
        meta = {"kind": kind, "dest": dest, "payload_known": kind not in PAYLOAD_IS_INPUT}
        rec = self.record.get(self.account_url) or {}
        if kind == "newAccount":
            op["cur"] = {"alg": hdr.get("alg", ""), "jwk": canon(hdr["jwk"]) if "jwk" in hdr else None}
            self.n_new_account += 1
            step = self.sc["steps"][0]
            # the contacts are known for sure only for the first registration of the scenario
            meta["payload_known"] = self.n_new_account == 1 or len(self.sc["steps"]) == 1
            op["contacts"] = ["mailto:" + m for m in (step.get("contacts") or ["a@example.org"])]
            if step.get("eab"):
                op["eab"] = {"identifier": step.get("eab_kid", "kid-1"), "alg": step["eab"] if step["eab"] != "default" else "HS256"}
                try:
                    op["sigs"]["mac"] = json.loads(r.get("payload") or "{}")["externalAccountBinding"]["signature"]
                except Exception:
                    op["sigs"]["mac"] = ""
        elif kind == "keyChange":
            inner = {}
            try:
                inner = json.loads(r.get("payload") or "{}")
                ih = json.loads(b64u_dec(inner["protected"]).decode())
            except Exception:
                ih = {}
            op["cur"] = {"alg": ih.get("alg", ""), "jwk": canon(ih["jwk"]) if "jwk" in ih else None}
            op["old"] = {"alg": rec.get("alg", ""), "jwk": canon(rec["jwk"])} if rec.get("jwk") else None
            op["sigs"] = {"cur": inner.get("signature", "") if isinstance(inner, dict) else "", "old": r.get("sig_b64", "")}
            # the payload is the inner object: compared piece by piece below (readable messages)
            meta.update(inner=inner, inner_hdr=ih, old=rec, payload_known=False)
        elif kind == "accountProbeOld":
            # prepared like the roll-over (`prepare`): the past key = the key on record, the current key = the new one
            op["cur"] = {"alg": self.cur.get("alg", ""), "jwk": canon(self.cur["jwk"]) if self.cur.get("jwk") else None}
            op["old"] = {"alg": rec.get("alg", ""), "jwk": canon(rec["jwk"])} if rec.get("jwk") else None
            op["sigs"] = {"cur": "", "old": r.get("sig_b64", "")}
            op["payload_hex"] = ""
        elif kind == "accountProbe":
            op["cur"] = {"alg": hdr.get("alg", "") if r.get("_signed_by") == "?" else self.cur.get("alg", ""), "jwk": None}
        else:
            # every other `kid` request is signed by the client's CURRENT key (`set_data_builder_sync!`); that is
            # the key on record except between a roll-over the CA processed and the client learning of it
            op["cur"] = {"alg": (self.cur.get("alg") if r.get("sig_ok") is False and self.verifies(r, self.cur) else None)
                         or rec.get("alg", ""), "jwk": None}
        return op, meta


def diff_post(r, m, meta):
    """Differences between the observed POST `r` and the model's transmission `m`."""
    out = []
    hdr = r.get("hdr") or {}
    if not m.get("post"):
        return ["the model makes no POST here (%s) but the daemon sent one to %s" % (m, r["path"])]
    if m["dest"] != meta["dest"]:
        out.append("destination %s, model %s" % (meta["dest"], m["dest"] or "(a URL the CA never supplied)"))
    if sorted(hdr.keys()) != m["members"]:
        out.append("header members %s, model %s" % (sorted(hdr.keys()), m["members"]))
    if hdr.get("url") != m["url"]:
        out.append("header url %r, model %r" % (hdr.get("url"), m["url"]))
    if hdr.get("kid") != m["kid"]:
        out.append("header kid %r, model %r" % (hdr.get("kid"), m["kid"]))
    if ("jwk" in hdr) != m["has_jwk"]:
        out.append("jwk present: %s, model %s" % ("jwk" in hdr, m["has_jwk"]))
    prot = b64u_dec(r.get("protected_b64", "")).decode(errors="replace")
    if not out and prot != m["protected_json"]:
        out.append("protected header text %r, model %r" % (prot[:300], m["protected_json"][:300]))
    return out


def payload_same(r, m):
    return b64u_dec(r.get("payload_b64", "")).hex() == m.get("payload_hex")


def json_or_none(text):
    try:
        return json.loads(text)
    except Exception:
        return None


def diff_inner_text(what, obs_flat_obj, mi):
    """An inner JWS object (parsed JSON of the flattened form) against the model's inner object."""
    out = []
    try:
        p = b64u_dec(obs_flat_obj["protected"]).decode()
        pl = b64u_dec(obs_flat_obj["payload"]).hex()
    except Exception as ex:
        return ["%s is not a flattened JWS: %s" % (what, ex)]
    if sorted(obs_flat_obj.keys()) != ["payload", "protected", "signature"]:
        out.append("%s has members %s" % (what, sorted(obs_flat_obj.keys())))
    if p != mi["protected_json"]:
        out.append("%s protected header %r, model %r" % (what, p[:300], mi["protected_json"][:300]))
    obs_v = json_or_none(bytes.fromhex(pl).decode(errors="replace"))
    mod_v = json_or_none(bytes.fromhex(mi["payload_hex"]).decode(errors="replace"))
    if obs_v is None or obs_v != mod_v:
        out.append("%s payload %r, model %r" % (what, bytes.fromhex(pl).decode(errors="replace")[:300],
                                               bytes.fromhex(mi["payload_hex"]).decode(errors="replace")[:300]))
    return out


def extend(ctx, helper, model, results):
    """results: what c04.run_flow returned ({"sc", "log", ...})."""
    items = []      # (sc, request record, post_site input, meta)
    for res in results:
        rp = Replay(res["sc"])
        rp.helper = helper
        for e in res["log"]:
            if e["kind"] == "ans":
                rp.answer(e)
                continue
            if e["kind"] != "req":
                continue
            rp.reqs[e.get("gidx")] = e
            if e["method"] != "POST":
                continue
            if "hdr" in e:
                rp.request(e)
            if "hdr" not in e:
                ctx.count("postbind:undecodable-post")
                continue
            op, meta = rp.site_input(e)
            if op is None:
                if meta == "not-a-call-site":
                    ctx.disagreements += 1
                    ctx.broke("correspondence", "flow %s: POST to %s: no call site of Model.PostBind.siteOf sends there"
                              % (res["sc"]["name"], e["path"]), {"sc": res["sc"], "path": e["path"], "hdr": e.get("hdr")})
                else:
                    ctx.count("postbind:skipped:" + meta)
                continue
            items.append((res["sc"], e, op, meta))
    if not items:
        return
    outs = model([it[2] for it in items])
    kc_items = []
    for n, ((sc, r, op, meta), m) in enumerate(zip(items, outs)):
        kind = meta["kind"]
        ctx.case({"post": [sc["name"], r.get("gidx"), kind]})
        ctx.count("postbind:compared")
        ctx.count("postbind:kind:" + kind)
        diffs = diff_post(r, m, meta)
        if meta["payload_known"] and m.get("post"):
            ctx.count("postbind:payload:%s:%s" % (kind, "text-same" if payload_same(r, m) else "text-differs"))
        if m.get("post"):
            if kind == "keyChange":
                ctx.count("postbind:inner:keyChange")
                if len(m["inner"]) != 1:
                    diffs.append("model lists %d inner objects for keyChange" % len(m["inner"]))
                else:
                    diffs += diff_inner_text("inner key-change object", meta.get("inner") or {}, m["inner"][0])
                    ctx.count("postbind:payload:keyChange:%s" % (
                        "text-same" if (r.get("payload") or "") == m["inner"][0]["flat"] else "text-differs"))
                    if m["inner"][0]["url"] != op["dir"]["keyChange"]:
                        diffs.append("model inner url %r" % m["inner"][0]["url"])
                kc_items.append((sc, r, op, meta))
            elif kind == "newAccount" and op.get("eab"):
                ctx.count("postbind:inner:eab")
                try:
                    eab = json.loads(r.get("payload") or "{}").get("externalAccountBinding")
                except Exception:
                    eab = None
                if not isinstance(eab, dict) or len(m["inner"]) != 1:
                    diffs.append("external account binding: observed %r, model has %d inner objects" % (eab, len(m["inner"])))
                else:
                    diffs += diff_inner_text("external account binding", eab, m["inner"][0])
            elif m["inner"]:
                diffs.append("model lists inner objects for %s" % kind)
        if diffs:
            ctx.disagreements += 1
            ctx.broke("correspondence", "flow %s: POST #%s (%s) to %s differs from Model.PostBind.siteOf: %s" % (
                sc["name"], r.get("gidx"), kind, r["path"], "; ".join(diffs)),
                {"sc": sc, "request": {k: r.get(k) for k in ("path", "hdr", "payload", "nth", "rk")},
                 "model_in": op, "model": m})
    # ---- key roll-over requests: the whole message
    kin = []
    for sc, r, op, meta in kc_items:
        kin.append({"op": "keychange_expect", "dir_key_change": op["dir"]["keyChange"], "account_url": op["account_url"] or "",
                    "new": op["cur"], "old": op["old"] or {"alg": "", "jwk": None}, "nonce": op["nonce"],
                    "sig_inner_b64": op["sigs"]["cur"], "sig_outer_b64": op["sigs"]["old"]})
    kouts = model(kin) if kin else []
    for (sc, r, op, meta), ki, k in zip(kc_items, kin, kouts):
        ctx.count("keychange:compared")
        diffs = []
        inner, ih = meta.get("inner") or {}, meta.get("inner_hdr") or {}
        if not k.get("built"):
            diffs.append("the model builds no roll-over message (%s)" % k)
        else:
            try:
                ip = b64u_dec(inner["protected"]).decode()
                ipl = b64u_dec(inner["payload"]).decode()
            except Exception as ex:
                ip, ipl = "", ""
                diffs.append("inner object undecodable: %s" % ex)
            op_text = b64u_dec(r.get("protected_b64", "")).decode(errors="replace")
            for what, obs, mod in (("inner protected header", ip, k["inner_protected_json"]),
                                   ("outer protected header", op_text, k["outer_protected_json"])):
                if obs != mod:
                    diffs.append("%s %r, model %r" % (what, obs[:300], mod[:300]))
            pay, mpay = json_or_none(ipl), json_or_none(k["inner_payload_json"])
            if not isinstance(pay, dict) or pay != mpay:
                diffs.append("inner payload %r, model %r" % (ipl[:400], k["inner_payload_json"][:400]))
                if isinstance(pay, dict) and pay.get("account") != ki["account_url"]:
                    diffs.append("inner payload `account` is %r, the account URL is %r" % (str(pay.get("account"))[:80], ki["account_url"]))
                if isinstance(pay, dict) and canon(pay.get("oldKey")) != (ki["old"].get("jwk") or ""):
                    diffs.append("inner payload `oldKey` is not the key on record")
            mflat = json_or_none(k["inner_flat"]) or {}
            if not isinstance(inner, dict) or sorted(inner.keys()) != sorted(mflat.keys()) or \
                    inner.get("protected") != mflat.get("protected") or inner.get("signature") != mflat.get("signature"):
                diffs.append("flattened inner JWS %r, model %r" % ((r.get("payload") or "")[:200], k["inner_flat"][:200]))
            for what, same in (("inner-payload", ipl.encode().hex() == k["inner_payload_hex"]),
                               ("inner-flat", (r.get("payload") or "") == k["inner_flat"]),
                               ("outer-payload-b64", r.get("payload_b64", "") == k["outer_payload_b64"])):
                ctx.count("keychange:%s:%s" % (what, "text-same" if same else "text-differs"))
            # who signed what: the model says inner <- new key, outer <- old key (the key on record).  The signed
            # bytes are the observed ones (their content has been compared with the model's above)
            si = [inner.get("protected", ""), inner.get("payload", "")] if isinstance(inner, dict) else ["", ""]
            so = [r.get("protected_b64", ""), r.get("payload_b64", "")]
            if k["inner_signer"] != "new" or k["outer_signer"] != "old":
                diffs.append("model signers %s / %s" % (k["inner_signer"], k["outer_signer"]))
            if "jwk" in ih:
                v = helper.call({"op": "verify_jws", "jwk": ih["jwk"], "alg": ki["new"]["alg"], "protected_b64": si[0],
                                 "payload_b64": si[1], "sig_b64": ki["sig_inner_b64"]})
                ctx.count("keychange:inner-sig-by-new-key:%s" % bool(v.get("valid")))
                if not v.get("valid"):
                    diffs.append("the inner signature does not verify under the NEW key (the model's signer of the inner object)")
            if (meta.get("old") or {}).get("jwk"):
                v = helper.call({"op": "verify_jws", "jwk": meta["old"]["jwk"], "alg": ki["old"]["alg"], "protected_b64": so[0],
                                 "payload_b64": so[1], "sig_b64": ki["sig_outer_b64"]})
                ctx.count("keychange:outer-sig-by-key-on-record:%s" % bool(v.get("valid")))
                if not v.get("valid"):
                    diffs.append("the outer signature does not verify under the key on record (the model's signer of the request)")
            ctx.count("keychange:%s->%s" % (ki["old"]["alg"], ki["new"]["alg"]))
        if diffs:
            ctx.disagreements += 1
            ctx.broke("correspondence", "flow %s: key roll-over request differs from Model.KeyChange (prepare / outerFor): %s"
                      % (sc["name"], "; ".join(diffs)),
                      {"sc": sc, "request": {k2: r.get(k2) for k2 in ("path", "hdr", "payload")}, "model_in": ki, "model": k})
