"""C16 input-space extension: the BYTES of the key-authorization digest.

Every digest of props/c16.py and ext/auditd_c16.py is the SHA-256 of a random token and thumbprint: a digest
whose first octet is 0x00 turns up once in 256 servers, 00 00 never.  Here the digest is chosen:

* `specs`: tokens SEARCHED (a few hundred SHA-256 each, in Python) so that SHA-256(token "." thumbprint) starts
  with 00 (and, when found within the cap, with 00 00); they run through the ordinary path of c16.py — the
  daemon's own get_proof renders the text, the MODEL computes the digest the judge expects;
* `scenarios`: chosen digest octets (00 first, 00 00, 00 00 00, all zero, 00…01, 00 80, ff…ff, ff first, 7f / 80 /
  01 first, 00 in the middle, 00 last, 00 every other octet) rendered by `Jose.proofTlsAlpn` (driver op
  `acme_ext_text`: the function that the `proof` op applies to the digest and that every run compares with the
  real get_proof; the rendering of the first real scenario is re-derived from its digest as a tie), given to the
  real tacd by option / file / standard input, on TCP and unix listeners, and in the nine (domain source,
  extension source) pairs of ext/auditd_c16.py (FIFOs, /dev/stdin, pieces, CRLF, [::1] and localhost listeners).

Judged by the unchanged Spec.C16.holds in c16.execute (acme_value_hex == 0420 ++ digest)."""
import hashlib
import base64

import vlib
from ext import auditd_c16

B64 = "ABCDEFGHIJKLMNOPQRSTUVWXYZabcdefghijklmnopqrstuvwxyz0123456789-_"
SEARCH_CAP = {1: 20000, 2: 400000}
NATIVE_SOURCES = ["flag", "file", "stdin-both", "stdin"]
FAST_KEYS = ["ecdsa-p256", "ed25519", "rsa2048", "ecdsa-p384", "ed448", "ecdsa-p521"]


def _b64url(b):
    return base64.urlsafe_b64encode(b).rstrip(b"=").decode()


def search_token(rng, thumbprint_input, zeros):
    """A token (RFC 8555 alphabet) whose key authorization hashes to `zeros` leading 0x00 octets; None if the
    cap is reached."""
    thumb = _b64url(hashlib.sha256(thumbprint_input.encode()).digest())
    stem = "".join(rng.choice(B64) for _ in range(rng.randint(8, 30)))
    suffix = ("." + thumb).encode()
    want = b"\x00" * zeros
    for n in range(SEARCH_CAP[zeros]):
        k, tail = n, ""
        while True:
            tail += B64[k % 64]
            k //= 64
            if not k:
                break
        token = stem + tail
        if hashlib.sha256(token.encode() + suffix).digest()[:zeros] == want:
            return token, n + 1
    return None, SEARCH_CAP[zeros]


def specs(ctx, n0, keys, keytypes, digests):
    """Specifications in the format of c16.build_scenarios (its own servers: source flag / file / stdin-both /
    stdin, listener tcp / unix) whose TOKEN was searched for a digest with leading zero octets."""
    rng = ctx.rng
    names = list(keys)
    out = []
    plan = [(1, src, lis) for src in NATIVE_SOURCES for lis in ("tcp", "unix")][:(6 if ctx.quick() else 8)]
    plan += [(2, "file", "tcp"), (2, "stdin-both", "unix")][:(1 if ctx.quick() else 2)]
    for j, (zeros, source, listener) in enumerate(plan):
        kt = names[j % len(names)]
        token, tries = search_token(rng, keys[kt]["thumbprint_input"], zeros)
        ctx.count("digest:token-search:%d-zero-octets:%s" % (zeros, "found" if token else "cap-reached"))
        ctx.count("digest:token-search:sha256-evaluations", tries)
        if token is None:
            continue
        dom = "zero%d-%d.digest.example" % (zeros, j)
        out.append({"domain": dom, "domain_text": dom if source == "flag" else dom + "\n", "source": source,
                    "acct_key": kt, "token": token, "crt_key": FAST_KEYS[j % len(FAST_KEYS)],
                    "crt_digest": digests[j % 3], "listener": listener, "prelude": None,
                    "digest_leading_zeros": zeros})
    return out


def chosen_digests(rng, quick):
    def rnd(n):
        return bytes(rng.randrange(1, 256) for _ in range(n))
    zero_first = [("00-first", b"\x00" + rnd(31)), ("00-00-first", b"\x00\x00" + rnd(30)),
                  ("all-zero", b"\x00" * 32), ("00-then-80", b"\x00\x80" + rnd(30)),
                  ("00-00-00-first", b"\x00\x00\x00" + rnd(29)), ("zeros-then-01", b"\x00" * 31 + b"\x01"),
                  ("00-then-ff", b"\x00\xff" + rnd(30)), ("00-first-00-last", b"\x00" + rnd(30) + b"\x00")]
    others = [("all-ff", b"\xff" * 32), ("ff-first", b"\xff" + rnd(31)), ("7f-first", b"\x7f" + rnd(31)),
              ("80-first", b"\x80" + rnd(31)), ("01-first", b"\x01" + rnd(31)),
              ("00-middle", rnd(15) + b"\x00\x00" + rnd(15)), ("00-last", rnd(31) + b"\x00"),
              ("00-every-other", bytes(0 if i % 2 else rng.randrange(1, 256) for i in range(32))),
              ("0x-first", bytes([rng.randrange(1, 16)]) + rnd(31))]
    return zero_first, others


def _native(idx, label, ext, digest_hex, source, listener, j, digests):
    dom = "chosen-%d.digest.example" % idx
    return {"domain": dom, "domain_text": dom if source == "flag" else dom + "\n", "source": source,
            "acct_key": None, "token": None, "crt_key": FAST_KEYS[j % len(FAST_KEYS)], "crt_digest": digests[j % 3],
            "listener": listener, "prelude": None, "idx": idx, "ext": ext, "digest_hex": digest_hex, "alabel": dom,
            "digest_class": label}


def _auditd(rng, idx, label, ext, digest_hex, j, kts, digests):
    dom_src, ext_src = auditd_c16.PAIRS[j % 9]
    dom = "chosen-%d.digest.example" % idx
    lw = [rng.choice(auditd_c16.LEAD), rng.choice(auditd_c16.TAIL_LINE), rng.choice(auditd_c16.LEAD),
          rng.choice(auditd_c16.TAIL_LINE)]
    file_kind = auditd_c16.FILE_KINDS[j % len(auditd_c16.FILE_KINDS)]
    if file_kind == "devstdin" and "stdin" in (dom_src, ext_src):
        file_kind = "fifo"
    lead, tail = rng.choice(auditd_c16.LEAD), rng.choice(auditd_c16.TAIL_FILE)
    return {"auditd": True, "domain": dom, "domain_class": "pool", "out_of_class": False,
            "domain_text": dom if dom_src == "flag" else lead + dom + tail if dom_src == "file" else lw[0] + dom + lw[1],
            "ext_ws": [rng.choice(auditd_c16.LEAD), rng.choice(auditd_c16.TAIL_FILE)], "line_ws": lw,
            "source": "%s/%s" % (dom_src, ext_src), "dom_src": dom_src, "ext_src": ext_src, "short": j % 2 == 1,
            "stdin_mode": auditd_c16.STDIN_MODES[(j // 3) % len(auditd_c16.STDIN_MODES)], "file_kind": file_kind,
            "acct_key": None, "token": None, "crt_key": None if j % 5 == 4 else kts[j % len(kts)],
            "crt_digest": None if j % 7 == 6 else digests[j % 3],
            "listener": auditd_c16.LISTENERS[j % len(auditd_c16.LISTENERS)],
            "sni": auditd_c16.SNI[(j // 2) % len(auditd_c16.SNI)], "prelude": None, "offers": auditd_c16.NEAR_OFFERS[:3],
            "idx": idx, "ext": ext, "digest_hex": digest_hex, "alabel": dom, "digest_class": label}


def scenarios(ctx, scens, keytypes, digests):
    """Further scenarios (format of c16.build_scenarios's result) with CHOSEN digests; counts the digest classes of
    all scenarios."""
    rng = ctx.rng
    # the searched tokens did give what was searched (the digest is the MODEL's)
    for sc in scens:
        z = sc.get("digest_leading_zeros")
        if z and not sc["digest_hex"].startswith("00" * z):
            ctx.broke("generator", "token searched for %d leading zero octets, the model's digest is %s" % (z, sc["digest_hex"]),
                      {"scenario": sc})
    zero_first, others = chosen_digests(rng, ctx.quick())
    reps = 1 if ctx.quick() else 4
    items = []
    for r in range(reps):
        if r:
            zero_first, others = chosen_digests(rng, False)
        items += [("native", l, d) for l, d in zero_first + others] + [("auditd", l, d) for l, d in (zero_first + others[:1])]
    mods = vlib.model([{"op": "acme_ext_text", "digest_hex": d.hex()} for _, _, d in items])
    # tie: the text of a real scenario (rendered by the daemon's get_proof) is what acme_ext_text gives for its digest
    real = [sc for sc in scens if sc.get("token")][:3]
    for sc, m in zip(real, vlib.model([{"op": "acme_ext_text", "digest_hex": sc["digest_hex"]} for sc in real])):
        if m.get("proof") != sc["ext"]:
            ctx.disagreements += 1
            ctx.broke("correspondence", "acme_ext_text(%s) = %r, get_proof rendered %r" % (sc["digest_hex"], m.get("proof"), sc["ext"]),
                      {"scenario": sc})
            return []
    idx = max([sc["idx"] for sc in scens] + [0]) + 1
    kts = [k for k in keytypes if not (ctx.quick() and k == "rsa4096")]
    out = []
    nat = [(s, l) for l in ("tcp", "unix") for s in NATIVE_SOURCES]
    jn = ja = 0
    for (kind, label, d), m in zip(items, mods):
        if m.get("digest_hex") != d.hex() or not m.get("proof") or \
                (m.get("ext_parsed") or {}).get("bytes_hex") != "0420" + d.hex():
            ctx.broke("generator", "acme_ext_text does not render digest %s: %s" % (d.hex(), m), {"digest_hex": d.hex()})
            continue
        if kind == "native":
            source, listener = nat[jn % len(nat)]
            out.append(_native(idx, label, m["proof"], d.hex(), source, listener, jn, digests))
            jn += 1
        else:
            out.append(_auditd(rng, idx, label, m["proof"], d.hex(), ja, kts, digests))
            ja += 1
        idx += 1
    for sc in scens + out:
        h = sc["digest_hex"]
        ctx.count("digest:first-octet:%s" % ("00" if h[:2] == "00" else "7f" if h[:2] == "7f" else "80" if h[:2] == "80"
                                              else "ff" if h[:2] == "ff" else "01..7e" if h[:2] < "7f" else "81..fe"))
        if h[:2] == "00":
            src = sc.get("ext_src") or {"flag": "flag", "file": "file", "stdin-both": "stdin", "stdin": "flag"}[sc["source"]]
            ctx.count("digest:00-first:extension-by-%s:listener-%s:%s" % (
                src, sc["listener"], "searched-token" if sc.get("token") else "chosen"))
        if sc.get("digest_class"):
            ctx.count("digest:chosen:" + sc["digest_class"])
    return out
