"""C08 extension: fault PLANS the base generator of props/c08.py does not produce.  They are appended to the
scenario list and go through the same run / analyse / judge (Spec.C08.holds, pollHolds) / model path.

  two-pos     recoverable runs at TWO different requests of one attempt (each request has its own budget of
              10 transmissions: 6+6, 9+9, 9+2 must all succeed; 10 at the second one fails there);
  mixed       one run made of SEVERAL recoverable types (the bound is on transmissions, whatever the types);
  run-then    a recoverable run of k answers ended by another kind of answer: a non-recoverable problem, an
              untyped one, a non-JSON body, a cut connection, a body cut short, an invalid Replay-Nonce;
  poll-err    recoverable errors WHILE polling an object that needs 15 / 19 polls (every poll is sent twice):
              polls count objects seen, not transmissions;
  poll-all    all three poll phases need 19 polls in the same attempt; two authorizations needing 15 polls each
              (budgets are per object, not per attempt);
  second      the plan hits the SECOND authorization's fetch / challenge / poll (two identifiers);
  nonce-hdr   Replay-Nonce header values: empty, a non-ASCII byte, white space inside — on error answers (to be
              re-sent) and on 2xx answers;
  cut         bodies that end before the announced Content-Length (mock answer key `cut_after`), 2xx and error.
  retry-after Retry-After headers (RFC 8555 6.6, 7.5.1; mock CA options `retry_after_polls` / `retry_after_errors`,
              answer key `retry_after`): absent, "0", "1", "120", an HTTP-date, a value changing from answer to
              answer — on the answers to the polls of an authorization / order that NEVER reaches the awaited status,
              or reaches it after 19 / 20 polls; on 429 / 503 answers in runs of 1, 9, 10, 11; both at once (every
              second poll answered by an error).  Whatever the header says, at most 20 polls of one object and 10
              transmissions of one request: a `poll_cap` ends a run whose polls go on beyond any bounded polling.
"""
import random

CERTS2 = [{"identifiers": [{"dns": "example.org", "challenge": "http-01"}, {"dns": "second.example.org", "challenge": "dns-01"}]}]
REC = ["badNonce", "connection", "dns", "malformed", "rateLimited", "serverInternal", "tls"]


def add(ctx, table, scns):
    from props import c08
    rng = random.Random(ctx.seed * 11 + 8)
    quick = ctx.quick()
    P = c08.POSITIONS
    prob = lambda lab, nonce=None, status=None: c08.problem(
        c08.type_value(lab), status or c08.default_status(lab, rng), nonce if nonce is not None else ("none" if rng.random() < 0.4 else "fresh"))

    def plan(label, klass, rules, L, pos, ca_opts=None, certs=None):
        s = {"id": len(scns), "pos": pos, "label": label, "L": L, "class": klass, "rules": rules, "ca_opts": ca_opts or {}}
        if certs:
            s["certs"] = certs
        scns.append(s)

    # ---- two positions in one attempt
    pairs = [("newOrder", "finalize"), ("authz", "cert"), ("newAccount", "orderPoll"), ("challenge", "finalize"),
             ("newOrder", "authzPoll"), ("finalize", "cert")]
    lens = [(6, 6), (9, 9), (9, 2), (1, 9), (9, 10)]
    sel = [(p, l) for p in pairs for l in lens]
    if quick:
        sel = rng.sample(sel, 6)
    for (p1, p2), (l1, l2) in sel:
        t1, t2 = rng.choice(REC), rng.choice(REC)
        plan("%s+%s" % (t1, t2), "two-pos", [c08.rule_for(p1, l1, prob(t1)), c08.rule_for(p2, l2, prob(t2))], max(l1, l2), p1)
    # ---- several recoverable types in one run
    mixes = [[5, 4], [5, 5], [5, 6], [3, 3, 3], [4, 3, 3], [1, 1, 1, 1, 1, 1, 1, 1, 1], [1] * 10, [1] * 11, [9, 1, 1]]
    sel = [(p, m) for p in P + c08.POLL_POSITIONS for m in mixes]
    if quick:
        sel = rng.sample(sel, 8)
    for pos, m in sel:
        types = [rng.choice(REC) for _ in m]
        for i in range(1, len(types)):
            while types[i] == types[i - 1]:
                types[i] = rng.choice(REC)
        plan("/".join("%sx%d" % (t, n) for t, n in zip(types, m)), "mixed",
             [c08.rule_for(pos, n, prob(t)) for t, n in zip(types, m)], sum(m), pos)
    # ---- a recoverable run, then another kind of answer
    bn = c08.ERR + "badNonce"
    ends = [("unauthorized", lambda: prob("unauthorized")), ("rejectedIdentifier", lambda: prob("rejectedIdentifier")),
            ("<absent>", lambda: prob("<absent>", status=400)), ("<unknown-urn>", lambda: prob("<unknown-urn>", status=400)),
            ("html", lambda: {"status": 503, "body": "<html>503</html>", "ctype": "text/html"}),
            ("json-array", lambda: {"status": 400, "body": [{"type": bn}]}),
            ("drop", lambda: {"drop": True}),
            ("cut-error", lambda: dict(prob("serverInternal", status=500), cut_after=rng.choice([0, 7, 25]))),
            ("cut-2xx", lambda: {"process": True, "cut_after": rng.choice([0, 3, 20])}),
            ("invalid-nonce", lambda: prob("serverInternal", nonce="invalid", status=500)),
            ("empty-nonce", lambda: prob("badNonce", nonce="", status=400)),
            ("nonascii-nonce", lambda: prob("badNonce", nonce="néonce", status=400))]
    sel = [(p, k, e) for p in P for k in (1, 5, 9) for e in ends]
    if quick:
        sel = rng.sample(sel, 14)
    for pos, k, (name, mkans) in sel:
        t = rng.choice(REC)
        plan("%sx%d-then-%s" % (t, k, name), "run-then", [c08.rule_for(pos, k, prob(t)), c08.rule_for(pos, 1, mkans())], k + 1, pos)
    # ---- header values and cut bodies on their own (first transmission)
    hdrs = [("empty-nonce", ""), ("nonascii-nonce", "néonce"), ("space-nonce", "ab cd"), ("plus-nonce", "ab+cd")]
    sel = [(p, h) for p in P for h in hdrs]
    if quick:
        sel = rng.sample(sel, 4)
    for pos, (name, val) in sel:
        if rng.random() < 0.5:
            plan(name + "-on-2xx", "nonce-hdr", [c08.rule_for(pos, 1, {"process": True, "nonce": val})], 1, pos)
        else:
            plan(name + "-on-error", "nonce-hdr", [c08.rule_for(pos, 2, prob(rng.choice(REC), nonce=val))], 2, pos)
    sel = [(p, c) for p in P + c08.POLL_POSITIONS for c in ("cut-2xx", "cut-error")]
    if quick:
        sel = rng.sample(sel, 4)
    for pos, c in sel:
        a = {"process": True, "cut_after": rng.choice([0, 3, 20])} if c == "cut-2xx" else dict(prob(rng.choice(REC)), cut_after=rng.choice([0, 7, 25]))
        plan(c, "cut", [c08.rule_for(pos, 1, a)], 1, pos)
    # ---- errors while polling objects that need many polls
    pol = [("polls_before_valid", "authz", 1), ("order_polls_before_ready", "order", 0)]
    sel = [(o, n) for o in pol for n in (15, 19, 20)]
    if quick:
        sel = rng.sample(sel, 2) + [(pol[0], 19)]
    for (opt, kind, frm), n in sel:
        t = rng.choice(REC)
        plan("%s-every-second-%s" % (opt, t), "poll-err",
             [{"kind": kind, "from": frm, "every": 2, "phase": 0, "times": 40, "answer": prob(t)}], n,
             None, ca_opts={opt: n})
    # ---- budgets per object
    plan("all-three-19", "poll-all", [], 19, None,
         ca_opts={"polls_before_valid": 19, "order_polls_before_ready": 19, "order_polls_before_valid": 19})
    for n in ((15,) if quick else (11, 15, 19, 20)):
        plan("two-authz-%d-each" % n, "poll-all", [], n, None, ca_opts={"polls_before_valid": n}, certs=CERTS2)
    # ---- the second authorization
    sec = [("authz", 2, "authz2-fetch"), ("challenge", 1, "challenge2"), ("authz", 3, "authz2-poll")]
    sel = [(s, L) for s in sec for L in (1, 9, 10)]
    if quick:
        sel = rng.sample(sel, 3)
    for (kind, frm, name), L in sel:
        t = rng.choice(REC)
        plan("%s-%sx%d" % (name, t, L), "second", [{"kind": kind, "from": frm, "times": L, "answer": prob(t)}], L, None, certs=CERTS2)
    for (kind, frm, name) in (sec if not quick else sec[:1]):
        plan("%s-unauthorized" % name, "second", [{"kind": kind, "from": frm, "times": 1, "answer": prob("unauthorized")}], 1, None, certs=CERTS2)
    # ---- Retry-After on poll answers and on 429 / 503 answers
    NEVER = c08.NEVER
    phases = [("polls_before_valid", "authz"), ("order_polls_before_ready", "orderReady"), ("order_polls_before_valid", "orderValid")]
    values = ["0", "1", "120", "date+30", ["1", "0", "120", "0"], None]
    sel = [(ph, k, v) for ph in phases for k in (NEVER, 19, 20) for v in values]
    if quick:
        # never-ending polls: every value once, phases rotating; late ones: two
        sel = [(phases[i % 3], NEVER, v) for i, v in enumerate(values)] + [(phases[1], NEVER, "0"), (phases[2], NEVER, "1")]
        sel += [(rng.choice(phases), 19, "0"), (rng.choice(phases), 20, "1")]
    for (opt, ph), k, v in sel:
        name = "never" if k == NEVER else str(k)
        scns.append({"id": len(scns), "pos": None, "label": "%s-%s-retry-after-%s" % (ph, name, "absent" if v is None else "changing" if isinstance(v, list) else v),
                     "L": k, "class": "retry-after-poll", "rules": [], "ca_opts": {opt: k, "retry_after_polls": v}, "poll_cap": 30})
    errs = [("rateLimited", 429), ("serverInternal", 503), ("rateLimited", 503), ("badNonce", 429)]
    sel = [(p, e, L, v) for p in P + c08.POLL_POSITIONS for e in errs for L in (1, 9, 10, 11) for v in ("0", "1", "120", "date+60")]
    sel = rng.sample(sel, 6 if quick else 120)
    for pos, (t, st), L, v in sel:
        plan("%s-%d-retry-after-%s" % (t, st, v), "retry-after-error", [c08.rule_for(pos, L, dict(prob(t, status=st), retry_after=v))], L, pos)
    # the same through the CA option (every 429 / 503 answer), and both headers in one never-ending poll sequence
    t = rng.choice(["rateLimited", "serverInternal"])
    p0 = rng.choice(P)
    plan("option-errors-%s" % t, "retry-after-error", [c08.rule_for(p0, 9, prob(t, status=rng.choice([429, 503])))], 9, p0,
         ca_opts={"retry_after_errors": rng.choice(["0", "1", "120"])})
    for (opt, kind, frm), v in ([(pol[0], "0")] if quick else [(o, v) for o in pol for v in ("0", "1", "date+5")]):
        s = {"id": len(scns), "pos": None, "label": "%s-never-errors-every-second-retry-after-%s" % (opt, v), "L": NEVER, "class": "retry-after-poll",
             "rules": [{"kind": kind, "from": frm, "every": 2, "phase": 0, "times": 60, "answer": dict(prob("rateLimited", status=429), retry_after="1")}],
             "ca_opts": {opt: NEVER, "retry_after_polls": v}, "poll_cap": 60}
        scns.append(s)
