"""C17 input-space extension: the unix-socket listener, volume (hundreds of failed connections, a burst
of 1100 idle ones), ClientHello / ALPN shapes that reach the selection callback of the RELEASE binary
(short single offers, 255-byte names, 50 names, near misses, malformed extension bodies, no SNI, a
253-byte SNI, TLS 1.0/1.1-only clients, a client that rejects the certificate), hostile clients that
keep coming WHILE the valid client is served (`storm`), and states the catalogue lacked (a valid
validation in the middle, completed validations kept open, ClientHello sent then silence, a slow
ClientHello, a half-closed connection).  The behaviours live in `ext/auditd_tacd.py`; here: which
histories are played, and when the final valid handshake may be retried."""
import itertools
import os
import threading

import tacdrun
import vlib
from ext import auditd_tacd as T

_ctr = itertools.count()
_lock = threading.Lock()


def scratch_dir():
    return os.path.join(vlib.BUILD, "scratch", "c17-%d" % os.getpid())


def unix_listen():
    d = scratch_dir()
    os.makedirs(d, exist_ok=True)
    with _lock:
        n = next(_ctr)
    return "unix:" + os.path.join(d, "h%d.sock" % n)


def may_wait(history):
    """The next client may have to wait (connections still open or still coming, or a descriptor shortage
    that has only just ended): only then is a second / third try of the final handshake slowness rather than
    refusal.  After every other history ONE try must do."""
    return any(k in T.LOAD for k in history)


def final_handshake(listen, history):
    """The valid validation that must still be served: ONE try (15 s: slowness is not refusal, a refusal
    comes back at once) unless the history leaves load behind (then up to 3 tries of 5 s, as before)."""
    wait = may_wait(history)
    final = None
    for _ in range(3 if wait else 1):
        final = T.valid_handshake(listen, timeout=5.0 if wait else 15.0)
        if final.get("ok"):
            break
    return final


def jobs(ctx, base_histories):
    """[(history, listener)] beyond the catalogue's own TCP histories."""
    rng = ctx.rng
    old = list(tacdrun.BEHAVIOURS)
    out = []
    # 1. the unix listener (the second expansion of the accept macro)
    short = [h for h in base_histories if len(h) <= 2]
    if ctx.quick():
        singles = [h for h in short if len(h) <= 1]
        pairs = [h for h in short if len(h) == 2]
        rng.shuffle(pairs)
        short = singles + pairs[:18]
    out += [(h, "unix") for h in short]
    # 2. every new behaviour alone, on both listeners
    for k in T.NEW_BEHAVIOURS:
        out.append(((k,), "tcp"))
        if not ctx.quick() or k not in T.VOLUME[:-1]:
            out.append(((k,), "unix"))
    # 3. new behaviours before / after the old ones and each other
    pairs = []
    for a in T.NEW_BEHAVIOURS:
        for b in old + T.NEW_BEHAVIOURS:
            if a in T.VOLUME and b in T.VOLUME:
                continue
            pairs.append((a, b))
            if b in old:
                pairs.append((b, a))
    rng.shuffle(pairs)
    if ctx.quick():
        light = [p for p in pairs if not (set(p) & set(T.VOLUME))]
        heavy = [p for p in pairs if set(p) & set(T.VOLUME)]
        pairs = light[:30] + heavy[:6]
    out += [(p, "tcp" if i % 3 else "unix") for i, p in enumerate(pairs)]
    # 4. a few longer ones around the concurrent behaviours
    for h in (("storm", "valid", "garbage"), ("valid", "storm", "valid"), ("hello-then-stall-50", "valid-held-50", "valid"),
              ("garbage", "valid", "tls-foreign-alpn", "valid"), ("alpn-h2-only", "alpn-zero-length-name", "valid"),
              ("connect-reset-burst", "valid", "storm"), ("fd-exhaustion", "valid")):
        out.append((h, "tcp"))
        out.append((h, "unix"))
    return out
