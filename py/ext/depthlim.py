"""C19 / C14 / C10 — the limits of `get_hook_rec` and `read_cnf` (537f12e, a9033b3): nesting depth of hook
groups and of includes, budget of visited group members.

Families of configurations that meet each limit exactly (one below / at / one above / two above), far
above it (the sizes that overflowed the stack or exhausted the memory before the repairs), and the
families the first repair missed (groups of EMPTY groups: no hook, exponential work).  The same shapes
are defined in Lean (`Model/ConfigDepth.lean`: `chainCfg`, `doublingCfg`, `hollowCfg`, `chainFiles`) and
the theorems of `Props/C19Depth.lean` are about them; here they are generated as TOML for the real
daemon.  What each family must do is predicted twice: by `expect_*` below (plain arithmetic on the
constants, the catalogue) and by the Lean model fed with the same tree (driver op `c14_load`); the
callers compare both with what the real code does.

Also: running ONE start-up in a process of its own, under an address-space cap and a time-out, so that
a regression shows as `died` (stack overflow, allocation failure) or `silent` (hang) for that input
instead of exhausting the machine or stalling the whole batch."""
import json
import os
import resource
import subprocess

import vlib

PREFIX = "lim-"             # labels: lim-group-chain-32, lim-include-chain-33, lim-group-doubling-12, …
AS_CAP = 3 << 30            # bytes of address space a start-up may use
ISOLATED_TIMEOUT = 20.0     # seconds before a start-up that has said nothing counts as silent


def consts(vals):
    return vals["MAX_HOOK_GROUP_DEPTH"], vals["MAX_HOOK_GROUP_MEMBERS"], vals["MAX_INCLUDE_DEPTH"]


# ---------------------------------------------------------------------------------------------
# hook-group families: (label, groups, top name, expected "started" | "rejected", tags)

def chain(n, leaf):
    """n nested groups: c0 = [c1], …, c(n-1) = [leaf]."""
    return [{"name": "c%d" % j, "hooks": ["c%d" % (j + 1)] if j + 1 < n else [leaf]} for j in range(n)], "c0"


def fanout(width, n, leaf):
    """n nested groups naming the next one `width` times; the last names `leaf` width times, or — with
    leaf None — nothing at all (a hollow family: every expansion is empty)."""
    gs = []
    for j in range(n):
        last = j + 1 == n
        gs.append({"name": "f%d" % j, "hooks": ([] if leaf is None else [leaf] * width) if last else ["f%d" % (j + 1)] * width})
    return gs, "f0"


def flat(m, leaf):
    return [{"name": "flat", "hooks": [leaf] * m}], "flat"


def visits(groups, hooks, name, depth, D, cap):
    """Members visited by the expansion of `name` met under `depth` groups; None = refused for depth.
    Stops counting above `cap` (the answer is then 'too many' whatever the rest)."""
    table = {g["name"]: g for g in reversed(groups)}
    memo = {}

    def go(n, d):
        if n in hooks:
            return 1
        g = table.get(n)
        if g is None:
            return None
        if d >= D:
            return None
        key = (n, d)
        if key in memo:
            return memo[key]
        total = 1
        for m in g["hooks"]:
            v = go(m, d + 1)
            if v is None:
                memo[key] = None
                return None
            total += v
            if total > cap:
                total = cap + 1
                break
        memo[key] = total
        return total
    return go(name, depth)


def expect_hooks(groups, hooks, top, D, M):
    v = visits(groups, set(hooks), top, 0, D, M)
    return "started" if v is not None and v <= M else "rejected"


def hook_families(D, M, leaf, deep=True):
    """At / around the limits; `deep` adds the far-above ones."""
    out = []

    def add(label, fam, tags=()):
        groups, top = fam
        out.append({"label": PREFIX + label, "groups": groups, "top": top, "expect": expect_hooks(groups, [leaf], top, D, M),
                    "tags": set(tags)})
    for n in (D - 1, D, D + 1, D + 2):
        add("group-chain-%d" % n, chain(n, leaf))
    k0 = (M + 1).bit_length() - 2            # 2^(k0+1) - 1 <= M < 2^(k0+2) - 1
    for k in (k0, k0 + 1, k0 + 2):
        add("group-doubling-%d" % k, fanout(2, k, leaf))
    for m in (M - 2, M - 1, M):
        add("group-flat-%d" % m, flat(m, leaf))
    # groups of empty groups: nothing is ever produced, only visited
    add("group-hollow-3x5", fanout(3, 5, None))
    add("group-hollow-2x%d" % (k0 + 1), fanout(2, k0 + 1, None))
    add("group-hollow-2x%d" % (k0 + 2), fanout(2, k0 + 2, None))
    add("group-hollow-3x%d" % (D - 1), fanout(3, D - 1, None), tags=("isolated",))
    add("group-hollow-2x%d" % (D - 1), fanout(2, D - 1, None), tags=("isolated",))
    add("group-hollow-3x%d" % D, fanout(3, D, None), tags=("isolated",))
    if deep:
        add("group-doubling-30", fanout(2, 30, leaf), tags=("isolated",))
        add("group-chain-20000", chain(20000, leaf), tags=("isolated", "deep"))
    return out


# ---------------------------------------------------------------------------------------------
# include families: (label, {relative path: list of includes}, expected, tags); the main file is main.toml

def include_chain(n):
    """main.toml -> i1.toml -> … -> i<n>.toml (n files below the main file)."""
    files = {"main.toml": ["i1.toml"] if n else []}
    for j in range(1, n + 1):
        files["i%d.toml" % j] = ["i%d.toml" % (j + 1)] if j < n else []
    return files


def include_families(D, deep=True):
    out = []

    def add(label, files, expect, tags=()):
        out.append({"label": PREFIX + label, "files": files, "expect": expect, "tags": set(tags)})
    for n in (D - 1, D, D + 1, D + 2):
        add("include-chain-%d" % n, include_chain(n), "started" if n <= D else "rejected")
    # a cycle that closes at / above the limit: the file is already loaded, the depth test comes first
    for n in (D - 1, D):
        f = include_chain(n)
        f["i%d.toml" % n] = ["main.toml"]
        add("include-cycle-closing-at-depth-%d" % (n + 1), f, "started" if n + 1 <= D else "rejected")
    # a file loaded early (depth 1) and met again at the end of a chain, at depth D / D + 1
    for n in (D - 1, D):
        f = include_chain(n)
        f["main.toml"] = ["early.toml", "i1.toml"]
        f["early.toml"] = []
        f["i%d.toml" % n] = ["early.toml"]
        add("include-again-at-depth-%d" % (n + 1), f, "started" if n + 1 <= D else "rejected")
    # a wide tree is not a deep one
    f = {"main.toml": ["w%d.toml" % j for j in range(3 * D)]}
    for j in range(3 * D):
        f["w%d.toml" % j] = []
    add("include-wide-%d" % (3 * D), f, "started")
    if deep:
        add("include-chain-5000", include_chain(5000), "rejected", tags=("isolated", "deep"))
    return out


# ---------------------------------------------------------------------------------------------
# the model's view of a configuration made of cfggen-style dictionaries (driver op c14_load)

def model_tree(files, main="main.toml"):
    """files: {relative path: cfggen configuration dict}; includes are literal relative names of files
    of the same directory.  Returns the JSON `c14_load` takes."""
    ids = {rel: i for i, rel in enumerate(files)}
    out = []
    for rel, cfg in files.items():
        out.append({
            "id": ids[rel], "includes": [[ids[i]] if i in ids else [] for i in cfg.get("include", [])],
            "global": None,
            "endpoint": [{"name": e["name"], "rate_limits": e.get("rate_limits", [])} for e in cfg.get("endpoint", [])],
            "rate_limit": [{"name": r["name"], "number": r["number"], "period": r["period"]} for r in cfg.get("rate-limit", [])],
            "hook": [{"name": h["name"], "cmd": h.get("cmd", "")} for h in cfg.get("hook", [])],
            "group": [{"name": g["name"], "hooks": g["hooks"]} for g in cfg.get("group", [])],
            "account": [{"name": a["name"], "hooks": a.get("hooks", [])} for a in cfg.get("account", [])],
            "certificate": [{"id": "crt%d_%d" % (ids[rel], k), "account": c["account"], "endpoint": c["endpoint"],
                             "hooks": c.get("hooks", []), "env": []} for k, c in enumerate(cfg.get("certificate", []))]})
    return {"op": "c14_load", "main": ids[main], "files": out,
            "defaults": {"renew_delay": "0", "random_early_renew": "0", "file_name_format": "", "certificates_directory": ""}}


def model_expect(m):
    """`c14_load` answer -> ("started" | "rejected", reason)."""
    if "load_error" in m:
        return "rejected", m["load_error"]
    if "error" in m.get("build", {}):
        return "rejected", m["build"]["error"]
    return "started", None


# ---------------------------------------------------------------------------------------------
# one start-up in a process of its own

def run_isolated(binary, op, timeout=ISOLATED_TIMEOUT, as_cap=AS_CAP, cwd=None):
    """Runs ONE probe op in a fresh process under RLIMIT_AS and a time-out.  Returns the op's answer,
    {"died": True, "rc": …, "stderr": …} when the process ended without answering (abort, signal), or
    {"silent": True, "seconds": …} when it was still running, silent, at the time-out (killed)."""
    def limit():
        resource.setrlimit(resource.RLIMIT_AS, (as_cap, as_cap))
        resource.setrlimit(resource.RLIMIT_CORE, (0, 0))
    env = vlib.env_offline({"ACMED_VERIF_RUN": "lines"})
    if cwd is None:
        cwd = os.path.join(vlib.BUILD, "scratch", "cwd")
        os.makedirs(cwd, exist_ok=True)
    p = subprocess.Popen([binary], stdin=subprocess.PIPE, stdout=subprocess.PIPE, stderr=subprocess.PIPE, text=True,
                         env=env, cwd=cwd, preexec_fn=limit)
    try:
        out, err = p.communicate(json.dumps(op) + "\n", timeout=timeout)
    except subprocess.TimeoutExpired:
        p.kill()
        p.communicate()
        return {"silent": True, "seconds": timeout}
    for ln in out.split("\n"):
        if ln.strip():
            try:
                return json.loads(ln)
            except Exception:
                return {"garbled": ln[:200]}
    return {"died": True, "rc": p.returncode, "stderr": err[-300:]}
