"""Tie of Model/Pem.lean + Spec/C15Pem.lean to the real code.

C15 (`extend_c15`): for every generated key the PEM texts the real code wrote
(`KeyPair::private_key_to_pem` = PKCS#8 `PRIVATE KEY`, `KeyPair::public_key_to_pem` = `PUBLIC KEY`) against
`Pem.pemEncode` / `Pem.pemDecode` on the DER OpenSSL gives for the same in-memory key (correspondence), and the
judge `Spec.C15.roundTripOk` on (DER before, DER after `KeyPair::from_pem` + serialising again, the text); DER round
trip (`from_der` of `private_key_to_der`) by equality of the serialisations.

C02 / C03 (`chain_jobs` + `chain_verdicts`): a certificate file's bytes against `Spec.C15.certChainParses` /
`certChainIs` with the DERs OpenSSL (vhelper `cert_ders`) reads from the body the mock CA served.
"""
import base64
import concurrent.futures

import vlib

PRIV, PUB = "PRIVATE KEY", "PUBLIC KEY"


def model_parallel(ops, parts=6, timeout=1200):
    """vlib.model on slices, concurrently (the ops are independent)."""
    if len(ops) < 400:
        return vlib.model(ops, timeout=timeout) if ops else []
    n = (len(ops) + parts - 1) // parts
    chunks = [ops[i:i + n] for i in range(0, len(ops), n)]
    with concurrent.futures.ThreadPoolExecutor(max_workers=parts) as ex:
        outs = list(ex.map(lambda c: vlib.model(c, timeout=timeout), chunks))
    return [o for c in outs for o in c]


def py_pem_der(text, label):
    """A third, independent reading of one PEM block (Python's base64): hex of the DER or None."""
    lines = text.split("\n")
    if len(lines) < 3 or lines[0] != "-----BEGIN %s-----" % label or lines[-1] != "" \
            or lines[-2] != "-----END %s-----" % label:
        return None
    try:
        return base64.b64decode("".join(lines[1:-2]), validate=True).hex()
    except Exception:
        return None


# --------------------------------------------------------------------------------------------------------
# C15

def extend_c15(ctx, items):
    """items: c15's records {"type", "k": gen_key answer, "rt": roundtrip answer} (keys generated and
    serialised by acme_common's CURRENT code inside vhelper)."""
    ops, meta = [], []
    for it in items:
        k, rt = it["k"], it["rt"]
        if "pkcs8_hex" not in k or "pkcs8_after_pem_hex" not in rt:
            ctx.count("pem:no-roundtrip-data")
            if "err" in rt:
                # from_pem / from_der of what the code itself wrote failed: the old comparison reports it
                continue
            ctx.broke("harness", "vhelper gives no PKCS#8 / round-trip serialisations (old vhelper binary?)",
                      {"type": it["type"], "k": sorted(k), "rt": sorted(rt)})
            return
        for label, before, after, text in ((PRIV, k["pkcs8_hex"], rt["pkcs8_after_pem_hex"], k["pem"]),
                                           (PUB, k["pub_der_hex"], rt["pub_der_after_pem_hex"], k["pub_pem"])):
            ops.append({"op": "pem_encode", "label": label, "der_hex": before})
            ops.append({"op": "pem_decode", "label": label, "text": text})
            ops.append({"op": "c15_pem_roundtrip", "label": label, "der_before_hex": before,
                        "der_after_hex": after, "text": text})
            meta.append((it, label, before, after, text))
    outs = model_parallel(ops)
    for i, (it, label, before, after, text) in enumerate(meta):
        enc, dec, jv = outs[3 * i], outs[3 * i + 1], outs[3 * i + 2]
        kt, k, rt = it["type"], it["k"], it["rt"]
        which = "private" if label == PRIV else "public"
        ctx.count("pem:%s:%s" % (which, kt))
        nb = len(before) // 2
        ctx.count("pem:der-bytes-mod-3=%d" % (nb % 3))      # 0, 2, 1 padding characters
        if nb and ((nb + 2) // 3 * 4) % 64 == 0:
            ctx.count("pem:last-line-full")
        robj = {"kind": "pem", "type": kt, "label": label, "key_pem": k["pem"], "text": text,
                "der_before_hex": before, "der_after_hex": after, "model_pem": enc.get("pem")}
        if not jv.get("holds"):
            what = "the DER read back differs" if after != before else \
                "the text written is not the RFC 7468 armour of the DER (OpenSSL layout)"
            ctx.disagreements += 1
            ctx.violation("Spec.C15.roundTripOk fails on the %s-key PEM of a %s key: %s" % (
                which, kt, what), robj)
            continue
        # correspondence Model/Pem <-> what the code wrote (implied by the judge + theorems; evaluated anyway,
        # through different driver ops, and against Python's own base64)
        pyder = py_pem_der(text, label)
        if enc.get("pem") != text or not enc.get("label_ok") or not dec.get("ok") or dec.get("der_hex") != before \
                or pyder != before:
            ctx.disagreements += 1
            ctx.broke("correspondence", "Pem.pemEncode / pemDecode and the %s PEM written for a %s key differ "
                      "(encode equal: %s, decode: %s, python decode equal: %s)" % (
                          which, kt, enc.get("pem") == text, dec.get("ok") and dec.get("der_hex") == before,
                          pyder == before), robj)
        if label == PRIV:
            # DER round trip (from_der o private_key_to_der), and re-serialisation after each reload, by equality
            der0 = base64.b64decode(k["der_b64"]).hex()
            bad = [n for n, a, b in (
                ("private_key_to_der after from_pem", rt["der_after_pem_hex"], der0),
                ("private_key_to_der after from_der", rt["der_after_der_hex"], der0),
                ("PKCS#8 after from_der", rt["pkcs8_after_der_hex"], before),
                ("public DER after from_der", rt["pub_der_after_der_hex"], k["pub_der_hex"]),
                ("public PEM after from_pem", rt["pub_pem_after_pem"], k["pub_pem"]),
                ("private PEM after from_der", rt["pem_after_der"], k["pem"])) if a != b]
            if bad:
                ctx.violation("%s key does not survive the DER/PEM round trip: %s changed" % (kt, ", ".join(bad)),
                              dict(robj, roundtrip=rt))
    ctx.traces += len(meta)
    for label in (PRIV, PUB):
        for m in meta:
            if m[1] == label and m[0]["type"] in ("ed25519", "ecdsa-p256"):
                ctx.sample({"pem_label": label, "type": m[0]["type"], "der_hex": m[2], "text": m[4]}, limit=10)
                break


def replay_c15(obj, helper):
    """Re-run of a stored `kind: pem` input: the key is re-loaded from its PEM and re-serialised by the real
    code, then judged as above.  Returns 0/1."""
    k = helper.call({"op": "key_info", "pem": obj["key_pem"]})
    rt = helper.call({"op": "roundtrip", "pem": obj["key_pem"]})

    class C:
        def __init__(self):
            self.disagreements = self.traces = 0
            self.bad = []

        def count(self, *a):
            pass

        def sample(self, *a, **k):
            pass

        def violation(self, d, o, klass=None):
            self.bad.append(d)

        def broke(self, w, d, o=None):
            self.bad.append("%s: %s" % (w, d))
    c = C()
    extend_c15(c, [{"type": k.get("type", obj.get("type")), "k": k, "rt": rt}])
    for b in c.bad:
        print(b)
    return 1 if c.bad else 0


# --------------------------------------------------------------------------------------------------------
# C02 / C03: certificate files

def as_text_field(data):
    """bytes -> text_hex (raw bytes), str -> text."""
    if isinstance(data, (bytes, bytearray)):
        return {"text_hex": bytes(data).hex()}
    return {"text": data}


def openssl_ders(helper, data):
    """DER certificates OpenSSL's `X509::stack_from_pem` reads from `data` (it skips whatever is not a block):
    list of hex strings; [] when it reads none or fails."""
    q = {"op": "cert_ders", "pem_hex": bytes(data).hex()} if isinstance(data, (bytes, bytearray)) else \
        {"op": "cert_ders", "pem": data}
    return helper.call(q).get("ders_hex") or []


def chain_job(helper, file_data, served_data):
    """One model op: the file's bytes against the DERs OpenSSL reads from the served body (None: no body)."""
    j = {"op": "pem_cert_chain", "ders_hex": openssl_ders(helper, served_data) if served_data is not None else []}
    j.update(as_text_field(file_data))
    return j


def chain_verdict(ctx, v, job, *, openssl_parses, must_be_expected, already_reported, what, replay_obj, tag="pem:"):
    """Compares the two notions of "the file is a certificate chain" and applies `certChainIs`.
    openssl_parses: OpenSSL read at least one certificate from the file; must_be_expected: the attempt (write)
    was reported successful, so the file must be the served chain; already_reported: the property's own judge
    has failed on this case (no second report)."""
    ctx.count(tag + "file:lean-parses=%s openssl-parses=%s" % (v.get("parses"), openssl_parses))
    if v.get("parses"):
        ctx.count(tag + "file:blocks=%d" % v.get("n_blocks", 0))
        ctx.count(tag + "file:%s" % ("exact" if v.get("is_exact") else "expected-up-to-blanks" if v.get("is_expected")
                                     else "other-chain"))
    if already_reported:
        return
    ctx_obj = dict(replay_obj, pem_verdict=v, expected_ders=len(job.get("ders_hex", [])))
    if must_be_expected and not v.get("is_expected") and job.get("ders_hex"):
        ctx.violation("Spec.C15.certChainIs: %s is not the PEM chain that was served or handed over (%d certificates expected, "
                      "%d blocks %s, residue of %s characters)" % (what, len(job["ders_hex"]), v.get("n_blocks", 0),
                                                                  v.get("labels"), v.get("residue_len")), ctx_obj)
        return
    if openssl_parses and not v.get("parses"):
        ctx.disagreements += 1
        ctx.broke("correspondence", "OpenSSL reads a certificate from %s but Spec.C15.certChainParses rejects the "
                  "bytes (blocks read %s, residue of %s characters)" % (what, v.get("labels"), v.get("residue_len")), ctx_obj)
        return
    if must_be_expected and not v.get("is_expected"):
        ctx.disagreements += 1
        ctx.broke("correspondence", "OpenSSL reads no certificate from the body served for %s although the "
                  "attempt was successful" % what, ctx_obj)


# ---- C03

def extend_c03(ctx, helper, keep, verdicts):
    """keep: c03.judge's [(obs, final FilesObs, success)] and the Spec.C03 verdicts, on the same snapshot."""
    jobs, meta = [], []
    for (obs, final, ok), v03 in zip(keep, verdicts):
        snap = obs["post_snap"] or obs["final_raw"]
        if snap[0] is None:
            ctx.count("pem:file:absent")
            continue
        t_post = obs["posts"][0].get("t") if obs["posts"] else None
        served = [e["served_cert"] for e in obs["ca"] if e.get("kind") == "req" and e.get("served_cert")
                  and (t_post is None or e.get("t") is None or e["t"] <= t_post)]
        # successful attempt: the file must be the chain served; failed attempt: the reference (for the
        # counters only) is the file as it was before
        ref = (served[-1] if served else None) if ok else obs["initial_raw"][0]
        jobs.append(chain_job(helper, snap[0], ref))
        meta.append((obs, final, ok, ref, v03))
    out = vlib.model(jobs) if jobs else []
    for (obs, final, ok, ref, v03), v, j in zip(meta, out, jobs):
        sc = obs["sc"]
        chain_verdict(ctx, v, j, openssl_parses=bool(final.get("cert_parses")),
                      must_be_expected=ok and ref is not None, already_reported=not v03.get("holds"),
                      what="the certificate file after a %s attempt (fault %s at %s)" % (
                          "successful" if ok else "failed", sc["fault"], "/".join(str(x) for x in sc["pos"])),
                      replay_obj={"sc": sc}, tag="pem:%s:" % ("success" if ok else "failed"))
        if ok and ref is None:
            ctx.broke("flow", "an attempt was reported successful but the mock CA served no certificate", {"sc": sc})


# ---- C02

def extend_c02_flow(ctx, helper, spec, crt_path, cert_file_bytes, served_body, already_reported, replay_obj):
    j = chain_job(helper, cert_file_bytes, served_body)
    v = vlib.model([j])[0]
    chain_verdict(ctx, v, j, openssl_parses=bool(openssl_ders(helper, cert_file_bytes)), must_be_expected=True,
                  already_reported=already_reported,
                  what="the certificate file of a successful issuance (chain of %d)" % spec.get("chain_len", 0),
                  replay_obj=replay_obj, tag="flow:pem:")

def extend_c02_hist(ctx, helper, good):
    """good: c02.evaluate's [(hist, root, op, out)].  Every successful write_certificate of a PEM chain: the
    bytes read back right after the call against the DERs OpenSSL reads from the data handed over.  Only a file
    that IS the data handed over is judged here (anything else is the byte-level judge's finding).  Other
    contents that begin like a chain (cut or extended ones) only feed the counters: OpenSSL's reader skips what
    follows the last block, the judge's does not."""
    jobs, meta = [], []
    for hist, root, op, out in good:
        for i, (s, o) in enumerate(zip(hist["steps"], out["steps"])):
            if s["ftype"] != "cert" or o.get("content_hex") is None or o.get("result") != "ok":
                continue
            content = bytes.fromhex(o["content_hex"])
            data = bytes.fromhex(o["data_hex"])
            whole = s.get("what") == "pem-chain"
            if not whole and not data.startswith(b"-----BEGIN CERTIFICATE-----"):
                continue
            jobs.append(chain_job(helper, content, data))
            meta.append((hist, i, s, whole, content == data))
    verdicts = model_parallel(jobs, parts=4) if jobs else []
    for (hist, i, s, whole, written), v, j in zip(meta, verdicts, jobs):
        if not whole:
            ctx.count("hist:pem:cut-or-extended-chain:lean-parses=%s openssl-reads=%d" % (v.get("parses"), len(j["ders_hex"])))
            continue
        chain_verdict(ctx, v, j, openssl_parses=bool(j["ders_hex"]), must_be_expected=True,
                      already_reported=not written, what="the certificate file after step %d (a PEM chain)" % i,
                      replay_obj={"kind": "history", "hist": hist}, tag="hist:pem:")
