"""C20: the CA's CONNECTION SCHEDULE as a dimension of the validating mock CA's tls-alpn-01 validator.

Every other tls-alpn-01 validator of the check (`c20.run_one.validator`, `auditd_c20.look_tls`) is one complete
connect - handshake - close at a time.  RFC 8555 / RFC 8737 do not promise that: a CA may validate from several
vantage points whose connections are open at the same time, keep a reachability probe open while it validates,
or leave a finished vantage point's connection open while the next one handshakes.  A responder has to answer a
connection while another one, accepted earlier, is still silent.

A schedule (plain JSON, part of the scenario and therefore of the replay file):

  {"k": 1..3,            vantage points; ALL of them connect, one after the other (= the order in which the
                         responder's accept() sees them), before any of them sends a ClientHello
   "order": [i, ...],    the order in which they then handshake (a permutation of 0..k-1; reverse, rotations, ...)
   "together": bool,     instead: all ClientHellos at the same moment (k threads)
   "probe": bool,        a silent reachability connection, opened BEFORE the vantage points', is kept open during
                         the whole validation and closed afterwards
   "keep_open": bool}    a vantage point keeps its connection open after its handshake until all are done

Each vantage point waits up to HS_WAIT seconds for its handshake; one that gets no answer = the validation failed
(`validated` false, its place in `vantage_ok` false) - the judge Spec.C20.holds is used unchanged.  After the first
vantage point without an answer the others are not tried (the verdict is fixed; a failing run stays short).

http-01: the shipped http-01-echo group writes a FILE below HTTP_ROOT; the web server that would serve it is not
part of acmed (the check's CA reads the file where the documented path says).  There is no connection of the
code under test to schedule, so the dimension does not exist there.
"""
import random
import socket
import ssl
import threading
import time

import tacdrun

HS_WAIT = 20.0          # what a vantage point waits for the responder's handshake
CONNECT_WAIT = 12.0     # tacd daemonises and binds after its start hook returned (slow machines)
TACD_GROUPS = ("tls-alpn-01-tacd-tcp", "tls-alpn-01-tacd-unix")


# ------------------------------------------------------------------------------------------ generator
def orders(k):
    """The handshake orders that differ from the accept order (k >= 2), by name."""
    out = {"reverse": list(reversed(range(k)))}
    if k >= 3:
        out["rotate-left"] = list(range(1, k)) + [0]         # the first to connect handshakes last
        out["last-first"] = [k - 1] + list(range(k - 1))     # the last to connect handshakes first, then in order
        out["middle-first"] = [1, 0] + list(range(2, k))
    return out


def catalogue():
    """Every schedule shape, named."""
    cat = {}
    for k in (2, 3):
        for name, o in orders(k).items():
            cat["k%d-%s" % (k, name)] = {"k": k, "order": o}
            cat["k%d-%s-kept-open" % (k, name)] = {"k": k, "order": o, "keep_open": True}
        cat["k%d-in-order-kept-open" % k] = {"k": k, "order": list(range(k)), "keep_open": True}
        cat["k%d-together" % k] = {"k": k, "order": list(range(k)), "together": True}
        cat["k%d-reverse-probe" % k] = {"k": k, "order": list(reversed(range(k))), "probe": True}
    cat["k1-probe"] = {"k": 1, "order": [0], "probe": True}
    cat["k2-in-order-probe-kept-open"] = {"k": 2, "order": [0, 1], "probe": True, "keep_open": True}
    return {n: dict(s, name=n) for n, s in cat.items()}


# the shapes every tier plays on both listeners: reverse order (2 and 3 vantage points), a silent probe kept open,
# a finished vantage point's connection still open
MUST = ("k2-reverse", "k3-rotate-left-kept-open", "k1-probe", "k2-in-order-kept-open")


def assign(ctx, plain):
    """About half of the existing tls-alpn-01 scenarios get a schedule drawn from the catalogue (a generator of
    its own, derived from the seed: the other draws of the check stay what they were)."""
    rng = random.Random("c20-schedule-%d" % ctx.seed)
    cat = catalogue()
    names = sorted(cat)
    for sc in plain:
        if sc["group"] in TACD_GROUPS and rng.random() < 0.5:
            sc["schedule"] = dict(cat[rng.choice(names)])
    return plain


def widen(ctx, add):
    """Dedicated scenarios (`add` = auditd_c20.widen's scenario maker): the MUST shapes on both listeners, first
    issuance and renewal; thorough: the whole catalogue."""
    rng = random.Random("c20-schedule-more-%d" % ctx.seed)
    cat = catalogue()
    for g in TACD_GROUPS:
        for name in (MUST if ctx.quick() else sorted(cat)):
            add(group=g, n=2, schedule=dict(cat[name]), ident=rng.choice(["example.org", "a.b.example.net", "vm"]))


def count(ctx, sc):
    s = sc.get("schedule")
    if sc["group"] not in TACD_GROUPS:
        return
    lis = "tcp" if sc["group"].endswith("tcp") else "unix"
    if not s:
        ctx.count("ca-schedule:%s:one-connection-at-a-time" % lis)
        return
    ctx.count("ca-schedule:%s:%s" % (lis, s.get("name", "?")))
    ctx.count("ca-schedule-vantage-points:%d" % s["k"])
    if s.get("together"):
        ctx.count("ca-schedule-order:together")
    else:
        ctx.count("ca-schedule-order:" + ("accept-order" if s["order"] == list(range(s["k"])) else
                                          "reverse" if s["order"] == list(reversed(range(s["k"]))) else "other-permutation"))
    for key in ("probe", "keep_open"):
        if s.get(key):
            ctx.count("ca-schedule:" + key)


# ------------------------------------------------------------------------------------------ the validator
def connect_retry(at, wait):
    """A connection to the responder; the FIRST one of a validation may find tacd not bound yet.
    -> (socket | None, first_try_ok, error)"""
    t0 = time.time()
    first = None
    err = None
    while True:
        try:
            s = tacdrun.connect(at, timeout=HS_WAIT)
            return s, (True if first is None else first), None
        except OSError as e:
            err = "connect: %s" % e
            if first is None:
                first = False
        if time.time() - t0 > wait:
            return None, False, err
        time.sleep(0.05)


def handshake_on(raw, server_name, max_tls12, timeout=HS_WAIT):
    """acme-tls/1 handshake on a connection that is already open.  -> (result dict, tls socket | None)"""
    ctx = ssl.SSLContext(ssl.PROTOCOL_TLS_CLIENT)
    if max_tls12:
        ctx.maximum_version = ssl.TLSVersion.TLSv1_2
    ctx.check_hostname = False
    ctx.verify_mode = ssl.CERT_NONE
    ctx.set_alpn_protocols([tacdrun.ACME_ALPN])
    t0 = time.time()
    try:
        raw.settimeout(timeout)
        tls = ctx.wrap_socket(raw, server_hostname=server_name, do_handshake_on_connect=False)
        tls.do_handshake()
        der = tls.getpeercert(binary_form=True)
        return {"ok": True, "alpn": tls.selected_alpn_protocol(), "tls": tls.version(),
                "cert_pem": ssl.DER_cert_to_PEM_cert(der) if der else None}, tls
    except (ssl.SSLError, OSError, ValueError) as e:
        return {"ok": False, "error": "handshake not completed %.1f s after the ClientHello (%s: %s)" % (
            time.time() - t0, type(e).__name__, e)}, None


def _close(s):
    try:
        s.close()
    except Exception:
        pass


NOT_TRIED = "not tried"


def validate(at, a, digest, sched, helper, tls12_of=lambda v: False):
    """`_validate`; a vantage point that was not tried any more names the failure that settled the verdict."""
    looks = _validate(at, a, digest, sched, helper, tls12_of)
    real = [x["error"] for x in looks if x.get("error") and x["error"] != NOT_TRIED]
    for v, x in enumerate(looks):
        if x.get("error") == NOT_TRIED:
            x["error"] = "%s (vantage point %d then not tried)" % (real[0], v + 1) if real else NOT_TRIED
    return looks


def _validate(at, a, digest, sched, helper, tls12_of):
    """One tls-alpn-01 validation of identifier `a` at address `at` under the schedule `sched`.
    -> one look per vantage point, in vantage point order (the shape of auditd_c20.look_tls's result:
    responder_reachable, validated, cert | error), looks[0]["first_try_ok"] = the very first connect worked."""
    k = int(sched.get("k", 2))
    order = list(sched.get("order") or reversed(range(k)))
    looks = [{"responder_reachable": False, "validated": False, "first_try_ok": None,
              "error": NOT_TRIED} for v in range(k)]
    opened = []
    first_try = None
    try:
        if sched.get("probe"):
            p, first_try, err = connect_retry(at, CONNECT_WAIT)
            if p is None:
                looks[0]["error"] = "the CA's reachability probe: " + err
                looks[0]["first_try_ok"] = False
                return looks
            opened.append(p)          # silent: nothing is ever sent on it
        raws = []
        for v in range(k):
            s, ft, err = connect_retry(at, CONNECT_WAIT if not opened else 2.0)
            if first_try is None:
                first_try = ft
            if s is None:
                looks[v]["error"] = "vantage point %d of %d (CA schedule %s: %d connection(s) to the responder already open): %s" % (
                    v + 1, k, sched.get("name", "?"), len(opened), err)
                looks[0]["first_try_ok"] = first_try
                return looks
            opened.append(s)
            raws.append(s)
        looks[0]["first_try_ok"] = first_try
        results = [None] * k

        def one(v):
            hs, tls = handshake_on(raws[v], a, tls12_of(v))
            if tls is not None:
                opened.append(tls)
                if not sched.get("keep_open"):
                    _close(tls)
            results[v] = hs

        if sched.get("together"):
            ts = [threading.Thread(target=one, args=(v,), daemon=True) for v in range(k)]
            for t in ts:
                t.start()
            for t in ts:
                t.join(HS_WAIT + 10)
        else:
            for v in order:
                one(v)
                if not (results[v] or {}).get("ok"):
                    break
        for v in range(k):
            hs = results[v]
            if hs is None:
                continue
            o = looks[v]
            o.pop("error", None)
            if hs.get("ok") and hs.get("cert_pem") and hs.get("alpn") == tacdrun.ACME_ALPN:
                pc = helper.call({"op": "parse_cert", "pem": hs["cert_pem"]})
                exts = pc.get("acme_ext") or []
                good = (pc.get("dns") == [a] and len(exts) == 1 and exts[0]["critical"]
                        and exts[0]["value_hex"] == "0420" + digest)
                o["responder_reachable"] = o["validated"] = good
                o["cert"] = {kk: pc.get(kk) for kk in ("dns", "acme_ext", "self_signed")}
            else:
                o["error"] = "vantage point %d of %d (CA schedule %s, handshake order %s%s): %s" % (
                    v + 1, k, sched.get("name", "?"), "all at once" if sched.get("together") else [x + 1 for x in order],
                    ", a silent connection opened before them is still open" if sched.get("probe") else "",
                    hs.get("error") or "negotiated %r" % hs.get("alpn"))
        return looks
    finally:
        for s in opened:
            _close(s)


def fold(looks, obs):
    """The looks of one validation folded into the challenge observation the judge reads (as auditd_c20 does)."""
    bad = [x for x in looks if not x["validated"]]
    shown = (bad or looks)[0 if bad else -1]
    obs.update({kk: vv for kk, vv in shown.items() if kk != "first_try_ok"})
    obs["first_try_ok"] = looks[0].get("first_try_ok")
    obs["vantage_ok"] = [x["validated"] for x in looks]
    return obs
