"""C17: did a tacd that was started with a small RLIMIT_NOFILE really run out of descriptors while the
`fd-exhaustion` burst was waiting?  (Observation for the evidence: with the table full and more connections
queued than it has room for, the next accept() fails with EMFILE — the event the history is about.)"""
import os
import threading


class FdWatch:
    """Samples /proc/<pid>/fd while a history is played; `close()` says whether the table was ever seen full
    (`limit` descriptors in use).  Judges nothing."""

    def __init__(self, pid, limit):
        self.dir, self.limit, self.peak = "/proc/%d/fd" % pid, limit, 0
        self.stop = threading.Event()
        self.t = threading.Thread(target=self._run, daemon=True)
        self.t.start()

    def _run(self):
        while not self.stop.is_set():
            try:
                self.peak = max(self.peak, len(os.listdir(self.dir)))
            except OSError:
                pass
            self.stop.wait(0.01)

    def close(self):
        self.stop.set()
        self.t.join(timeout=5)
        return self.peak >= self.limit
