"""C13 — file hooks that ACT on the file (called from py/props/c13.py).

The file-pre-create / file-pre-edit / file-post-create / file-post-edit hooks of the other C13 cases only succeed,
fail or record.  Here they are real commands with side effects on the written path:
  move     mv {{ file_path }} {{ file_path }}.bak          (the archive hook of a file-pre-edit)
  remove   rm -f {{ file_path }}
  replace  install -m MODE [-o UID -g GID] SRC {{ file_path }}      (new inode, other mode / owner; CREATES the file
           when it is absent) or  cp SRC {{ file_path }}.new && mv {{ file_path }}.new {{ file_path }}
  chmod    chmod MODE {{ file_path }}
  fail     false
`write_file` computes is_new BEFORE the pre hooks and opens the path AFTER them: "created by this write" has to be
decided at open time.  Around the effect hooks a recorder hook (sh + stat, below) notes inode, mode, owner, group of
the path — A: before the first pre hook, B: after the last pre hook (what open(2) finds), C: before the first post
hook (what the post hooks see: set_owner has run), D: after the last post hook — and of `<path>.bak`.  A, B and C
also PIN the inode they saw with a hard link `<path>.pin.<tag>` so that the file system cannot give the same inode
number to a file created later in the same step (ext4 does reuse it at once: unlink + create = same number).

* probe histories: the same history runs through the real storage layer (op write_history) and through
  `StorageFx.runHistoryFx` (op storage_history_fx): result, hook types that ran, the file at B, C, D / after the
  call, `<path>.bak`, and the inode identities A=B, B=C, C=D must agree exactly (correspondence); the file at C —
  and at the end when no post hook acted — is judged by `Spec.C13.holdsFx` (created by this write <=> absent at B or
  another inode than B).
* the daemon: one account on two endpoints (second registration = rewrite of the account file), a certificate good
  for a day (renewed at once = rewrite of key and certificate), the archive hook
  `mv {{ file_path }} {{ file_path }}.bak` on file-pre-edit for the account and the certificates.
"""
import concurrent.futures
import json
import os

import flow
import storagelib as sl
import vlib

REC = ('r=$(stat -L -c "%i %a %u %g" -- "$1" 2>/dev/null) || r=absent; '
       'if [ -n "$4" ] && [ "$r" != absent ]; then ln -f -- "$1" "$1.pin.$4" 2>/dev/null; fi; '
       'b=$(stat -c "%i %a %u %g" -- "$1.bak" 2>/dev/null) || b=absent; '
       'echo "$3 $1 | $r | $b" >> "$2"')
CP_REPLACE = 'cp -- "$1" "$2.new" && mv -- "$2.new" "$2"'
SRC_TEXT = b"made-by-a-hook\n"
FP = "{{ file_path }}"
MODEL_KEY = {"file-pre-create": "pre_create", "file-post-create": "post_create",
             "file-pre-edit": "pre_edit", "file-post-edit": "post_edit"}


def rec_hook(htype, tag, log, pin):
    return {"name": "rec-%s-%s" % (htype, tag), "type": [htype], "cmd": "sh",
            "args": ["-c", REC, "sh", FP, log, "%s:%s" % (tag, htype), pin]}


def effect_hook(htype, k, e, src, as_root):
    """One configured hook per effect.  `allow` = allow_failure (mv / chmod on an absent file exit 1)."""
    h = {"name": "rec-%s-fx%d" % (htype, k), "type": [htype], "allow_failure": bool(e.get("allow", True))}
    kind = e["kind"]
    if kind == "move":
        h.update(cmd="mv", args=[FP, FP + ".bak"])
    elif kind == "remove":
        h.update(cmd="rm", args=["-f", FP])
    elif kind == "chmod":
        h.update(cmd="chmod", args=["%o" % e["mode"], FP])
    elif kind == "fail":
        h.update(cmd="false", args=[])
    elif kind == "replace" and e.get("via") == "cp":
        h.update(cmd="sh", args=["-c", CP_REPLACE, "sh", src, FP])
    elif kind == "replace":
        own = ["-o", str(e["uid"]), "-g", str(e["gid"])] if as_root and e.get("uid") is not None else []
        h.update(cmd="install", args=["-m", "%o" % e["mode"]] + own + [src, FP])
    else:
        raise RuntimeError("generator: unknown effect %r" % (e,))
    return h


def ran(effects):
    """(effects that run, did the chain succeed): a hook that fails without allow_failure ends the chain."""
    out = []
    for e in effects:
        out.append(e)
        if e["kind"] == "fail" and not e.get("allow", True):
            return out, False
    return out, True


def step_hooks(fx, log, idx, src, as_root, pins=True):
    hooks = []
    for t in sl.FILE_HOOK_TYPES:
        pre = "-pre-" in t
        first, last = ("A", "B") if pre else ("C", "D")
        hooks.append(rec_hook(t, first, log, "%d%s" % (idx, first) if pins else ""))
        for k, e in enumerate((fx or {}).get(MODEL_KEY[t], [])):
            hooks.append(effect_hook(t, k, e, src, as_root))
        hooks.append(rec_hook(t, last, log, "%d%s" % (idx, last) if pins and pre else ""))
    return hooks


def model_fx(fx, umask, euid, egid):
    """The effects as the model's inputs + hook_ok."""
    out, ok = {}, {}
    for t, key in MODEL_KEY.items():
        effs, good = ran((fx or {}).get(key, []))
        ok[key] = good
        l = []
        for e in effs:
            if e["kind"] == "move":
                l.append({"kind": "move", "to_suffix": ".bak"})
            elif e["kind"] == "replace":
                if e.get("via") == "cp":
                    f = {"mode": 0o644 & ~umask & 0o777, "uid": str(euid), "gid": str(egid)}
                else:
                    f = {"mode": e["mode"], "uid": str(e["uid"] if e.get("uid") is not None and euid == 0 else euid),
                         "gid": str(e["gid"] if e.get("gid") is not None and euid == 0 else egid)}
                l.append({"kind": "replace", "file": dict(f, content_hex=SRC_TEXT.hex())})
            elif e["kind"] in ("remove", "chmod"):
                l.append({k: v for k, v in e.items() if k in ("kind", "mode")})
        out[key] = l
    return out, ok


def label(effs):
    return "+".join(e["kind"] + ("-cp" if e.get("via") == "cp" else "") + ("!" if e["kind"] == "fail" and not e.get("allow", True) else "")
                    for e in effs) or "none"


# ------------------------------------------------------------------------------------------------
# running

def probe_op(hist, root, as_root):
    src = os.path.join(root, "fx-src")
    with open(src, "wb") as f:
        f.write(SRC_TEXT)
    os.chmod(src, 0o644)
    steps = []
    for i, s in enumerate(hist["steps"]):
        fm = dict(s["fm"])
        for k in ("dir", "account_dir"):
            fm[k] = os.path.join(root, fm[k]) if not os.path.isabs(fm[k]) else fm[k]
        st = {k: v for k, v in s.items() if k not in ("fm", "fx")}
        st["fm"] = fm
        st["hooks"] = step_hooks(s.get("fx"), sl.step_log(root, i), i, src, as_root)
        steps.append(st)
    dirs = sorted({st["fm"]["dir"] for st in steps} | {st["fm"]["account_dir"] for st in steps})
    return {"op": "write_history", "root": root, "dirs": dirs, "umask": hist["umask"], "steps": steps}


def run_histories(hists, scratch, x13=None, workers=8):
    """[(root, op, out)]; a history with `run_as` = [uid, gid, groups…] is run by a probe process with these ids."""
    ops = []
    for i, h in enumerate(hists):
        root = os.path.join(scratch, "h%d" % i)
        os.makedirs(root, exist_ok=True)
        ra = h.get("run_as")
        if ra:
            os.chown(root, ra[0], ra[1])
            os.chmod(root, 0o755)
        ops.append(probe_op(h, root, as_root=not ra and os.geteuid() == 0))
    outs = [None] * len(ops)
    plain = [i for i, h in enumerate(hists) if not h.get("run_as")]
    if plain:
        chunk = max(1, (len(plain) + workers - 1) // workers)
        parts = [plain[i:i + chunk] for i in range(0, len(plain), chunk)]
        with concurrent.futures.ThreadPoolExecutor(max_workers=workers) as ex:
            for part, res in zip(parts, ex.map(lambda p: vlib.probe([ops[i] for i in p], timeout=1800), parts)):
                for i, o in zip(part, res):
                    outs[i] = o
    for i, h in enumerate(hists):
        if h.get("run_as"):
            ra = h["run_as"]
            outs[i] = x13.probe_as([ops[i]], ra[0], ra[1], ra[2:])[0]
    return [(op["root"], op, o) for op, o in zip(ops, outs)]


def parse_stat(txt):
    txt = txt.strip()
    if txt == "absent" or not txt:
        return None
    p = txt.split()
    return {"ino": int(p[0]), "mode": int(p[1], 8), "uid": int(p[2]), "gid": int(p[3])}


def read_obs(log):
    """[(tag, hook type, path, file, bak)] in the order the recorder hooks ran."""
    out = []
    if os.path.exists(log):
        with open(log) as f:
            for ln in f:
                parts = ln.rstrip("\n").split(" | ")
                if len(parts) != 3:
                    out.append(("?", "?", ln[:100], None, None))
                    continue
                head = parts[0].split(" ", 1)
                tag, htype = head[0].split(":", 1)
                out.append((tag, htype, head[1], parse_stat(parts[1]), parse_stat(parts[2])))
    return out


def seen(st):
    if st is None:
        return None
    return {"ino": str(st["ino"]), "mode": st["mode"], "uid": str(st["uid"]), "gid": str(st["gid"])}


def model_op(hist, out, w):
    init, known, steps = [], set(), []
    for s, o in zip(hist["steps"], out["steps"]):
        p = o["path"]
        for q in (p, p + ".bak"):
            if q not in known:
                known.add(q)
                if q == p and o.get("before") is not None:
                    b = o["before"]
                    init.append({"path": p, "content_hex": o.get("before_content_hex") or "", "mode": b["mode"],
                                 "uid": str(b["uid"]), "gid": str(b["gid"])})
        fx, ok = model_fx(s.get("fx"), hist["umask"], out["euid"], out["egid"])
        for l in fx.values():
            for e in l:
                if "to_suffix" in e:
                    e["to"] = p + e.pop("to_suffix")
        steps.append({"ftype": s["ftype"], "path": p, "data_hex": o["data_hex"], "fm": s["fm"], "hook_ok": ok,
                      "fx": fx, "watch": [p + ".bak"]})
    return {"op": "storage_history_fx", "umask": hist["umask"], "uid": out["euid"], "gid": out["egid"],
            "fsetid": out["fsetid"], "init": init, "steps": steps,
            "users": [[k, v] for k, v in w["users"].items()],
            "groups": [[k, v] for k, v in w["groups"].items()], "chown_ok": True}


def same_stat(real, mod):
    """real: parsed stat or None; mod: the model's file JSON or None."""
    if (real is None) != (mod is None):
        return "existence impl=%s model=%s" % (real is not None, mod is not None)
    if real is None:
        return None
    if real["mode"] != mod["mode"]:
        return "mode impl=%o model=%o" % (real["mode"], mod["mode"])
    if str(real["uid"]) != str(mod["uid"]) or str(real["gid"]) != str(mod["gid"]):
        return "owner impl=%s:%s model=%s:%s" % (real["uid"], real["gid"], mod["uid"], mod["gid"])
    return None


def compare_step(s, o, ms, obs):
    """Differences between the real code and StorageFx.runHistoryFx on one step (empty = agree)."""
    d = []
    rc = sl.result_class(o)
    if rc != ms["result"] and not (rc.startswith("other:") and ms["result"] != "ok"):
        d.append("result impl=%s model=%s" % (rc, ms["result"]))
    types_real = []
    for tag, ht, _, _, _ in obs:
        if tag in ("A", "C") and ht not in types_real:
            types_real.append(ht)
    types_model = [e for e in ms["events"] if isinstance(e, str) and e.startswith("file-")]
    if types_real != types_model:
        d.append("hook types impl=%s model=%s" % (types_real, types_model))
    by = {tag: (f, b) for tag, _, _, f, b in obs}
    A, B, C, D = (by.get(k) for k in "ABCD")
    if A is None:
        d.append("no record of the first pre hook")
        return d, by
    if sl.stat3(A[0]) != sl.stat3(o.get("before")):
        d.append("harness: the first pre hook saw %s, the probe saw %s before the call" % (A[0], sl.stat3(o.get("before"))))
    if B is not None:
        x = same_stat(B[0], ms["at_open"])
        if x:
            d.append("at open time (after the pre hooks): " + x)
        if A[0] and B[0] and (A[0]["ino"] == B[0]["ino"]) != ms["pre_kept"]:
            d.append("pre hooks kept the inode: impl=%s model=%s" % (A[0]["ino"] == B[0]["ino"], ms["pre_kept"]))
    elif ms["after_write"] is not None:
        d.append("no record of the last pre hook although the model passes the pre hooks")
    if C is not None:
        x = same_stat(C[0], ms["after_write"])
        if x:
            d.append("when the post hooks start: " + x)
        if B is not None and C[0] is not None:
            created = B[0] is None or B[0]["ino"] != C[0]["ino"]
            if created != ms["created"]:
                d.append("created by this write: impl=%s model=%s" % (created, ms["created"]))
    elif ms["result"] in ("ok", "postHook"):
        d.append("no record of the first post hook although the model reaches the post hooks")
    x = same_stat(o.get("after"), ms["file"])
    if x:
        d.append("after the call: " + x)
    if D is not None:
        x = same_stat(D[0], ms["file"])
        if x:
            d.append("after the last post hook: " + x)
        if C is not None and C[0] and D[0] and (C[0]["ino"] == D[0]["ino"]) != ms["post_kept"]:
            d.append("post hooks kept the inode: impl=%s model=%s" % (C[0]["ino"] == D[0]["ino"], ms["post_kept"]))
        x = same_stat(D[1], (ms["others"] or [{}])[0].get("file"))
        if x:
            d.append("<path>.bak after the call: " + x)
    return d, by


def judge_job(c13, s, o, out, w, defaults, A, B, written):
    fm = s["fm"]
    uk, gk = sl.owner_keys(s["ftype"])
    ru = sl.resolve(fm.get(uk), w["users"]) if uk else ("none", None)
    rg = sl.resolve(fm.get(gk), w["groups"]) if gk else ("none", None)
    if ru[0] == "invalid" or rg[0] == "invalid":
        return None, ru, rg
    return {"op": "c13_holds_fx", "ftype": s["ftype"],
            "cert_mode": fm.get("cert_file_mode", defaults["cert"]), "pk_mode": fm.get("pk_file_mode", defaults["pk"]),
            "umask": out["umask"], "proc_uid": out["euid"], "proc_gid": out["egid"], "fsetid": out["fsetid"],
            "want_uid": None if ru[1] is None else str(ru[1]), "want_gid": None if rg[1] is None else str(rg[1]),
            "data_empty": len(o["data_hex"]) == 0, "before": seen(A), "after_pre": seen(B), "written": seen(written)}, ru, rg


def describe(s, j, v, um, where):
    e = v.get("expected", {})
    uk, gk = sl.owner_keys(s["ftype"])
    fx = s.get("fx") or {}
    return ("%s file, file hooks that act on it (pre-create: %s, pre-edit: %s, post-create: %s, post-edit: %s): before the "
            "hooks %s, at open time %s => %s; %s stat gives mode %04o owner %s:%s, the property demands mode %04o owner %s:%s "
            "(cert_file_mode %04o, pk_file_mode %04o, umask %03o, user %r, group %r)" % (
                s["ftype"], label(fx.get("pre_create", [])), label(fx.get("pre_edit", [])), label(fx.get("post_create", [])),
                label(fx.get("post_edit", [])),
                "absent" if j["before"] is None else "mode %04o %s:%s inode %s" % (j["before"]["mode"], j["before"]["uid"], j["before"]["gid"], j["before"]["ino"]),
                "absent" if j["after_pre"] is None else "mode %04o %s:%s inode %s" % (j["after_pre"]["mode"], j["after_pre"]["uid"], j["after_pre"]["gid"], j["after_pre"]["ino"]),
                "CREATED by this write (inode %s)" % j["written"]["ino"] if v.get("created") else "found and rewritten",
                where, j["written"]["mode"], j["written"]["uid"], j["written"]["gid"], e.get("mode", 0), e.get("uid"), e.get("gid"),
                j["cert_mode"], j["pk_mode"], um, s["fm"].get(uk or ""), s["fm"].get(gk or "")))


def evaluate(ctx, c13, items, w, defaults, tag="fx:"):
    good = []
    for hist, root, op, out in items:
        if not isinstance(out, dict) or "steps" not in out or any("bad_input" in s or "path" not in s for s in out["steps"]):
            ctx.count(tag + "probe:unusable")
            ctx.broke("probe", "write_history (effect hooks) did not run: %s" % json.dumps(out)[:300], {"kind": "fx-history", "hist": hist})
            continue
        good.append((hist, root, op, out))
    models = vlib.model([model_op(h, o, w) for h, _, _, o in good]) if good else []
    jobs, meta, corr = [], [], []
    for (hist, root, op, out), m in zip(good, models):
        if "steps" not in m:
            ctx.broke("model", "storage_history_fx: %s" % json.dumps(m)[:300], {"kind": "fx-history", "hist": hist})
            continue
        for i, (s, o, ms) in enumerate(zip(hist["steps"], out["steps"], m["steps"])):
            mini = {"kind": "fx-history", "hist": {"umask": hist["umask"], "steps": [x for x in hist["steps"] if x.get("case") == s.get("case")]}}
            if hist.get("run_as"):
                mini["hist"]["run_as"] = hist["run_as"]
            obs = [r for r in read_obs(sl.step_log(root, i)) if r[2] == o["path"]]
            d, by = compare_step(s, o, ms, obs)
            if d:
                corr.append((s.get("case"), i, d, mini))
            fx = s.get("fx") or {}
            existed = o.get("before") is not None
            pre_l = label(fx.get("pre_edit" if existed else "pre_create", []))
            post_l = label(fx.get("post_edit" if existed else "post_create", []))
            ctx.count(tag + "type:" + s["ftype"])
            ctx.count(tag + "pre-%s-effects:%s" % ("edit" if existed else "create", pre_l))
            ctx.count(tag + "post-%s-effects:%s" % ("edit" if existed else "create", post_l))
            ctx.count(tag + "result:" + sl.result_class(o).split(":")[0])
            A, B, C, D = (by.get(k) for k in "ABCD")
            state = "pre-hooks-failed" if C is None and B is None else "not-written" if C is None else \
                ("%s-before/%s" % ("existed" if existed else "absent",
                                   "created-by-this-write" if (B[0] is None or B[0]["ino"] != C[0]["ino"]) else
                                   "found-the-same-file" if (A[0] and A[0]["ino"] == B[0]["ino"]) else "found-a-file-a-pre-hook-made"))
            ctx.count(tag + "state:" + state)
            ctx.case({"fx": fx, "umask": hist["umask"], "step": {k: v for k, v in s.items() if k not in ("case", "nth", "fx")},
                      "pre": o.get("before") and sl.stat3(o["before"])}, nontrivial=C is not None)
            ctx.traces += 1
            if C is None or C[0] is None or B is None:
                ctx.count(tag + "unjudged:" + ("pre-hooks-failed" if B is None else "no-file-for-the-post-hooks"))
                continue
            j, ru, rg = judge_job(c13, s, o, out, w, defaults, A[0], B[0], C[0])
            if j is None:
                ctx.count(tag + "unjudged:invalid-owner")
                continue
            jobs.append(j)
            meta.append((s, mini, hist["umask"], "when the post hooks start,", state))
            _, post_ok = ran(fx.get("post_edit" if existed else "post_create", []))
            if post_l == "none" and D is not None and D[0] is not None and D[0]["ino"] == C[0]["ino"]:
                # no post hook acts: the file write_file leaves is judged as well
                jobs.append(dict(j, written=seen(D[0])))
                meta.append((s, mini, hist["umask"], "after the last post hook (none of them acts),", None))
    verdicts = vlib.model(jobs) if jobs else []
    failed = set()
    for (s, mini, um, where, state), j, v in zip(meta, jobs, verdicts):
        if "holds" not in v:
            ctx.broke("model", "c13_holds_fx: %s" % json.dumps(v)[:200], mini)
            continue
        if state:
            ctx.count(tag + "judged:" + state)
            if v.get("created") and s["ftype"] in ("key", "account") and not (0 if s["ftype"] == "account" else j["pk_mode"] & 0o077):
                ctx.count(tag + "private:created-without-group/other-bits=%s" % v.get("private"))
        if not v["holds"]:
            failed.add(s.get("case"))
            ctx.violation(describe(s, j, v, um, where), mini)
    for case, i, d, mini in corr:
        if case not in failed:
            ctx.disagreements += 1
            ctx.broke("correspondence", "real storage layer and StorageFx.runHistoryFx (hooks with effects) differ at step %d: %s" % (i, d), mini)
    for (s, mini, um, where, state), j in [x for x in zip(meta, jobs) if x[0][4] and "created-by-this-write" in x[0][4] and "existed" in x[0][4]][:2]:
        ctx.sample({"ftype": s["ftype"], "umask": "%03o" % um, "hooks": {k: label(v) for k, v in (s.get("fx") or {}).items() if v},
                    "before": j["before"] and "%04o %s:%s" % (j["before"]["mode"], j["before"]["uid"], j["before"]["gid"]),
                    "at_open": j["after_pre"] and "%04o %s:%s" % (j["after_pre"]["mode"], j["after_pre"]["uid"], j["after_pre"]["gid"]),
                    "post_hooks_see": "%04o %s:%s" % (j["written"]["mode"], j["written"]["uid"], j["written"]["gid"])}, limit=10)
    return meta, jobs, verdicts


# ------------------------------------------------------------------------------------------------
# generation

def gen_fx(rng, rmode, uids, gids, as_root):
    def repl():
        if rng.random() < 0.3:
            return {"kind": "replace", "via": "cp"}
        e = {"kind": "replace", "mode": rmode()}
        if as_root:
            e.update(uid=rng.choice(uids), gid=rng.choice(gids))
        return e

    def chm():
        return {"kind": "chmod", "mode": rmode()}
    mv = {"kind": "move", "allow": False}        # the archive hook as one configures it
    mva = {"kind": "move", "allow": True}
    rm = {"kind": "remove"}
    pre_create = rng.choice([[], [], [repl()], [repl(), chm()], [mva], [rm], [{"kind": "fail", "allow": True}, repl()],
                             [{"kind": "fail", "allow": False}]])
    pre_edit = rng.choice([[mv], [mv], [mv, repl()], [rm], [repl()], [chm()], [chm(), mva], [rm, repl()], [],
                           [mv, {"kind": "fail", "allow": False}], [{"kind": "fail", "allow": True}, mv]])
    post = [[], [], [], [chm()], [repl()], [mva], [rm], [chm(), {"kind": "fail", "allow": False}]]
    return {"pre_create": pre_create, "pre_edit": pre_edit, "post_create": rng.choice(post), "post_edit": rng.choice(post)}


ARCHIVE = {"pre_create": [], "pre_edit": [{"kind": "move", "allow": False}], "post_create": [], "post_edit": []}


def fixed_cases(c13, start):
    """The archive history for the three file types, default and other modes, + a pre-create hook that makes the file."""
    base = {"empty": False, "second": None, "cert_file_user": None, "cert_file_group": None, "pk_file_user": None, "pk_file_group": None}
    rows = []
    for ft in c13.FTYPES:
        rows.append(dict(base, ftype=ft, umask=0o022, cert_file_mode=0o644, pk_file_mode=0o600, fx=ARCHIVE,
                         prev={"mode": 0o600 if ft != "cert" else 0o644, "uid": 0, "gid": 0, "len": 30}))
        rows.append(dict(base, ftype=ft, umask=0o027, cert_file_mode=0o640, pk_file_mode=0o400, fx=ARCHIVE,
                         prev={"mode": 0o644, "uid": 7, "gid": 8, "len": 5},
                         second={"cert_file_mode": 0o640, "pk_file_mode": 0o400, "cert_file_user": None, "cert_file_group": None,
                                 "pk_file_user": None, "pk_file_group": None, "empty": False}))
        rows.append(dict(base, ftype=ft, umask=0o022, cert_file_mode=0o644, pk_file_mode=0o600, prev=None,
                         fx={"pre_create": [{"kind": "replace", "mode": 0o644, "uid": 0, "gid": 0}], "pre_edit": [], "post_create": [], "post_edit": []}))
        rows.append(dict(base, ftype=ft, umask=0o077, cert_file_mode=0o644, pk_file_mode=0o600, fx=dict(ARCHIVE, pre_edit=[{"kind": "remove"}]),
                         prev={"mode": 0o666, "uid": 0, "gid": 0, "len": 300}))
        if os.geteuid() == 0 and ft != "account":
            # an owner is configured: the re-created file must get it like a first creation does
            rows.append(dict(base, ftype=ft, umask=0o022, cert_file_mode=0o644, pk_file_mode=0o600, fx=ARCHIVE,
                             cert_file_user="1", cert_file_group="1", pk_file_user="1", pk_file_group="1",
                             prev={"mode": 0o600 if ft != "cert" else 0o644, "uid": 1, "gid": 1, "len": 30}))
    if os.geteuid() != 0:
        for r in rows:
            if r.get("prev"):
                r["prev"].update(uid=os.geteuid(), gid=os.getegid())
            for l in r["fx"].values():
                for e in l:
                    e.pop("uid", None)
                    e.pop("gid", None)
    return [dict(r, id=start + i) for i, r in enumerate(rows)]


def steps_of(c13, c):
    steps = c13.steps_of(c)
    for st in steps:
        st["fx"] = c["fx"]
    return steps


def hists_of(c13, cases, per_hist, run_as=None):
    by_um = {}
    for c in cases:
        by_um.setdefault(c["umask"], []).append(c)
    hists = []
    for um, cs in sorted(by_um.items()):
        for i in range(0, len(cs), per_hist):
            h = {"umask": um, "steps": [st for c in cs[i:i + per_hist] for st in steps_of(c13, c)]}
            if run_as:
                h["run_as"] = run_as
            hists.append(h)
    return hists


def fx_part(ctx, c13, x13, w, defaults, scratch, users, groups):
    rng = ctx.rng
    root = os.geteuid() == 0
    # the archive histories first: their replay is the one a reader wants to see
    fixed = fixed_cases(c13, 400000)
    hists = hists_of(c13, fixed, 12)
    res = run_histories(hists, os.path.join(scratch, "fixed"), x13, workers=4)
    evaluate(ctx, c13, [(h, r, op, out) for h, (r, op, out) in zip(hists, res)], w, defaults)
    cases = []
    n = 200 if ctx.quick() else 2000

    def rmode():
        r = rng.random()
        return rng.choice([0o600, 0o644, 0o640, 0o400, 0o660, 0o664, 0o666, 0o755, 0o777, 0]) if r < 0.4 else \
            rng.randint(0, 0o777) if r < 0.7 else rng.randint(0, 0o7777)
    uids = [0, 0, 1, 1000, 4242] if root else [os.geteuid()]
    gids = [0, 0, 1, 100, 4242] if root else [os.getegid()]
    for _ in range(n):
        c = c13.gen_case(rng, 410000 + len(cases), w, users, groups)
        c.pop("hook_spec", None)
        if c.get("second"):
            c["second"].pop("hook_spec", None)
        if c.get("prev") and c["prev"].get("link"):
            c["prev"] = {"mode": rmode(), "uid": rng.choice(uids), "gid": rng.choice(gids), "len": rng.choice([0, 5, 300])}
        if not c.get("prev") and rng.random() < 0.45:
            c["prev"] = {"mode": rmode(), "uid": rng.choice(uids), "gid": rng.choice(gids), "len": rng.choice([0, 5, 300])}
        c["umask"] = rng.choice(c13.UMASKS + c13.UMASKS + [rng.randint(0, 0o777)])
        c["fx"] = gen_fx(rng, rmode, uids, gids, root)
        cases.append(c)
    hists = hists_of(c13, cases, 12)
    res = run_histories(hists, os.path.join(scratch, "random"), x13, workers=12)
    evaluate(ctx, c13, [(h, r, op, out) for h, (r, op, out) in zip(hists, res)], w, defaults)
    if root:
        nonroot(ctx, c13, x13, w, defaults, os.path.join(scratch, "nr"))


def nonroot(ctx, c13, x13, w, defaults, scratch):
    """The same through a probe process that is not root (uid U, gid U): replaced files belong to U, modes keep the
    owner's read/write bits (a process that is not root cannot open its own file otherwise) and no set-group-id."""
    os.makedirs(scratch, exist_ok=True)
    pairs = x13.pick_ids(c13, w, scratch)
    if not pairs:
        ctx.count("fx:nonroot:skipped-no-usable-ids")
        return
    U, G = pairs[0]
    rng = ctx.rng

    def rmode():
        return (rng.choice([0o600, 0o644, 0o640, 0o660, 0o666, 0o755, 0o777]) if rng.random() < 0.5 else rng.randint(0, 0o777) | 0o600)
    cases = []
    for k in range(24 if ctx.quick() else 300):
        ft = c13.FTYPES[k % 3]
        c = {"id": 450000 + k, "ftype": ft, "cert_file_mode": rmode(), "pk_file_mode": rmode(),
             "cert_file_user": rng.choice([None, str(U)]), "cert_file_group": rng.choice([None, str(G), str(U)]),
             "pk_file_user": rng.choice([None, str(U)]), "pk_file_group": rng.choice([None, str(G), str(U)]),
             "empty": rng.random() < 0.1, "second": None, "umask": rng.choice([0o022, 0o027, 0o077, 0, rng.randint(0, 0o777) & ~0o600]),
             "prev": None if k % 2 else {"mode": rmode(), "uid": U, "gid": rng.choice([U, G]), "len": rng.choice([0, 5, 300])}}
        if rng.random() < 0.3:
            c["second"] = {"cert_file_mode": rmode(), "pk_file_mode": rmode(), "cert_file_user": None, "cert_file_group": None,
                           "pk_file_user": None, "pk_file_group": None, "empty": False}
        c["fx"] = gen_fx(rng, rmode, [U], [U], False)
        cases.append(c)
    for c in fixed_cases(c13, 460000):
        if c.get("prev"):
            c["prev"].update(uid=U, gid=U)
        for l in c["fx"].values():
            for e in l:
                e.pop("uid", None)
                e.pop("gid", None)
        cases.append(c)
    for c in cases:
        c["umask"] &= ~0o600
    hists = hists_of(c13, cases, 12, run_as=[U, U, G])
    try:
        res = run_histories(hists, scratch, x13)
    except (OSError, ValueError) as e:
        ctx.count("fx:nonroot:skipped-cannot-start-a-process-as-%d" % U)
        ctx.notes.append("effect-hook histories as uid %d skipped: %r" % (U, e))
        return
    items = []
    for h, (r, op, out) in zip(hists, res):
        if isinstance(out, dict) and out.get("died"):
            ctx.count("fx:nonroot:skipped-cannot-start-a-process-as-%d" % U)
            return
        if isinstance(out, dict) and "steps" in out and (out.get("euid"), out.get("egid"), out.get("fsetid")) != (U, U, False):
            ctx.broke("harness", "the probe did not run as %d:%d without CAP_FSETID" % (U, U), {"kind": "fx-history", "hist": h})
            continue
        items.append((h, r, op, out))
    evaluate(ctx, c13, items, w, defaults, tag="fx:nonroot:")


def replay_history(ctx, c13, x13, w, defaults, scratch, hist):
    res = run_histories([hist], scratch, x13, workers=1)
    evaluate(ctx, c13, [(hist, res[0][0], res[0][1], res[0][2])], w, defaults)


# ------------------------------------------------------------------------------------------------
# the daemon with the archive hook

def daemon_hooks(log):
    hooks = []
    for t in sl.FILE_HOOK_TYPES:
        pre = "-pre-" in t
        hooks.append(rec_hook(t, "A" if pre else "C", log, ""))
        if t == "file-pre-edit":
            hooks.append({"name": "archive-previous-version", "type": [t], "cmd": "mv", "args": [FP, FP + ".bak"]})
        if pre:
            hooks.append(rec_hook(t, "B", log, ""))
    return hooks


def judge_daemon(ctx, c13, w, defaults, root, helper, g, um):
    """One daemon process: account `acc1` on two endpoints of the same CA (ep2's registration REWRITES the account
    file), certificate `site` (ep1) good for a day, hence renewed at once (key and certificate REWRITTEN),
    certificate `site2` (ep2).  Every file hook list carries the recorder; file-pre-edit archives the old file."""
    replay_obj = {"kind": "daemon-fx", "global": g, "umask": um}
    fxlog = os.path.join(root, "fx.log")
    names = []

    def edit(cfg, root_):
        hs = daemon_hooks(fxlog)
        cfg["hook"] += hs
        names.extend(h["name"] for h in hs)
        for a in cfg["account"]:
            a["hooks"] = list(a.get("hooks", [])) + names
        for c in cfg["certificate"]:
            c["hooks"] = list(c.get("hooks", [])) + names

    def enough(ca, log):
        done = {}
        for r in flow.post_ops(log):
            a = flow.hook_args(r)
            if a.get("is_success") == "true":
                k = os.path.basename(a.get("certificate_path", ""))
                done[k] = done.get(k, 0) + 1
        return any(k.startswith("site_") and v >= 2 for k, v in done.items()) and any(k.startswith("site2_") for k in done)
    old = os.umask(um)
    try:
        ca = flow.mockca.MockCA(helper, opts={"valid_secs": 86400})
        ca.start()
        try:
            url = ca.base + "/directory"
            # make_config takes the endpoints as given: two names, one CA
            obs = run_two_endpoints(root, ca, url, helper, g, edit, enough)
        finally:
            ca.stop()
    finally:
        os.umask(old)
    recs = read_obs(fxlog)
    if not obs["stopped"] or not recs:
        ctx.broke("flow", "the daemon run with the archive hook did not reach two issuances of `site` and one of `site2`",
                  dict(replay_obj, stderr=obs["stderr"][-1500:]))
        return
    acc_dir, crt_dir = os.path.join(root, "accounts"), os.path.join(root, "certs")
    last = {}
    jobs, meta = [], []
    for tag, ht, path, f, bak in recs:
        st = last.setdefault(path, {})
        if tag in ("A", "B"):
            st[tag] = (ht, f)
            continue
        if tag != "C" or "A" not in st or "B" not in st or f is None:
            ctx.broke("harness", "recorder sequence of %s: %s without A and B (or no file at the post hooks)" % (path, tag), replay_obj)
            continue
        ft = "account" if os.path.dirname(path) == acc_dir else "key" if ".pk." in os.path.basename(path) else "cert"
        uk, gk = sl.owner_keys(ft)
        ru = sl.resolve(g.get(uk), w["users"]) if uk else ("none", None)
        rg = sl.resolve(g.get(gk), w["groups"]) if gk else ("none", None)
        A, B = st.pop("A"), st.pop("B")
        jobs.append({"op": "c13_holds_fx", "ftype": ft, "cert_mode": g.get("cert_file_mode", defaults["cert"]),
                     "pk_mode": g.get("pk_file_mode", defaults["pk"]), "umask": um, "proc_uid": os.geteuid(),
                     "proc_gid": os.getegid(), "fsetid": os.geteuid() == 0,
                     "want_uid": None if ru[1] is None else str(ru[1]), "want_gid": None if rg[1] is None else str(rg[1]),
                     "data_empty": False, "before": seen(A[1]), "after_pre": seen(B[1]), "written": seen(f)})
        meta.append((ft, path, A[0], bak))
        st["C"] = f
    # at the end: a file nobody touched since its last post hook must still be what that hook saw (no post hook acts)
    for path, st in last.items():
        if "C" in st and "A" not in st:
            try:
                z = os.stat(path)
            except OSError:
                ctx.violation("daemon run with the archive hook: %s is gone after its last write" % path, replay_obj)
                continue
            now = {"ino": z.st_ino, "mode": z.st_mode & 0o7777, "uid": z.st_uid, "gid": z.st_gid}
            ctx.count("daemon-fx:at-the-end:%s" % ("as-the-post-hook-saw-it" if now == st["C"] else "differs"))
            if now != st["C"]:
                ctx.violation("daemon run with the archive hook: %s is %s at the end, the last post hook saw %s and nothing "
                              "wrote to it since" % (path, now, st["C"]), replay_obj)
    kinds = set()
    for (ft, path, ht, bak), j, v in zip(meta, jobs, vlib.model(jobs) if jobs else []):
        how = "first-creation" if j["before"] is None else "re-created-after-the-archive-hook" if v.get("created") else "rewritten-in-place"
        kinds.add((ft, how))
        ctx.case({"daemon-fx": replay_obj, "ftype": ft, "how": how, "file": os.path.basename(path)})
        ctx.count("daemon-fx:%s:%s" % (ft, how))
        ctx.traces += 1
        if j["before"] is not None and bak is not None and (bak["mode"], bak["uid"], bak["gid"]) != (j["before"]["mode"], int(j["before"]["uid"]), int(j["before"]["gid"])):
            ctx.broke("harness", "the archived %s.bak does not carry the mode and owner of the file that was moved" % path, replay_obj)
        if not v.get("holds"):
            e = v.get("expected", {})
            ctx.violation("daemon run with the archive hook `mv {{ file_path }} {{ file_path }}.bak` on file-pre-edit ([global] %s, umask "
                          "%03o): the %s file %s (%s, hook %s; before the hooks: %s; at open time: %s) has mode %04o owner %s:%s when "
                          "the post hooks start, the property demands mode %04o owner %s:%s" % (
                              g, um, ft, os.path.basename(path), how, ht,
                              "absent" if j["before"] is None else "mode %04o" % j["before"]["mode"],
                              "absent" if j["after_pre"] is None else "mode %04o" % j["after_pre"]["mode"],
                              j["written"]["mode"], j["written"]["uid"], j["written"]["gid"], e.get("mode", 0), e.get("uid"), e.get("gid")),
                          replay_obj)
    for ft in ("account", "key", "cert"):
        if (ft, "re-created-after-the-archive-hook") not in kinds:
            ctx.broke("flow", "the daemon run with the archive hook never re-created the %s file (kinds seen: %s)" % (ft, sorted(kinds)),
                      dict(replay_obj, stderr=obs["stderr"][-1500:]))
    ctx.sample({"daemon-fx": {"global": {k: ("%04o" % v if k.endswith("mode") else v) for k, v in g.items()}, "umask": "%03o" % um},
                "writes": ["%s %s: %04o %s:%s" % (ft, "first-creation" if j["before"] is None else "after mv", j["written"]["mode"],
                                                   j["written"]["uid"], j["written"]["gid"]) for (ft, _, _, _), j in list(zip(meta, jobs))[:8]]}, limit=10)


def run_two_endpoints(root, ca, url, helper, g, edit, enough):
    eps = [{"name": "ep1", "url": url, "tos_agreed": True}, {"name": "ep2", "url": url, "tos_agreed": True}]
    certs = [{"name": "site", "endpoint": "ep1", "identifiers": [{"dns": "example.org", "challenge": "http-01"}]},
             {"name": "site2", "endpoint": "ep2", "identifiers": [{"dns": "two.example.org", "challenge": "http-01"}]}]
    return run_scenario_eps(root, certs, eps, ca, helper, g, edit, enough)


def run_scenario_eps(root, certs, eps, ca, helper, g, edit, enough):
    """flow.run_scenario with two endpoints: it has no parameter for them, so the endpoint list is put in by the
    same last-minute edit that adds the hooks."""
    def edit2(cfg, root_):
        cfg["endpoint"] = eps
        edit(cfg, root_)
    return flow.run_scenario(root, certs, timeout=40, helper=helper, extra_global=g, with_file_hooks=False, ca=ca,
                             n_postop=10 ** 6, stop=enough, hooks_edit=edit2)
