"""C06 generator dimension: WHEN the validity of a certificate begins (notBefore), relative to the local clock.

The property speaks of notAfter, renew_delay and random_early_renew only: a certificate whose notBefore lies in the
future of the local clock (a CA whose clock runs ahead, a CA that does not back-date, a pre-provisioned certificate)
and which is otherwise fine is due exactly when any other certificate with the same notAfter is — it is not "expired".
The generators of props/c06.py, py/ext/c06x.py and py/ext/c06place.py used to make every certificate with notBefore at
least one hour in the past; this module is the shared class list.  The judge (op `c06`) is not given notBefore: it
depends on notAfter only.

offset = seconds relative to the moment the certificate is made (vhelper `selfsigned` / `issue`: `not_before_offset`).
"""
DAY = 86400
YEAR = 365 * DAY

# (class, lowest offset, highest offset)
CLASSES = [
    ("far-past", -40 * YEAR, -2 * YEAR),
    ("1h-ago", -3600, -3600),
    ("seconds-ago", -30, -1),
    ("now", 0, 0),
    ("seconds-ahead", 45, 120),        # still ahead when the probe evaluates the batch
    ("minutes-ahead", 5 * 60, 90 * 60),
    ("days-ahead", DAY, 60 * DAY),
    ("years-ahead", 2 * YEAR, 30 * YEAR),
]
FUTURE = {"seconds-ahead", "minutes-ahead", "days-ahead", "years-ahead"}


def pick(rng, p_default=0.5):
    """(class, offset) — `("default", None)`: the generator's former rule (one hour before now or before notAfter,
    whichever is earlier)."""
    if rng.random() < p_default:
        return "default", None
    name, lo, hi = rng.choice(CLASSES)
    return name, rng.randint(lo, hi)


def by_index(i):
    """Deterministic variant for generators that draw nothing: every class in turn, the former rule every other time."""
    if i % 2 == 0:
        return "default", None
    name, lo, hi = CLASSES[(i // 2) % len(CLASSES)]
    return name, (lo + hi) // 2


def offset_for(t, default):
    """notBefore offset of a generated item (`not_before_offset` absent / None: the former rule)."""
    v = t.get("not_before_offset")
    return default if v is None else v


def count(ctx, tag, t, extra=""):
    k = t.get("nb_class", "default")
    ctx.count(tag + "notBefore:" + k)
    if k in FUTURE:
        ctx.count(tag + "notBefore-in-the-future" + extra)
        if t.get("not_before_offset", 0) >= t.get("not_after_offset", t.get("life", 0)):
            ctx.count(tag + "notBefore-after-notAfter")
