"""C04 / C11 — a key roll-over whose answer is lost (5ce05e3, 1fb1c1a, d9d2cda): scenarios on the real
daemon, the records for the judges under uncertainty (`Spec/C04Lost.lean`, `Spec/C11Lost.lean`, driver
ops `c04_judge_lost` / `c11_judge_lost`, theorems `Props/C11Lost.lean`, `Props/C04Lost.lean`), and the
narrow classification of the one known finding.

What the judge demands (nothing else is loosened): after a keyChange request that got NO ANSWER, the
requests up to and including the first request that RECEIVES AN ANSWER may be signed by either key of
the pending exchange (the key the CA had on record when that request arrived, or the key its inner object
carries); every request outside such a window is judged by `Spec.C04.reqOk` as always.

Scenarios (`scenarios`), all against the scriptable mock CA (`{"process": True, "drop": True}` = the CA
processes the request, the answer never arrives):
* lost-keyChange-A-B[-restart|-contacts]: roll-over A -> B processed, answer lost; the following attempt
  (same daemon after the failure pause, or a restart) must recover; then one more restart and renewal;
* lost-newAccount, lost-accountUpdate: the same loss at the other two account requests (harmless: the
  retry is signed by the key the CA holds either way) — ZERO non-verifying requests demanded;
* refused-keyChange-<type>: the CA holds the old key and genuinely refuses the roll-over (403
  unauthorized / badPublicKey / …): ZERO non-verifying requests demanded (the tree at 5ce05e3 sent one);
* query-refused-userActionRequired: the account query that precedes the roll-over is refused with an
  error that says nothing about the signature: ZERO non-verifying requests demanded;
* deactivated-account-<type>: that query is refused with unauthorized / badPublicKey /
  badSignatureAlgorithm while the CA holds the superseded key (a deactivated account): the working tree
  then asks once with the current key — the KNOWN FINDING `rollover-probe-at-deactivated-account`.  Only
  that request, only in these scenarios, is reported under that class; anything else is a violation;
* lost-then-key-edited: roll-over K1 -> K2 processed, answer lost, then the key type is edited AGAIN (K3) before
  any further synchronisation: the CA holds K2, the record names K1, the client signs with K1 and K3 — the KNOWN
  FINDING `rollover-lost-then-key-edited` (the account queries signed by K1 / K3 that do not verify outside the
  window, and the renewals that never succeed again).  Same narrowness."""
import json
import os

import mockca
import vlib

FINDING = "rollover-probe-at-deactivated-account"
FINDING2 = "rollover-lost-then-key-edited"
SIG_REFUSALS = ("unauthorized", "malformed", "badSignatureAlgorithm", "badPublicKey")


def _problem(kind, nth, typ, status=403, label=None):
    return {"kind": kind, "nth": nth, "label": label or "%s@%s%d" % (typ, kind, nth),
            "answer": {"status": status, "ctype": "application/problem+json",
                       "body": {"type": mockca.ERR + typ, "detail": "injected"}}}


def _lost(kind, nth):
    return {"kind": kind, "nth": nth, "label": "lost@%s%d" % (kind, nth), "answer": {"process": True, "drop": True}}


def scenarios(quick):
    scs = []
    pairs = [("ecdsa_p256", "ecdsa_p384"), ("rsa2048", "ed25519"), ("ed448", "ecdsa_p256")] if quick else \
        [("ecdsa_p256", "ecdsa_p384"), ("rsa2048", "ed25519"), ("ed448", "ecdsa_p256"), ("ecdsa_p521", "rsa2048"),
         ("ed25519", "ed448"), ("ecdsa_p384", "ecdsa_p521"), ("rsa2048", "rsa4096"), ("ecdsa_p256", "rsa2048")]
    for i, (a, b) in enumerate(pairs):
        # the next attempt of the SAME daemon recovers; then a restart and one more renewal
        scs.append({"name": "lost-keyChange-%s-%s" % (a, b), "nonce_on_get": i % 2 == 0, "rules": [_lost("keyChange", 0)],
                    "steps": [{"key_type": a}, {"key_type": b, "n_postop": 2}, {"key_type": b}], "lost": "keyChange"})
    a, b = pairs[0]
    # the daemon is stopped after the failed attempt: the recovery happens after a RESTART (what is on disk)
    scs.append({"name": "lost-keyChange-%s-%s-restart" % (a, b), "nonce_on_get": True, "rules": [_lost("keyChange", 0)],
                "steps": [{"key_type": a}, {"key_type": b, "may_fail": True}, {"key_type": b}, {"key_type": b}], "lost": "keyChange"})
    a, b = pairs[1]
    # contacts edited together with the key: the contact update follows the recovery, signed by the new key
    scs.append({"name": "lost-keyChange-%s-%s-contacts" % (a, b), "nonce_on_get": False, "rules": [_lost("keyChange", 0)],
                "steps": [{"key_type": a}, {"key_type": b, "contacts": ["n@example.org"], "n_postop": 2},
                          {"key_type": b, "contacts": ["n@example.org"]}], "lost": "keyChange"})
    # the same loss at the two other account requests
    scs.append({"name": "lost-newAccount", "nonce_on_get": True, "rules": [_lost("newAccount", 0)],
                "steps": [{"key_type": "ecdsa_p256", "n_postop": 2}, {"key_type": "ecdsa_p256"}], "lost": "newAccount"})
    scs.append({"name": "lost-accountUpdate", "nonce_on_get": False, "rules": [_lost("account", 0)],
                "steps": [{"key_type": "ecdsa_p384"}, {"key_type": "ecdsa_p384", "contacts": ["m@example.org"], "n_postop": 2},
                          {"key_type": "ecdsa_p384", "contacts": ["m@example.org"]}], "lost": "accountUpdate"})
    # the CA holds the old key and refuses the roll-over: nothing may be signed with the new key
    for i, typ in enumerate(("unauthorized", "badPublicKey") if quick else ("unauthorized", "badPublicKey", "badSignatureAlgorithm",
                                                                            "userActionRequired", "invalidContact")):
        a, b = pairs[i % len(pairs)]
        scs.append({"name": "refused-keyChange-%s" % typ, "nonce_on_get": i % 2 == 1, "rules": [_problem("keyChange", 0, typ)],
                    "steps": [{"key_type": a}, {"key_type": b, "n_postop": 2}], "lost": "refused"})
    # the query that precedes the roll-over (kind "account", the first POST to the account URL) is refused
    scs.append({"name": "query-refused-userActionRequired", "nonce_on_get": True,
                "rules": [_problem("account", 0, "userActionRequired")],
                "steps": [{"key_type": "ecdsa_p256"}, {"key_type": "ecdsa_p384", "n_postop": 2}], "lost": "refused"})
    # DOUBLE fault: the answer to the roll-over A -> B is lost, and the key type is edited again (C) before recovery
    scs.append({"name": "lost-then-key-edited", "nonce_on_get": True, "rules": [_lost("keyChange", 0)],
                "steps": [{"key_type": "ecdsa_p256"}, {"key_type": "ecdsa_p384", "may_fail": True},
                          {"key_type": "ed25519", "n_postop": 2, "may_fail": True}], "lost": "lost-then-edited",
                "finding": FINDING2})
    for i, typ in enumerate(("unauthorized",) if quick else ("unauthorized", "badPublicKey", "badSignatureAlgorithm")):
        a, b = pairs[(i + 1) % len(pairs)]
        scs.append({"name": "deactivated-account-%s" % typ, "nonce_on_get": i % 2 == 0,
                    # POSTs to the account URL: #0 the query of attempt 1 (refused by this rule), #1 the query signed by
                    # the current key (refused by the CA itself: it holds the other key), #2 / #3 the same in attempt 2
                    "rules": [_problem("account", 0, typ), _problem("account", 2, typ)],
                    "steps": [{"key_type": a}, {"key_type": b, "n_postop": 2, "may_fail": True}], "lost": "deactivated",
                    "finding": FINDING})
    return scs


# ------------------------------------------------------------------------------------------------
# records for `c04_judge_lost`

def base_records(ca_log):
    """Judge records of one server's log (POSTs in order + inner objects), as `c04.records_of` builds them
    for a CA that forgets nothing (for the histories of py/ext/accountmulti.py)."""
    out = []
    for r in ca_log:
        if r["kind"] != "req" or r["method"] != "POST":
            continue
        hdr = r.get("hdr") or {}
        out.append({"kind": "newAccount" if r["rk"] == "newAccount" else "other", "flat": bool(r.get("flat")),
                    "hdr_members": r.get("hdr_members", []), "alg": hdr.get("alg", ""), "key_kind": r.get("key_kind", "?"),
                    "url_ok": bool(r.get("url_ok")), "nonce_issued": bool(r.get("nonce_issued")),
                    "nonce_reused": bool(r.get("nonce_reused")), "kid_ok": bool(r.get("kid_ok")),
                    "sig_ok": bool(r.get("sig_ok")), "sig_len": r.get("sig_len", 0), "_src": r})
        if "inner" in r:
            inner = dict(r["inner"], kind="keyChangeInner", nonce_issued=True, nonce_reused=False,
                         kid_ok=bool(r.get("inner_account_ok", True)), _src=r)
            inner["sig_ok"] = bool(inner.get("sig_ok")) and bool(r.get("old_key_matches_record", True))
            out.append(inner)
        if "eab" in r and "error" not in r["eab"]:
            e = r["eab"]
            out.append(dict(e, kind="eabInner", nonce_issued=True, nonce_reused=False,
                            sig_ok=e["sig_ok"] and e.get("payload_is_account_jwk", False), _src=r))
    return out

def _verifies(helper, r, jwk, alg=None):
    if jwk is None or "protected_b64" not in r:
        return False
    v = helper.call({"op": "verify_jws", "jwk": jwk, "alg": alg or (r.get("hdr") or {}).get("alg"),
                     "protected_b64": r["protected_b64"], "payload_b64": r["payload_b64"], "sig_b64": r["sig_b64"]})
    return bool(v.get("valid"))


def _inner_of(r):
    """(inner header, inner payload) of a keyChange request, read off its payload (the CA's own decoding is
    only there when it processed the request)."""
    try:
        inner = json.loads(r.get("payload") or "{}")
        ih = json.loads(mockca.b64u_dec(inner["protected"]).decode())
        ip = json.loads(mockca.b64u_dec(inner["payload"]).decode())
        return ih, ip
    except Exception:
        return {}, {}


def records_x(helper, ca_log, base_records):
    """`base_records`: what c04.records_of made of this log (outer records and inner objects, in order, each
    with `_src`).  Returns the same list with the five members the window needs."""
    answers = {e["for"]: e for e in ca_log if e["kind"] == "ans"}
    out = []
    pending = None        # {"old": jwk, "new": jwk}: the keys of the last unanswered keyChange request
    last_outer = None
    for x in base_records:
        src = x["_src"]
        outer = x["kind"] in ("newAccount", "other")
        y = dict(x, outer=outer, is_key_change=False, answered=True, sig_ok_alt=False, alt_key_kind="?")
        if outer:
            a = answers.get(src.get("gidx"))
            y["answered"] = bool(a) and not a.get("drop")
            y["is_key_change"] = src["rk"] == "keyChange"
            alt = None
            if pending and x["kind"] == "other":
                for k in ("old", "new"):
                    if _verifies(helper, src, pending[k]):
                        alt = pending[k]
                if alt is not None:
                    y["sig_ok_alt"], y["alt_key_kind"] = True, mockca.jwk_kind(alt)
            y["_pending"] = pending
            last_outer = y
            if y["is_key_change"] and not y["answered"]:
                ih, _ = _inner_of(src)
                pending = {"old": src.get("jwk_on_record"), "new": ih.get("jwk")}
            elif y["answered"]:
                pending = None
        else:
            # an inner object is judged under the window of its outer request
            pend = (last_outer or {}).get("_pending")
            if pend and x["kind"] == "keyChangeInner":
                _, ip = _inner_of(src)
                inner_sig = bool((src.get("inner") or {}).get("sig_ok", x.get("sig_ok")))
                names_pending = any(json.dumps(ip.get("oldKey"), sort_keys=True) == json.dumps(pend[k], sort_keys=True)
                                    for k in ("old", "new") if pend[k] is not None)
                y["sig_ok_alt"] = inner_sig and names_pending and bool(src.get("inner_account_ok", True))
                y["alt_key_kind"] = x.get("key_kind", "?")
        out.append(y)
    return out


def judge_input(recs_x):
    drop = ("_src", "_pending")
    return {"op": "c04_judge_lost", "log": [{k: v for k, v in x.items() if k not in drop} for x in recs_x]}


# ------------------------------------------------------------------------------------------------
# classification of the known finding

def client_keys(acc_dir, name="acc1"):
    """Public keys of the account as stored: (current jwk, [past jwks])."""
    r = vlib.probe([{"op": "account_reload", "dir": acc_dir, "name": name, "fetch_only": True}])[0]
    f = r.get("fetched") if isinstance(r, dict) else None
    if not (isinstance(f, dict) and "info" in f):
        return None, []
    return f["info"]["current"]["jwk"], [k["jwk"] for k in f["info"]["past"]]


def is_finding_request(by_current, recs_x, i, answers):
    """Record `i` (failing the judge) is exactly the request of the known finding: a POST-as-GET of the
    account URL signed by the client's CURRENT key, sent immediately after a POST-as-GET of the same URL
    that verified under the key on record and was answered unauthorized / malformed / badSignatureAlgorithm
    / badPublicKey, while the CA holds that (superseded) key; outside any window.
    `by_current(x)`: record `x` verifies under the client's current key."""
    x = recs_x[i]
    src = x["_src"]
    if not x["outer"] or x["kind"] != "other" or src["rk"] != "account" or (src.get("payload") or "") != "":
        return False
    if x.get("_pending"):
        return False
    hdr = src.get("hdr") or {}
    if hdr.get("kid") is None or not x.get("kid_ok") or x.get("sig_ok"):
        return False
    if not by_current(x):
        return False
    prev = [y for y in recs_x[:i] if y["outer"]]
    if not prev:
        return False
    p = prev[-1]
    ps = p["_src"]
    a = answers.get(ps.get("gidx")) or {}
    return (ps["rk"] == "account" and ps["path"] == src["path"] and (ps.get("payload") or "") == "" and bool(p.get("sig_ok"))
            and a.get("problem") in SIG_REFUSALS and ps.get("jwk_on_record") == src.get("jwk_on_record"))


def lost_new_keys(recs_x, upto):
    """The keys some CA-processed, unanswered keyChange request before record `upto` installed."""
    out = []
    for y in recs_x[:upto]:
        if y["outer"] and y["is_key_change"] and not y["answered"] and y["_src"].get("processed"):
            ih, _ = _inner_of(y["_src"])
            if ih.get("jwk") is not None:
                out.append(ih["jwk"])
    return out


def is_lost_then_edited_request(by_client, recs_x, i):
    """Record `i` (failing the judge) is a request of the known finding `rollover-lost-then-key-edited`: a
    POST-as-GET of the account URL, outside any window, signed by one of the client's keys (`by_client(x)`)
    while the CA holds the key that a processed-but-unanswered keyChange request installed — a key the client
    does not sign with any more because the key type was edited again."""
    x = recs_x[i]
    src = x["_src"]
    if not x["outer"] or x["kind"] != "other" or src["rk"] != "account" or (src.get("payload") or "") != "":
        return False
    if x.get("_pending") or x.get("sig_ok") or not x.get("kid_ok"):
        return False
    held = src.get("jwk_on_record")
    return held is not None and any(json.dumps(held, sort_keys=True) == json.dumps(k, sort_keys=True)
                                    for k in lost_new_keys(recs_x, i)) and by_client(x)


def judge_flow(ctx, helper, sc, res, recs, v, acc_dir):
    """Judges one flow of `scenarios` with the verdict `v` of `c04_judge_lost`.  Returns the number of
    violations / known-finding hits it reported."""
    recs_x = res["_recs_x"]
    answers = {e["for"]: e for e in res["log"] if e["kind"] == "ans"}
    name = sc["name"]
    ctx.count("lost:%s" % sc["lost"])
    ctx.count("lost:admitted-by-window", v.get("admitted", 0))
    ctx.count("lost:%s:admitted=%d" % (sc["lost"], v.get("admitted", 0)))
    fired = [x["_src"].get("rule") for x in recs_x if x["_src"].get("rule")]
    if not fired:
        ctx.broke("harness", "flow %s: the scripted answer never fired" % name, {"sc": sc})
    if sc["lost"] == "keyChange":
        if not any(x["outer"] and x["is_key_change"] and not x["answered"] and x["_src"].get("processed") for x in recs_x):
            ctx.broke("harness", "flow %s: no keyChange request was processed-and-unanswered" % name, {"sc": sc})
    n = 0
    bad = [i for i, ok in enumerate(v["req_ok"]) if not ok]
    cur_jwk, past_jwks = None, []
    if bad and sc.get("finding"):
        cur_jwk, past_jwks = client_keys(acc_dir)
    for i in bad:
        x = recs_x[i]
        src = x["_src"]
        desc = ("flow %s: POST #%d to %s (%s) does not verify under the key on record%s: %s" % (
            name, i, src.get("path"), x["kind"],
            " (nor, inside the window of an unanswered keyChange, under the other key of that exchange)" if v["window"][i] else
            " (no keyChange request is unanswered at that point)",
            {k: x[k] for k in ("flat", "hdr_members", "alg", "key_kind", "url_ok", "nonce_issued", "nonce_reused", "kid_ok",
                               "sig_ok", "sig_len", "sig_ok_alt", "alt_key_kind")}))
        rep = {"sc": sc, "record": {k: v2 for k, v2 in x.items() if k not in ("_src", "_pending")},
               "request": {k: src.get(k) for k in ("path", "hdr", "payload", "nth", "signer", "alg_on_record", "rule")},
               "history": [{"path": y["_src"].get("path"), "rk": y["_src"]["rk"], "sig_ok": y.get("sig_ok"),
                            "answered": y["answered"], "status": (answers.get(y["_src"].get("gidx")) or {}).get("status"),
                            "problem": (answers.get(y["_src"].get("gidx")) or {}).get("problem")}
                           for y in recs_x[:i + 1] if y["outer"]][-8:]}
        if sc.get("finding") == FINDING and is_finding_request(
                lambda y: cur_jwk is not None and _verifies(helper, y["_src"], cur_jwk), recs_x, i, answers):
            ctx.count("lost:known-finding-request")
            ctx.violation(desc, rep, klass=FINDING)
        elif sc.get("finding") == FINDING2 and is_lost_then_edited_request(
                lambda y: any(_verifies(helper, y["_src"], k) for k in [cur_jwk] + past_jwks if k is not None), recs_x, i):
            ctx.count("lost:known-finding2-request")
            ctx.violation(desc, rep, klass=FINDING2)
        else:
            ctx.violation(desc, rep)
        n += 1
    if sc["lost"] == "deactivated" and not bad:
        # the finding's scenario without the finding's request: the line in known-findings.txt is stale
        ctx.count("lost:finding-scenario-clean")
    if sc["lost"] == "lost-then-edited":
        # the other observation of that finding: the renewals never succeed again
        posts_ok = res.get("last_ok")
        ctx.count("lost:lost-then-edited:last-renewal-%s" % ("ok" if posts_ok else "failed"))
        if not posts_ok:
            ctx.violation("flow %s: after the lost answer and the second key edit the renewals against a conforming CA do "
                          "not succeed any more (the account is wedged)" % name, {"sc": sc}, klass=FINDING2)
            n += 1
    if sc["lost"] in ("keyChange", "newAccount", "accountUpdate") and not res["ok"]:
        # the history ends with a conforming CA and renewals due: they must succeed
        ctx.violation("flow %s: after the lost answer the renewals against a conforming CA do not succeed any more "
                      "(the account is wedged)" % name, {"sc": sc})
        n += 1
    if sc["lost"] == "keyChange" and res["ok"] and v.get("admitted", 0) > 1:
        ctx.count("lost:more-than-one-request-inside-the-window")
    return n
