"""C07 extension: fault inputs the base check (props/c07.py) does not generate.  Same judges
(`c07_judge` = Spec.C07.holds / boundedOk, `c07_run` = Spec.C07.runOk); only the scenarios are new.

  scripts      random MULTI-fault scripts over several consecutive attempts of one certificate (2..4 faults from
               flowgrid's catalogue at random request occurrences, sometimes a failing hook on top), four
               post-operation records observed;
  cut          an answer whose body ends before the announced Content-Length (mock answer key `cut_after`):
               2xx answers and error answers, at every kind of request;
  newNonce     the newNonce request itself fails (CA without Replay-Nonce on GET answers);
  unusable     a stored certificate the daemon cannot use (unparsable file / a directory in its place / a
               directory in place of the key) next to a healthy certificate in the same daemon;
  unreachable  an endpoint nobody listens on (connection refused before any request) next to a healthy
               certificate on another endpoint: per failed attempt one post-operation record, and the pause;
  multi        several certificates sharing account and endpoint of which a subset fails for ever in OTHER ways
               than a refused newOrder: its own challenge hook fails, finalize refused, authorization invalid,
               its account cannot be registered; and the degenerate sizes (1 certificate, none failing).
  hookio       hooks that are FED through their standard input and read it to its end (the recorder does; so do
               sendmail, cat, openssl …): `stdin_str` templates (the status on post-operation, the proof on challenge
               hooks, an EMPTY string) and `stdin` FILES (a few lines; more than a pipe holds) on post-operation,
               challenge, clean and file hooks, with and without a failing first attempt; and a certificate failing
               for ever whose failure report goes through such a hook next to healthy ones.  An attempt whose hook
               never sees the end of its input never ends: watched for 32 s without any sign of life (bound: 30 s).

The daemon runs are started in the background by `start` (they only produce observations) and judged in the
main thread by `finish`, so that they overlap with the base parts of the check.
"""
import concurrent.futures
import os
import socket
import sys
import time

import cfggen
import flow
import flowgrid
import mockca
import vlib

BOUND_MS = 30000
KINDS = ["directory", "newAccount", "newOrder", "authz", "challenge", "order", "finalize", "cert"]


def problem(typ, status=400):
    return flowgrid.problem(typ, status)


# ---------------------------------------------------------------------------------------------------------
# single-certificate runs (scripts, cut, newNonce): observations shaped like flowgrid.run_fault's

def run_rules(sc, root, helper, n_postop, timeout):
    d = os.path.join(root, "x%d" % sc["idx"])
    os.makedirs(os.path.join(d, "certs"), exist_ok=True)
    crt, key = flow.cert_paths(d, "crt")
    if sc.get("pair"):
        r = helper.call({"op": "selfsigned", "dns": [i["dns"] for i in flowgrid.IDENTS], "ips": [],
                         "not_after_offset": 86400, "type": "ecdsa-p256"})
        with open(crt, "w") as f:
            f.write(r["cert_pem"])
        with open(key, "w") as f:
            f.write(r["key_pem"])
    cert = {"name": "crt", "identifiers": flowgrid.IDENTS, "kp_reuse": bool(sc.get("kp_reuse")), "key_type": "ecdsa_p256"}
    obs = flow.run_scenario(d, [cert], ca_opts=dict(sc.get("ca_opts") or {}), rules=[dict(r, answer=dict(r["answer"])) for r in sc["rules"]],
                            n_postop=n_postop, timeout=timeout, helper=helper, hook_exits=sc.get("hook_exits"),
                            hooks_edit=(lambda cfg, root: hooks_edit(cfg, root, sc)) if sc.get("hook_io") or sc.get("multi_hooks") else None)
    posts = [h for h in obs["hooks"] if h["name"] == "rec-post-operation"]
    obs.update({"sc": sc, "posts": posts, "crt_path": crt, "key_path": key})
    return obs


def hooks_edit(cfg, root, sc):
    if sc.get("multi_hooks"):
        multi_hooks_edit(cfg, root, sc["multi_hooks"])
    if sc.get("hook_io"):
        feed_hooks(cfg, root, sc["hook_io"])


# hooks whose `type` array names SEVERAL events, on both sides of the file-level / certificate-level divide (one audit or
# notification hook "for everything"), next to the single-typed recorder hooks
ALL_TYPES = list(flow.HOOK_TYPES)
MULTI_HOOKS = [
    [{"name": "recm-audit", "types": ["file-pre-create", "file-post-create", "file-pre-edit", "file-post-edit", "post-operation"], "first": True}],
    [{"name": "recm-edit-report", "types": ["file-post-edit", "post-operation"], "first": False},
     {"name": "recm-chall-file", "types": ["challenge-http-01", "file-pre-create"], "first": True}],
    [{"name": "recm-everything", "types": ALL_TYPES, "first": False}],
    [{"name": "recm-cert-level", "types": ["challenge-http-01-clean", "post-operation"], "first": True},
     {"name": "recm-report-create", "types": ["post-operation", "file-post-create"], "first": False}],
]
MULTI_VARS = ["is_success", "status", "file_path", "challenge", "identifier", "is_clean_hook"]


def multi_hooks_edit(cfg, root, multi):
    """Adds recorder hooks with several types to the certificate's group: before all the single-typed ones ("first")
    or after them.  Their records carry no "type=" argument (flow.post_ops counts the single-typed recorder only);
    the event is told by which variables are set: `is_success` = run as a post-operation hook."""
    log = os.path.join(root, "hooks.log")
    for m in multi:
        h = {"name": m["name"], "type": list(m["types"]), "cmd": sys.executable,
             "args": [flow.HOOKREC, log, m["name"], "0", "--", "mtypes=" + ",".join(m["types"])] +
                     ["%s={{ %s }}" % (v, v) for v in MULTI_VARS]}
        cfg["hook"].append(h)
        if m.get("first"):
            cfg["group"][0]["hooks"].insert(0, m["name"])
        else:
            cfg["group"][0]["hooks"].append(m["name"])


def judge_multi_hooks(ctx, obs, atts, v, robj):
    """"… runs the post-operation hooks exactly once per attempt": EVERY hook whose type list contains post-operation, not
    only the single-typed recorder.  The same judge, attempt by attempt, with the number of records of that hook (run as
    a post-operation hook) in the place of the recorder's.  A hook that stands AFTER the recorder's in the group may not
    have been reached yet when the run was stopped: the last attempt is then left out for it."""
    sc = obs["sc"]
    raw = flowgrid.attempts_of(obs)
    for m in sc["multi_hooks"]:
        recs = [h for h in obs["hooks"] if h.get("name") == m["name"]]
        as_post = [h for h in recs if flow.hook_args(h).get("is_success")]
        ctx.count("x:multi-typed:hooks")
        ctx.count("x:multi-typed:%s:records-as-post-operation" % m["name"], len(as_post))
        ctx.count("x:multi-typed:%s:records-for-file-events" % m["name"], sum(1 for h in recs if flow.hook_args(h).get("file_path")))
        ctx.count("x:multi-typed:%s:records-for-challenges" % m["name"], sum(1 for h in recs if flow.hook_args(h).get("challenge")))
        if "post-operation" not in m["types"]:
            continue
        mine = []
        for a, w in zip(atts, raw):
            if not (a["post_op_count"] > 0 or a["next_start_ms"] is not None):
                continue
            if not m.get("first") and a["next_start_ms"] is None:
                continue
            n = sum(1 for h in as_post if h["t"] >= w["start"] and (w["next_start"] is None or h["t"] < w["next_start"]))
            mine.append(dict(a, post_op_count=n))
        ctx.count("x:multi-typed:attempts-judged-per-hook", len(mine))
        if not mine:
            continue
        vm = vlib.model([{"op": "c07_judge", "attempts": mine, "bound_ms": BOUND_MS}])[0]
        bad = [i for i, ok in enumerate(vm["attempts_ok"]) if not ok and mine[i]["post_op_count"] != 1]
        if bad:
            ctx.violation("faults %s: hook %s (type %s) declares post-operation: %d record(s) of it as a post-operation hook in "
                          "attempt %d (exactly one expected)" % (sc["fault"], m["name"], m["types"], mine[bad[0]]["post_op_count"], bad[0] + 1),
                          dict(robj, multi_hook=m, attempts_for_that_hook=mine))


def gen_scripts(rng, n):
    cat = [(l, a) for l, a, _ in flowgrid.fault_catalogue() if not l.startswith("cert-") and l != "2xx-no-certificate-url"]
    out = []
    for i in range(n):
        rules, labels = [], []
        for _ in range(rng.randint(2, 4)):
            kind = rng.choice(KINDS)
            label, ans = rng.choice(cat)
            if not flowgrid.applicable((kind, 0), label):
                label, ans = "drop", {"drop": True}
            # occurrence numbers are counted per kind over the whole run: aim at the first, second or third
            # attempt (an attempt that ends early shifts the later ones: the fault then fires later, or never)
            per = {"authz": 4, "order": 2, "challenge": 2, "newAccount": 0}.get(kind, 1)
            nth = rng.choice([0, 0, 1, 1, 2]) * per + (rng.randrange(per) if per else 0)
            if rng.random() < 0.3:      # the same fault on several consecutive occurrences: failures in a row
                rules.append({"kind": kind, "from": nth, "times": rng.randint(2, 4), "answer": ans,
                              "label": "%s@%s#%d.." % (label, kind, nth)})
            else:
                rules.append({"kind": kind, "nth": nth, "answer": ans, "label": "%s@%s#%d" % (label, kind, nth)})
            labels.append(rules[-1]["label"])
        sc = {"idx": 1000 + i, "class": "script", "rules": rules, "fault": "+".join(labels), "pair": rng.random() < 0.3,
              "kp_reuse": rng.random() < 0.3}
        r = rng.random()
        if r < 0.15:
            sc["hook_exits"] = {rng.choice(["post-operation", "challenge-http-01-clean", "file-post-create"]): rng.choice([1, -9])}
            sc["fault"] += "+hook:%s" % sc["hook_exits"]
        out.append(sc)
    # every third script (of those whose recorder hooks all succeed: a failing hook ends the list of its event) with
    # multi-typed hooks next to the single-typed ones (no draw: the scripts stay what they were)
    k = 0
    for sc in out:
        if "hook_exits" not in sc and sc["idx"] % 3 == 1:
            sc["multi_hooks"] = MULTI_HOOKS[k % len(MULTI_HOOKS)]
            sc["fault"] += "+multi-typed-hooks:%s" % ",".join(m["name"] for m in sc["multi_hooks"])
            k += 1
    return out


def gen_cut(rng, quick):
    out = []
    pos = [("directory", 0), ("newAccount", 0), ("newOrder", 0), ("authz", 0), ("challenge", 0), ("authz", 1),
           ("order", 0), ("finalize", 0), ("order", 1), ("cert", 0)]
    plans = []
    for k, n in pos:
        plans.append((k, n, "cut-2xx", {"process": True, "cut_after": rng.choice([0, 1, 10, 40])}))
        plans.append((k, n, "cut-error", dict(problem("serverInternal", 500), cut_after=rng.choice([0, 5, 30]))))
    if quick:
        plans = rng.sample(plans, 6)
    for i, (k, n, label, ans) in enumerate(plans):
        out.append({"idx": 2000 + i, "class": "cut", "rules": [{"kind": k, "nth": n, "answer": ans, "label": label}],
                    "fault": "%s@%s#%d" % (label, k, n), "pair": False})
    return out


def gen_newnonce(rng, quick):
    answers = [("drop", {"drop": True}), ("500", {"status": 500, "body": ""}), ("200-no-nonce", {"status": 200, "body": "", "nonce": "none"}),
               ("200-invalid-nonce", {"status": 200, "body": "", "nonce": "invalid"}),
               ("503-problem", dict(problem("serverInternal", 503), nonce="none"))]
    if quick:
        answers = rng.sample(answers, 2)
    out = [{"idx": 3000 + i, "class": "newNonce", "rules": [{"kind": "newNonce", "nth": rng.choice([0, 0, 1]), "answer": a, "label": l}],
            "fault": "newNonce:" + l, "ca_opts": {"nonce_on_get": False}, "pair": False} for i, (l, a) in enumerate(answers)]
    # the fault PERSISTS (a one-shot fault is healed by any second fetch): the newNonce resource answers the same way for
    # the whole run, or for its first k requests.  Every request is answered, so each attempt has to end (failed, one
    # post-operation record, an error text) within the bound, and the next one starts after the pause.
    every = [("drop", {"drop": True}), ("500", {"status": 500, "body": ""}), ("200-no-nonce", {"status": 200, "body": "", "nonce": "none"}),
             ("200-invalid-nonce", {"status": 200, "body": "", "nonce": "invalid"}), ("503-problem", dict(problem("serverInternal", 503), nonce="none"))]
    lasting = [every[2], rng.choice(every[:2] + every[3:])] if quick else every
    for j, (l, a) in enumerate(lasting):
        out.append({"idx": 3100 + j, "class": "newNonce", "rules": [{"kind": "newNonce", "from": 0, "answer": a, "label": l + "-always"}],
                    "fault": "newNonce:%s for the whole run" % l, "ca_opts": {"nonce_on_get": False}, "pair": False})
    for j, (l, a) in enumerate(lasting if not quick else lasting[:1]):
        k = rng.choice([2, 3, 12])
        out.append({"idx": 3200 + j, "class": "newNonce", "rules": [{"kind": "newNonce", "from": 0, "times": k, "answer": a, "label": "%s-x%d" % (l, k)}],
                    "fault": "newNonce:%s for the first %d requests" % (l, k), "ca_opts": {"nonce_on_get": False}, "pair": False})
    return out


FEED_LINES = "first line of the hook's input\nsecond line\n"


def feed_text(io):
    """The content of the stdin FILE of a plan: a few lines, or more than a pipe holds (64 KiB)."""
    return FEED_LINES if io["value"] == "lines" else "".join("%06d input for the hook\n" % i for i in range(3200))


def feed_hooks(cfg, root, io):
    """Gives the recorder hook(s) of type io["type"] a standard input: `stdin_str` (a template) or `stdin` (a file).
    py/hookrec.py reads its standard input up to its END before it writes its record."""
    n = 0
    for h in cfg["hook"]:
        if h["type"] == [io["type"]] and h["name"].startswith(io.get("only", "")):
            if io["member"] == "stdin":
                path = os.path.join(root, "stdin-feed.txt")
                with open(path, "w") as f:
                    f.write(feed_text(io))
                h["stdin"] = path
            else:
                h["stdin_str"] = io["value"]
            n += 1
    assert n, "no hook of type %s" % io["type"]


def gen_hookio(rng, quick):
    fail_first = lambda: {"kind": rng.choice(["newOrder", "finalize", "newAccount"]), "nth": 0, "answer": problem("unauthorized", 403), "label": "unauthorized"}
    plans = [("post-operation", "stdin_str", "{{ status }}|{{ is_success }}\n", True, False),
             ("post-operation", "stdin", "lines", True, False),
             ("post-operation", "stdin_str", "", False, False),
             ("challenge-http-01", "stdin_str", "{{ proof }}", False, False),
             ("challenge-dns-01", "stdin", "big", False, False),
             ("challenge-http-01-clean", "stdin_str", "", True, False),
             ("file-pre-create", "stdin_str", "{{ file_name }} in {{ file_directory }}\n", False, False),
             ("file-post-create", "stdin", "lines", True, False),
             ("file-post-edit", "stdin_str", "{{ file_path }}", False, True)]
    if not quick:
        plans += [(t, m, v, not f, p) for t, m, v, f, p in plans if t != "file-post-edit"]
        plans += [("challenge-dns-01-clean", "stdin", "lines", False, False), ("file-pre-edit", "stdin", "big", False, True),
                  ("post-operation", "stdin", "big", True, True), ("challenge-dns-01", "stdin_str", "{{ proof }}\n{{ identifier }}\n", True, False)]
    out = []
    for i, (t, member, val, fail, pair) in enumerate(plans):
        rules = [fail_first()] if fail else []
        out.append({"idx": 5000 + i, "class": "hookio", "rules": rules, "pair": pair, "n_postop": 2 if fail else 1,
                    "hook_io": {"type": t, "member": member, "value": val},
                    "fault": "%s fed by %s=%r%s" % (t, member, val, (" after " + rules[0]["label"] + "@" + rules[0]["kind"]) if fail else "")})
    return out


def judge_hookio(ctx, obs):
    """What the attempt-level judge cannot see from the records alone: the run reached its reports (an attempt whose
    fed hook never ends leaves NO record), no hook ran for longer than the bound, and the plan was exercised."""
    sc = obs["sc"]
    io = sc["hook_io"]
    robj = {"part": "x:hookio", "sc": sc, "rc": obs["rc"],
            "hooks": [{"name": h.get("name"), "ms": (h.get("t_end", h["t"]) - h["t"]) // 10 ** 6, "stdin_len": len(h.get("stdin") or "")} for h in obs["hooks"] if h.get("kind") == "hook"][:40],
            "stderr_tail": obs["stderr"][-400:]}
    slow = [h for h in obs["hooks"] if h.get("kind") == "hook" and (h.get("t_end", h["t"]) - h["t"]) // 10 ** 6 > BOUND_MS]
    if obs["rc"] is None and (not obs["completed"] or slow):
        n = len(obs["posts"])
        ctx.violation("hook %s fed through %s (%r): attempt did not end: %d of %d post-operation record(s), then no request and no hook "
                      "record for %d s with the daemon alive%s" % (io["type"], io["member"], io["value"], n, sc["n_postop"], HOOKIO_IDLE,
                                                                  "; a hook ran for %d ms" % ((slow[0]["t_end"] - slow[0]["t"]) // 10 ** 6) if slow else ""), robj)
        return False
    fed = [h for h in obs["hooks"] if h.get("kind") == "hook" and h.get("name") == "rec-" + io["type"]]
    ctx.count("x:hookio:fed-hook-runs", len(fed))
    ctx.count("x:hookio:%s:%s" % (io["member"], "empty" if io["value"] == "" else io["value"] if io["member"] == "stdin" else "template"))
    if not fed:
        ctx.broke("harness", "hookio: the fed hook %s never ran" % io["type"], robj)
    elif io["member"] == "stdin" and any(h.get("stdin") != feed_text(io) for h in fed):
        ctx.count("x:hookio:stdin-file-content-differs")      # (what a hook is fed is C10's subject: counted only)
    elif io["member"] == "stdin_str" and io["value"] and any(not h.get("stdin") for h in fed):
        ctx.count("x:hookio:stdin-str-empty")
    return True


HOOKIO_IDLE = 32


def judge_single(ctx, obs, helper):
    from props import c07
    sc = obs["sc"]
    atts = c07.attempts_obs(obs, helper)
    ended = [a for a in atts if a["post_op_count"] > 0 or a["next_start_ms"] is not None]
    v = vlib.model([{"op": "c07_judge", "attempts": ended, "bound_ms": BOUND_MS}])[0]
    hit = sum(1 for e in obs["ca"] if e["kind"] == "req" and e.get("rule"))
    ctx.case({"x": sc["class"], "fault": sc["fault"], "pair": sc.get("pair"), "hooks": sc.get("hook_exits")}, nontrivial=hit > 0)
    ctx.count("x:%s:runs" % sc["class"])
    ctx.count("x:%s:faults-fired" % sc["class"], hit)
    ctx.count("x:%s:attempts" % sc["class"], len(ended))
    ctx.count("x:%s:failed-attempts" % sc["class"], sum(1 for a in ended if not a["reported_success"]))
    robj = {"part": "x:" + sc["class"], "sc": sc, "attempts": ended, "rc": obs["rc"]}
    if obs["rc"] is not None:
        ctx.violation("the daemon process ended (status %s) under the faults %s: %s" % (obs["rc"], sc["fault"], obs["stderr"][-300:]), robj)
        return
    if sc["class"] == "hookio" and not judge_hookio(ctx, obs):
        return
    if not ended:
        ctx.violation("no attempt ended within the time limit (faults %s)" % sc["fault"], robj)
        return
    if not v["holds"]:
        bad = [i for i, ok in enumerate(v["attempts_ok"]) if not ok][0]
        a = ended[bad]
        why = ("%d post-operation records" % a["post_op_count"]) if a["post_op_count"] != 1 else \
            "is_success=true although the served certificate and its key are not installed" if (a["reported_success"] and not a["installed"]) else \
            "is_success=true although a hook of the attempt did not end with status 0" if (a["reported_success"] and a.get("hook_failed")) else \
            ("next attempt %d ms after a failed one" % (a["next_start_ms"] - a["end_ms"])) if not v["pause_ok"][bad] else \
            "failure reported without an error text" if not a["status_text_present"] else "attempt end before start"
        ctx.violation("faults %s: attempt %d: %s" % (sc["fault"], bad + 1, why), robj)
    elif not v["bounded"]:
        ctx.violation("faults %s: an attempt took more than %d ms" % (sc["fault"], BOUND_MS), robj)
    if sc.get("multi_hooks"):
        judge_multi_hooks(ctx, obs, atts, v, robj)
    if sc["class"] == "cut":
        # the attempt during which the answer was cut cannot have been reported as a success unless the
        # cut answer was not needed (a cut body of an ignored answer); counted, the judge above decides
        ctx.count("x:cut:first-attempt-%s" % ("success" if ended[0]["reported_success"] else "failure"))
    ctx.traces += 1


# ---------------------------------------------------------------------------------------------------------
# several certificates in one daemon

def closed_port():
    s = socket.socket()
    s.bind(("127.0.0.1", 0))
    p = s.getsockname()[1]
    s.close()
    return p


def gen_daemon_scenarios(rng, quick):
    scs = []
    for how in ("corrupt-cert", "cert-is-dir", "key-is-dir"):
        scs.append({"class": "unusable", "how": how, "k": 2, "failing": [0]})
    scs.append({"class": "unreachable", "how": "refused", "k": 2, "failing": [0]})
    hows = ["hook", "finalize-badCSR", "authz-invalid", "account-refused"]
    for how in (hows if not quick else rng.sample(hows, 3)):
        k = rng.randint(2, 5)
        scs.append({"class": "multi", "how": how, "k": k, "failing": sorted(rng.sample(range(k), rng.randint(1, k - 1)))})
    scs.append({"class": "multi", "how": "none", "k": 1, "failing": []})
    # a certificate failing for ever (its challenge hook fails) whose failure report goes through a hook fed by stdin
    scs.append({"class": "multi", "how": "hook+report-fed-by-" + rng.choice(["stdin_str", "stdin"]), "k": 3, "failing": [rng.randrange(3)]})
    if not quick:
        scs.append({"class": "multi", "how": "none", "k": 6, "failing": []})
        scs.append({"class": "multi", "how": "hook", "k": 1, "failing": [0]})
        for how in hows:
            k = rng.randint(3, 6)
            scs.append({"class": "multi", "how": how, "k": k, "failing": sorted(rng.sample(range(k), rng.randint(1, k - 1)))})
    for i, s in enumerate(scs):
        s["idx"] = 4000 + i
    return scs


def run_daemon(sc, root, helper):
    d = os.path.join(root, "m%d" % sc["idx"])
    os.makedirs(os.path.join(d, "certs"), exist_ok=True)
    how = sc["how"]
    names = [("fail%d" if c in sc["failing"] else "good%d") % c for c in range(sc["k"])]
    certs = [{"name": n, "identifiers": [{"dns": n + ".example.org", "challenge": "http-01"}]} for n in names]
    rules, opts = [], {}
    if how == "finalize-badCSR":
        rules.append({"kind": "finalize", "order_has": "fail", "answer": problem("badCSR", 400), "times": 10 ** 6, "label": "fail"})
    elif how == "authz-invalid":
        opts["authz_status"] = {n + ".example.org": "invalid" for n in names if n.startswith("fail")}
    elif how == "account-refused":
        rules.append({"kind": "newAccount", "payload_contains": "bad@", "answer": problem("unauthorized", 403), "times": 10 ** 6, "label": "fail"})
    ca = mockca.MockCA(helper, rules=rules, opts=opts)
    ca.start()
    accounts = [{"name": "acc1", "contacts": [{"mailto": "a@example.org"}]}]
    endpoints = None
    if how == "account-refused":
        accounts.append({"name": "accbad", "contacts": [{"mailto": "bad@example.org"}]})
        for c in certs:
            if c["name"].startswith("fail"):
                c["account"] = "accbad"
    if how == "refused":
        endpoints = [{"name": "ep1", "url": ca.base + "/directory", "tos_agreed": True},
                     {"name": "epdown", "url": "http://127.0.0.1:%d/directory" % closed_port(), "tos_agreed": True}]
        for c in certs:
            if c["name"].startswith("fail"):
                c["endpoint"] = "epdown"
    cfg, log = flow.make_config(d, ca.base + "/directory", certs, accounts=accounts, endpoints=endpoints)
    if how == "hook":
        cfg["hook"].append(flow.recorder_hook("fail-chall", "challenge-http-01", log, 1))
        for c in cfg["certificate"]:
            if c["name"].startswith("fail"):
                c["hooks"] = ["fail-chall", "rec-all"]
    if how.startswith("hook+report-fed-by-"):
        # its own record file (and lock file): a reader that never sees the end of its input must not hold up the
        # recorder hooks of the other certificates
        cfg["hook"].append(flow.recorder_hook("fail-chall", "challenge-http-01", log, 1))
        cfg["hook"].append(flow.recorder_hook("fed-report", "post-operation", os.path.join(d, "fed.log")))
        feed_hooks(cfg, d, {"type": "post-operation", "only": "fed-", "member": how.split("-by-")[1],
                            "value": "{{ status }}\n" if how.endswith("stdin_str") else "lines"})
        for c in cfg["certificate"]:
            if c["name"].startswith("fail"):
                c["hooks"] = ["fail-chall", "fed-report", "rec-all"]
    for n in names:
        crt, key = flow.cert_paths(d, n)
        if n.startswith("fail") and how in ("corrupt-cert", "cert-is-dir", "key-is-dir"):
            r = helper.call({"op": "selfsigned", "dns": [n + ".example.org"], "ips": [], "not_after_offset": 86400, "type": "ecdsa-p256"})
            if how == "corrupt-cert":
                with open(crt, "w") as f:
                    f.write("-----BEGIN CERTIFICATE-----\nAAAA\n-----END CERTIFICATE-----\n")
                with open(key, "w") as f:
                    f.write(r["key_pem"])
            elif how == "cert-is-dir":
                os.makedirs(crt)
                with open(key, "w") as f:
                    f.write(r["key_pem"])
            else:
                os.makedirs(key)
                with open(crt, "w") as f:
                    f.write(r["cert_pem"])
    cfg_path = cfggen.write(os.path.join(d, "acmed.toml"), cfg)
    dmn = flow.Daemon(cfg_path)
    n_good = sc["k"] - len(sc["failing"])

    def posts():
        return [dict(flow.hook_args(p), t=p["t"]) for p in flow.post_ops(log)]

    def good_done():
        return len(set(p.get("certificate_path") for p in posts() if p.get("is_success") == "true")) >= n_good

    def life():
        try:
            return len(ca.log) + os.path.getsize(log)
        except OSError:
            return len(ca.log)
    done = flow.wait_progress(lambda: good_done() or not dmn.alive(), life, idle=45, cap=400)
    # let the failing ones go round (three failed reports each; a certificate that is never attempted stays at 0)
    want = 0 if how == "corrupt-cert" else 3 * len(sc["failing"])
    flow.wait_for(lambda: sum(1 for p in posts() if p.get("is_success") == "false") >= want or not dmn.alive(),
                  3 if want == 0 else 14)
    rc = dmn.stop()
    ca.stop()
    orders = [{"t": e["t"], "payload": e.get("payload") or ""} for e in ca.log if e["kind"] == "req" and e["rk"] == "newOrder"]
    return {"sc": sc, "rc": rc, "good_done": bool(done and good_done()), "posts": posts(), "orders": orders,
            "names": names, "stderr": dmn.stderr()[-500:]}


def judge_daemon(ctx, r):
    sc = r["sc"]
    how = sc["how"]
    ctx.case({"x": sc["class"], "how": how, "k": sc["k"], "failing": sc["failing"]})
    ctx.count("x:%s:%s" % (sc["class"], how))
    robj = {"part": "x:" + sc["class"], "sc": sc, "posts": r["posts"][:40], "rc": r["rc"], "stderr": r["stderr"]}
    issued = set(p.get("certificate_path") for p in r["posts"] if p.get("is_success") == "true")
    healthy = [any(("/%s_" % n) in (x or "") for x in issued) for n in r["names"] if n.startswith("good")]
    rv = vlib.model([{"op": "c07_run", "process_alive": r["rc"] is None, "healthy_issued": healthy}])[0]
    what = "%d certificate(s), %s failing by `%s`" % (sc["k"], sc["failing"], how)
    if r["rc"] is not None:
        ctx.violation("%s: the daemon process ended (status %s): %s" % (what, r["rc"], r["stderr"][-300:]), robj)
        return
    if not rv["holds"] or not r["good_done"]:
        ctx.violation("%s: a healthy certificate was not issued" % what, robj)
        return
    if any("/good" in (p.get("certificate_path") or "") for p in r["posts"] if p.get("is_success") == "false"):
        ctx.violation("%s: a healthy certificate failed" % what, robj)
        return
    # the failing ones: every report is a failure with an error text, one report per attempt, and the pause
    for n in r["names"]:
        if not n.startswith("fail"):
            continue
        mine = [p for p in r["posts"] if ("/%s_" % n) in (p.get("certificate_path") or "")]
        ctx.count("x:%s:failing-reports" % sc["class"], len(mine))
        if how == "corrupt-cert":
            # no duration is justified for a certificate that cannot be evaluated (C06): no attempt, no report
            if any(n in o["payload"] for o in r["orders"]):
                ctx.violation("%s: a request was made for %s although its stored certificate cannot be evaluated" % (what, n), robj)
            continue
        if not mine:
            ctx.violation("%s: %s was never attempted / reported in the time watched" % (what, n), robj)
            continue
        atts = []
        for i, p in enumerate(mine):
            nxt = mine[i + 1]["t"] if i + 1 < len(mine) else None
            # the start of the next attempt is not observable when nothing reaches the CA: it is taken to be
            # 500 ms before the next report at the latest (an attempt that fails at once + one hook run); a
            # later estimate than the truth can only make the judge more lenient
            atts.append({"start_ms": p["t"] // 10 ** 6, "end_ms": p["t"] // 10 ** 6, "post_op_count": 1,
                         "reported_success": p.get("is_success") == "true", "hook_failed": False,
                         "status_text_present": bool((p.get("status") or "").strip()), "installed": False,
                         "status": p.get("status"), "next_start_ms": None if nxt is None else max(nxt // 10 ** 6 - 500, p["t"] // 10 ** 6)})
        v = vlib.model([{"op": "c07_judge", "attempts": atts, "bound_ms": BOUND_MS}])[0]
        if not v["holds"]:
            bad = [i for i, ok in enumerate(v["attempts_ok"]) if not ok][0]
            a = atts[bad]
            ctx.violation("%s: %s, report %d: %s" % (what, n, bad + 1,
                          "reported as a success" if a["reported_success"] else
                          "the next report follows %d ms later (attempt included): no pause" % (mine[bad + 1]["t"] // 10 ** 6 - a["end_ms"])
                          if not v["pause_ok"][bad] else "no error text"), dict(robj, attempts=atts))
    ctx.traces += 1


# ---------------------------------------------------------------------------------------------------------

def start(ctx, helper, root):
    import random
    quick = ctx.quick()
    rng = random.Random(ctx.seed * 7 + 7)      # its own stream: the base parts keep their sequence
    singles = gen_scripts(rng, 10 if quick else 150) + gen_cut(rng, quick) + gen_newnonce(rng, quick)
    singles = gen_hookio(random.Random(ctx.seed * 7 + 8), quick) + singles
    daemons = gen_daemon_scenarios(rng, quick)
    ex = concurrent.futures.ThreadPoolExecutor(max_workers=10)
    xroot = os.path.join(root, "x")

    def single(sc):
        if sc["class"] == "hookio":
            return run_rules(sc, xroot, helper, n_postop=sc["n_postop"], timeout=HOOKIO_IDLE)
        n = 4 if sc["class"] == "script" else 2
        return run_rules(sc, xroot, helper, n_postop=n, timeout=5 if sc["class"] == "script" else 6)
    futs = [("single", ex.submit(single, sc)) for sc in singles]
    futs += [("daemon", ex.submit(run_daemon, sc, xroot, helper)) for sc in daemons]
    return {"ex": ex, "futs": futs, "t0": time.time()}


def finish(ctx, handle, helper):
    t_wait = time.time()
    for kind, f in handle["futs"]:
        r = f.result()
        if kind == "single":
            judge_single(ctx, r, helper)
        else:
            judge_daemon(ctx, r)
    handle["ex"].shutdown()
    ctx.count("x:seconds-from-start-to-last-verdict", int(time.time() - handle["t0"]))
    ctx.count("x:seconds-added-after-the-base-parts", int(time.time() - t_wait))


def replay(ctx, obj, helper, root):
    sc = dict(obj["sc"])
    n0 = len(ctx.violations)
    if obj["part"] == "x:hookio":
        judge_single(ctx, run_rules(sc, root, helper, n_postop=sc["n_postop"], timeout=HOOKIO_IDLE), helper)
    elif obj["part"] in ("x:script", "x:cut", "x:newNonce"):
        judge_single(ctx, run_rules(sc, root, helper, n_postop=4 if sc["class"] == "script" else 2, timeout=12), helper)
    else:
        judge_daemon(ctx, run_daemon(sc, root, helper))
    for d, _ in ctx.violations[n0:]:
        print(d)
    return 1 if len(ctx.violations) > n0 else 0
