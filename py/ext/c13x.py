"""C13 — further input dimensions of the write-history check (called from py/props/c13.py).

* `decorate`: file extensions (`pk_file_ext`, `cert_file_ext`, incl. equal and swapped ones), name formats and
  FAILING file hooks on the generated cases (mode and owner depend on the file type only; a failing post hook
  leaves a file that was created by the write: it is judged).
* `link_prev` / `link_pre` / `view` / `link_checks`: the path of the file is a symbolic link (dangling, or to an
  existing file) or a second hard link of an existing file.  The model has no links: it is given the path the
  link leads to (the file that holds the key) and the real `stat` of that file is judged.
* `nonroot_part`: the same histories run by a probe process that is NOT root: uid U, gid U, one supplementary
  group G; owners the kernel lets such a process give (its own uid; its own or the supplementary group).
* `noglobal_part`: configurations without any [global] table (the outer `None =>` arms of the getters of
  config.rs), read by the real `read_cnf` (op c14_cnf: nothing is created) and through the real getters
  (op c13_getters).
* `clash_names` / `clash_part`: one NAME that /etc/passwd knows as a user and /etc/group as a group, with DIFFERENT
  numbers (found in the databases at run time): NAME as user and as group of one file, of two files, as user in an
  earlier write and as group in a later one and the reverse, each history in a probe process of its own (root, and a
  process that is uid(NAME) with gid(NAME) as supplementary group), one configuration and one daemon run.
"""
import json
import os
import random
import subprocess

import cfggen
import storagelib as sl
import vlib

EXTS = [None, "pem", "key", "crt", "der"]
FORMATS = [sl.NAME_FORMAT, "{{ name }}.{{ file_type }}", "{{ name }}_{{ file_type }}.{{ ext }}"]
HOOK_SPECS = [{"post_exit": 1}, {"post_exit": 1, "post_allow": True}, {"pre_exit": 1, "pre_allow": True}, {"pre_exit": 1}]
NAMING = ("pk_file_ext", "cert_file_ext", "name_format")
ODD_OWNERS = [" 1234", "1234 ", "+1234", "１２３４"]     # not all ASCII digits: looked up as NAMES


def hook_label(spec):
    if not spec:
        return "none"
    if spec.get("record"):
        return "recorder"
    return "+".join(sorted(k for k, v in spec.items() if v))


def count_dims(ctx, tag, s):
    fm = s["fm"]
    ctx.count(tag + "hooks:" + hook_label(s.get("hook_spec")))
    pe, ce = fm.get("pk_file_ext"), fm.get("cert_file_ext")
    ctx.count(tag + "naming:pk_file_ext=%s" % pe)
    ctx.count(tag + "naming:cert_file_ext=%s" % ce)
    if pe is not None and pe == ce:
        ctx.count(tag + "naming:extensions-equal")
    if pe == "crt" and ce in ("key", "pem"):
        ctx.count(tag + "naming:extensions-swapped")
    ctx.count(tag + "naming:format=%s" % (FORMATS.index(fm["name_format"]) if fm.get("name_format") in FORMATS else fm.get("name_format")))
    uk, gk = sl.owner_keys(s["ftype"])
    if uk and (fm.get(uk) in ODD_OWNERS or fm.get(gk) in ODD_OWNERS):
        ctx.count(tag + "owner-spelling:digits-with-space/sign/full-width")


def naming(rng):
    """Extensions and name format of one FileManager.  Every format contains {{ file_type }} ("pk" / "crt"), so
    the key and the certificate of one case never share a path, whatever the extensions."""
    r = rng.random()
    if r < 0.2:
        pe = ce = rng.choice(EXTS[1:])                 # equal
    elif r < 0.4:
        pe, ce = "crt", rng.choice(["key", "pem"])     # swapped
    else:
        pe, ce = rng.choice(EXTS), rng.choice(EXTS)
    return {"pk_file_ext": pe, "cert_file_ext": ce, "name_format": rng.choice(FORMATS)}


def decorate(rng, c, hooks=True):
    if rng.random() < 0.6:
        c.update(naming(rng))
        if c.get("second"):
            c["second"].update(naming(rng) if rng.random() < 0.25 else {k: c[k] for k in NAMING})
    if hooks:
        if rng.random() < 0.2:
            c["hook_spec"] = dict(rng.choice(HOOK_SPECS))
        if c.get("second") and rng.random() < 0.2:
            c["second"]["hook_spec"] = dict(rng.choice(HOOK_SPECS))
    return c


def spell(ctx, rng, table):
    """A [global] table with half of its modes written as TOML octal literals (0o640) instead of decimal."""
    out = dict(table)
    for k, v in table.items():
        if k.endswith("_mode") and isinstance(v, int) and rng.random() < 0.5:
            out[k] = cfggen.Raw("0o%o" % v)
            ctx.count("config:mode-as-toml-octal-literal")
    return out


# ------------------------------------------------------------------------------------------------
# links

def link_prev(rng, rmode, uids, gids):
    """A `prev` whose path is a link.  Symbolic links: no second write in the case (the probe reports the
    link's target only on the step that prepared it)."""
    plain = {"mode": rmode(), "uid": rng.choice(uids), "gid": rng.choice(gids), "len": rng.choice([0, 5, 300])}
    r = rng.random()
    if r < 0.35:
        return {"link": "symlink", "target": None}
    if r < 0.7:
        return {"link": "symlink", "target": plain}
    return dict(plain, link="hard")


def _plain(p):
    return {"content_hex": (b"o" * p["len"]).hex(), "mode": p["mode"], "uid": p["uid"], "gid": p["gid"]}


def link_pre(name, p):
    if p["link"] == "symlink":
        return {"symlink_to": name + ".target", "target": _plain(p["target"]) if p["target"] else {"absent": True}}
    return dict(_plain(p), hardlink_of=name + ".sibling")


def link_kind(s):
    pre = s.get("pre") or {}
    return "symlink" if "symlink_to" in pre else "hard" if "hardlink_of" in pre else None


def view(s, o):
    """What the rest of the check looks at: for a symbolic link the file the link leads to."""
    if link_kind(s) != "symlink" or not isinstance(o, dict) or not o.get("link"):
        return o
    lk = o["link"]
    return dict(o, path=lk["path"], before=lk["before"], before_content_hex=lk["before_content_hex"],
                after=lk["after"], content_hex=lk["content_hex"], link_path=o["path"], link_lstat_after=o["after"])


def link_checks(ctx, tag, s, o, mini):
    """`o` is the view.  The model writes in place: the link stays a link, a hard link's sibling is the same
    file (so it shares mode and owner)."""
    k = link_kind(s)
    if not k:
        return
    lk = o.get("link")
    if not lk:
        ctx.broke("probe", "write_history does not report the file a link leads to (old probe?)", mini)
        return
    if k == "symlink":
        ctx.count(tag + "link:symlink-%s" % ("dangling" if lk["before"] is None else "to-existing-file"))
        la = o.get("link_lstat_after")
        if lk.get("readlink_after") != s["pre"]["symlink_to"] or not la or la.get("is_file"):
            ctx.broke("correspondence", "the symbolic link %s -> %s was replaced by the write (lstat after: %s, readlink %r)" % (
                o.get("link_path"), s["pre"]["symlink_to"], la, lk.get("readlink_after")), mini)
        elif lk["after"] is not None:
            ctx.count(tag + "link:symlink-kept,target-%s" % ("created" if lk["before"] is None else "rewritten"))
    else:
        ctx.count(tag + "link:hard")
        a, b = o.get("after"), lk.get("after")
        if sl.result_class(o) == "preHook":
            return
        if not lk.get("same_inode_after") or sl.stat3(a) != sl.stat3(b):
            ctx.broke("correspondence", "after the write the hard link %s and its sibling %s are no longer one file with "
                      "one mode and owner: %s / %s" % (o["path"], lk["path"], sl.stat3(a), sl.stat3(b)), mini)
        else:
            ctx.count(tag + "link:hard-sibling-shares-mode-and-owner")


# ------------------------------------------------------------------------------------------------
# a probe process that is not root

def probe_as(ops, uid, gid, groups, timeout=600):
    data = "".join(json.dumps(i) + "\n" for i in ops)
    env = vlib.env_offline({"ACMED_VERIF_RUN": "lines"})
    cwd = os.path.join(vlib.BUILD, "scratch", "cwd")
    os.makedirs(cwd, exist_ok=True)
    p = subprocess.run([vlib.ACMED_DEV], input=data, stdout=subprocess.PIPE, stderr=subprocess.PIPE, text=True,
                       env=env, timeout=timeout, cwd=cwd, user=uid, group=gid, extra_groups=list(groups))
    outs = []
    for ln in p.stdout.split("\n"):
        if ln.strip():
            try:
                outs.append(json.loads(ln))
            except Exception:
                outs.append({"garbled": ln[:200]})
    while len(outs) < len(ops):
        outs.append({"died": True, "rc": p.returncode, "stderr": p.stderr[-300:]})
    return outs


def run_histories_as(hists, scratch, uid, gid, groups):
    """Like storagelib.run_histories, in ONE process with the given ids; the scratch root of every history belongs
    to that uid."""
    ops = []
    for i, h in enumerate(hists):
        root = os.path.join(scratch, "h%d" % i)
        os.makedirs(root, exist_ok=True)
        os.chown(root, uid, gid)
        os.chmod(root, 0o755)
        ops.append(sl.probe_op(h, root))
    outs = probe_as(ops, uid, gid, groups) if ops else []
    return [(op["root"], op, o) for op, o in zip(ops, outs)]


def name_of(table, n, avoid=()):
    for k, v in table.items():
        if v == n and k not in avoid and not sl.is_digits(k):
            return k
    return None


def pick_ids(c13, w, scratch):
    """[(U, G)]: uid (= own gid) and supplementary gid, usable here; one pair with names where the databases
    have some, one by number only."""
    named_u = [v for k, v in w["users"].items() if v != 0 and k in ("nobody", "daemon", "bin", "mail", "www-data")]
    named_g = [v for k, v in w["groups"].items() if v != 0 and k in ("staff", "users", "daemon", "mail", "nogroup", "www-data")]
    cand = []
    for x in named_u + named_g + [1234, 4242, 100000]:
        if x not in cand:
            cand.append(x)
    ok = c13.usable_ids(scratch, cand)
    pairs = []
    us = [u for u in named_u if u in ok]
    gs = [g for g in named_g if g in ok]
    if us:
        g = [x for x in gs if x != us[0]]
        if g:
            pairs.append((us[0], g[0]))
    nums = [x for x in ok if name_of(w["users"], x) is None and name_of(w["groups"], x) is None]
    if len(nums) >= 2:
        pairs.append((nums[0], nums[1]))
    if not pairs and len(ok) >= 2:
        pairs.append((ok[0], ok[1]))
    return pairs


def nonroot_cases(rng, c13, w, U, G, start, n_random):
    uname, gname = name_of(w["users"], U), name_of(w["groups"], G)
    user_opts = [("number", str(U)), ("absent", None)] + ([("name", uname)] if uname else [])
    group_opts = [("number", str(G)), ("absent", None)] + ([("name", gname)] if gname else [])
    own_gname = name_of(w["groups"], U)

    def rmode():
        # set-group-id left out: Model/Fs and Spec.C13 approximate "the caller is in the file's group" by
        # gid = file.gid (supplementary groups are not modelled)
        r = rng.random()
        m = rng.choice([0o600, 0o644, 0o640, 0o400, 0o660, 0o664, 0o666, 0o755, 0o777, 0]) if r < 0.3 else \
            rng.randint(0, 0o777) if r < 0.6 else rng.randint(0, 0o7777)
        return m & ~0o2000

    def um():
        return rng.choice(c13.UMASKS + c13.UMASKS + [rng.randint(0, 0o777)])
    cases = []

    def add(ft, uo, go, prev, second=None, extra=None):
        c = {"id": start + len(cases), "ftype": ft, "cert_file_mode": rmode(), "pk_file_mode": rmode(),
             "cert_file_user": uo, "cert_file_group": go, "pk_file_user": uo, "pk_file_group": go,
             "empty": rng.random() < 0.1, "prev": prev, "second": second, "umask": um()}
        c.update(extra or {})
        cases.append(c)
        return c

    def own_prev():
        # owner-writable: a process that is not root cannot open its own file for writing otherwise (EACCES; the
        # model takes every open as succeeding)
        return {"mode": rmode() | 0o200, "uid": U, "gid": rng.choice([U, G]), "len": rng.choice([0, 5, 300])}
    for ft in c13.FTYPES:
        for uk, uo in user_opts:
            for gk, go in group_opts:
                add(ft, uo, go, None)
                add(ft, uo, go, own_prev())
    more_groups = [go for _, go in group_opts] + [str(U), own_gname, "nosuchname-verif", "4294967295"] + ODD_OWNERS[:2]
    more_users = [uo for _, uo in user_opts] + ["nosuchname-verif", "4294967295"] + ODD_OWNERS[2:]
    for _ in range(n_random):
        ft = rng.choice(c13.FTYPES)
        r = rng.random()
        prev = None if r < 0.5 else own_prev() if r < 0.8 else link_prev(rng, lambda: rmode() | 0o200, [U], [U, G])
        second = None
        if (prev is None or prev.get("link") != "symlink") and rng.random() < 0.3:
            second = {"cert_file_mode": rmode(), "pk_file_mode": rmode(), "cert_file_user": rng.choice(more_users),
                      "cert_file_group": rng.choice(more_groups), "pk_file_user": rng.choice(more_users),
                      "pk_file_group": rng.choice(more_groups), "empty": rng.random() < 0.15}
        c = add(ft, None, None, prev, second)
        for k in ("cert_file_user", "pk_file_user"):
            c[k] = rng.choice(more_users)
        for k in ("cert_file_group", "pk_file_group"):
            c[k] = rng.choice(more_groups)
        decorate(rng, c)
        if second:
            # the second write must be able to open what the first one created
            c["cert_file_mode"] |= 0o200
            c["pk_file_mode"] |= 0o200
            c["umask"] &= ~0o200
    return cases


def chown_allowed(step, w, U, G):
    """What Linux lets a process without CAP_CHOWN do on a file it owns: uid unchanged, gid its own or one of
    its supplementary groups."""
    uk, gk = sl.owner_keys(step["ftype"])
    if not uk:
        return True
    ru, rg = sl.resolve(step["fm"].get(uk), w["users"]), sl.resolve(step["fm"].get(gk), w["groups"])
    return (ru[0] != "id" or ru[1] in (U, 4294967295)) and (rg[0] != "id" or rg[1] in (U, G, 4294967295))


def hists_of(c13, cases, per_hist, run_as=None):
    by_um = {}
    for c in cases:
        by_um.setdefault(c["umask"], []).append(c)
    hists = []
    for um, cs in sorted(by_um.items()):
        for i in range(0, len(cs), per_hist):
            h = {"umask": um, "steps": [st for c in cs[i:i + per_hist] for st in c13.steps_of(c)]}
            if run_as:
                h["run_as"] = run_as
            hists.append(h)
    return hists


def nonroot_part(ctx, c13, w, defaults, scratch):
    if os.geteuid() != 0:
        ctx.count("nonroot:skipped-the-check-itself-is-not-root")
        ctx.notes.append("non-root histories skipped: the check itself does not run as root and cannot start a probe with other ids")
        return
    os.makedirs(scratch, exist_ok=True)
    pairs = pick_ids(c13, w, scratch)
    if not pairs:
        ctx.count("nonroot:skipped-no-usable-ids")
        ctx.notes.append("non-root histories skipped: no two ids usable in this sandbox")
        return
    for k, (U, G) in enumerate(pairs):
        try:
            ping = probe_as([{"op": "write_history", "root": ""}], U, U, [G], timeout=120)
        except (OSError, subprocess.SubprocessError, ValueError) as e:
            ping = [{"died": True, "stderr": repr(e)}]
        if not ping or not isinstance(ping[0], dict) or "bad_input" not in ping[0]:
            ctx.count("nonroot:skipped-cannot-start-a-process-as-%d" % U)
            ctx.notes.append("non-root histories as uid %d skipped: the probe cannot be started with these ids here (%s)" % (
                U, json.dumps(ping)[:200]))
            continue
        cases = nonroot_cases(ctx.rng, c13, w, U, G, 200000 + 10000 * k, 40 if ctx.quick() else 400)
        hists = hists_of(c13, cases, 40, run_as=[U, U, G])
        for h in hists:
            for st in h["steps"]:
                if not chown_allowed(st, w, U, G):
                    raise RuntimeError("generator: an owner the kernel refuses to a process %d:%d+%d: %r" % (U, U, G, st["fm"]))
        res = run_histories_as(hists, os.path.join(scratch, "nr%d" % k), U, U, [G])
        items = []
        for h, (root, op, out) in zip(hists, res):
            if isinstance(out, dict) and "steps" in out and (out.get("euid"), out.get("egid"), out.get("fsetid")) != (U, U, False):
                ctx.broke("harness", "the probe did not run as %d:%d without CAP_FSETID: %s" % (
                    U, U, {x: out.get(x) for x in ("euid", "egid", "fsetid")}), {"kind": "history", "hist": h})
                continue
            items.append((h, root, op, out))
        tag = "nonroot:"
        ctx.count(tag + "ids:%s" % ("with-names" if name_of(w["users"], U) or name_of(w["groups"], G) else "numbers-only"))
        meta, jobs, verdicts = c13.evaluate(ctx, items, w, defaults, tag)
        for (s, o, mini, ru, rg, um), j in zip(meta, jobs):
            if s["ftype"] != "account" and rg == ("id", G):
                ctx.count(tag + "supplementary-group-%s:file-gid=%s" % (
                    "by-number" if sl.is_digits(s["fm"].get(sl.owner_keys(s["ftype"])[1])) else "by-name",
                    "G" if j["observed"]["gid"] == str(G) else "other"))
            if s["ftype"] != "account" and ru == ("id", U):
                ctx.count(tag + "own-uid-%s" % ("by-number" if sl.is_digits(s["fm"].get(sl.owner_keys(s["ftype"])[0])) else "by-name"))


# ------------------------------------------------------------------------------------------------
# no [global] table at all

def noglobal_part(ctx, c13, w, defaults, scratch):
    variants = []
    for n, kind in enumerate(["main-only", "include-without-global", "accounts-only", "empty-file"]):
        root = os.path.join(scratch, "ng%d" % n)
        cfg = cfggen.base(root, "http://127.0.0.1:9/directory")
        cfg.pop("global")
        if kind == "include-without-global":
            cfg["include"] = ["inc.toml"]
            cfggen.write(os.path.join(root, "inc.toml"), {"hook": [{"name": "h9", "type": ["post-operation"], "cmd": "true"}]})
        if kind == "accounts-only":
            cfg = {"account": cfg["account"]}
        if kind == "empty-file":
            cfg = {}
        text = cfggen.emit(cfg)
        if "[global]" in text:
            raise RuntimeError("generator: a [global] table in a no-[global] configuration")
        path = cfggen.write(os.path.join(root, "main.toml"), text)
        variants.append((kind, path, text))
    outs = vlib.probe([x for _, p, t in variants for x in ({"op": "c14_cnf", "path": p}, {"op": "c13_getters", "toml": t})])
    effective = None
    for i, (kind, path, text) in enumerate(variants):
        rep = {"kind": "noglobal", "variant": kind, "toml": text}
        cnf, gt = (outs[2 * i] or {}).get("cnf"), (outs[2 * i + 1] or {}).get("getters")
        if not cnf or not gt:
            ctx.broke("probe", "c14_cnf / c13_getters did not read a configuration without [global]: %s" % json.dumps(outs[2 * i:2 * i + 2])[:300], rep)
            continue
        ctx.case({"noglobal": kind})
        ctx.count("config:no-global-table:" + kind)
        ctx.traces += 1
        if cnf.get("global") is not None or gt.get("has_global"):
            ctx.broke("harness", "the real reader finds a [global] table where the text has none", rep)
            continue
        for what, cm, pm in (("read_cnf", cnf["cert_file_mode"], cnf["pk_file_mode"]), ("getters", gt["cert_file_mode"], gt["pk_file_mode"])):
            if (cm, pm) != (0o644, 0o600):
                ctx.violation("configuration without a [global] table (%s, %s): the settings in force are cert_file_mode %04o, "
                              "pk_file_mode %04o (the property says 0644 / 0600)" % (kind, what, cm, pm), rep)
            elif (cm, pm) != (defaults["cert"], defaults["pk"]):
                ctx.broke("tie", "defaults in force differ from Gen/Consts", rep)
        owners = {k: gt[k] for k in ("cert_file_user", "cert_file_group", "pk_file_user", "pk_file_group")}
        if any(v is not None for v in owners.values()):
            ctx.violation("configuration without a [global] table (%s): an owner is in force although none is configured: %s" % (
                kind, owners), rep)
        effective = effective or gt
    if not effective:
        return
    # real writes with what the getters answered, judged against the property's own numbers
    cases = [{"id": 300000 + i, "ftype": ft, "umask": um, "empty": False, "prev": None, "second": None,
              "cert_file_mode": effective["cert_file_mode"], "pk_file_mode": effective["pk_file_mode"],
              "cert_file_user": effective["cert_file_user"], "cert_file_group": effective["cert_file_group"],
              "pk_file_user": effective["pk_file_user"], "pk_file_group": effective["pk_file_group"],
              "pk_file_ext": effective["pk_file_ext"], "cert_file_ext": effective["cert_file_ext"]}
             for i, (ft, um) in enumerate((ft, um) for ft in c13.FTYPES for um in (0o022, 0o077))]
    meta, jobs, _ = c13.run_cases(ctx, cases, w, defaults, os.path.join(scratch, "ngw"), tag="config:no-global:")
    rejobs = [dict(j, cert_mode=0o644, pk_mode=0o600, want_uid=None, want_gid=None) for j in jobs]
    for (s, o, mini, ru, rg, um), j2, v in zip(meta, rejobs, vlib.model(rejobs) if rejobs else []):
        if not v.get("holds"):
            e = v.get("expected", {})
            ctx.violation("configuration without a [global] table: the %s file is created with mode %04o owner %s:%s, the "
                          "property demands mode %04o owner %s:%s" % (s["ftype"], j2["observed"]["mode"], j2["observed"]["uid"],
                                                                     j2["observed"]["gid"], e.get("mode", 0), e.get("uid"), e.get("gid")),
                          {"kind": "noglobal", "variant": "writes"})


def replay_noglobal(ctx, c13, w, defaults, scratch):
    noglobal_part(ctx, c13, w, defaults, scratch)


# ------------------------------------------------------------------------------------------------
# one NAME, a user and a group, two numbers

def clash_names(w, usable, limit=3):
    """[(NAME, uid, gid)]: the names both databases know, as a user and as a group with another number (Debian: games
    5/60, man 6/12), whose two numbers can be given to a file here.  Read from the databases, nothing is assumed."""
    out = []
    for n in sorted(w["users"]):
        u, g = w["users"][n], w["groups"].get(n)
        if g is None or u == g or sl.is_digits(n) or 0 in (u, g) or n in ODD_OWNERS:
            continue
        if set(usable([u, g])) == {u, g}:
            out.append((n, u, g))
    return out[:limit]


def clash_histories(rng, c13, names, start, own=None):
    """One history per list of cases; the cases of a history share their id (a replay runs the whole history).
    `own`: the (uid, gid) a file made by the harness belongs to (a process that is not root rewrites only its own)."""
    hists = []

    def rmode():
        return rng.choice([0o640, 0o640, 0o660, 0o600, 0o644, 0o440 | 0o200, rng.randint(0, 0o777) | 0o200])

    def case(cid, ft, pku=None, pkg=None, cu=None, cg=None, prev=False, second=None):
        c = {"id": cid, "ftype": ft, "cert_file_mode": rmode(), "pk_file_mode": rmode(), "cert_file_user": cu,
             "cert_file_group": cg, "pk_file_user": pku, "pk_file_group": pkg, "empty": False, "prev": None, "second": None}
        if prev:
            c["prev"] = {"mode": rmode(), "uid": own[0] if own else rng.choice([0, 1, 4242]),
                         "gid": own[1] if own else rng.choice([0, 1, 4242]), "len": 30}
        if second:
            c["second"] = dict({"cert_file_mode": rmode(), "pk_file_mode": rmode(), "empty": False, "cert_file_user": None,
                                "cert_file_group": None, "pk_file_user": None, "pk_file_group": None}, **second)
        return c

    def hist(label, cases):
        um = rng.choice(c13.UMASKS[:3])
        h = {"umask": um, "label": label, "steps": [st for c in cases for st in c13.steps_of(dict(c, umask=um))]}
        hists.append(h)

    def owners(ft, u, g):
        return {"pku": u, "pkg": g} if ft == "key" else {"cu": u, "cg": g}

    def owners2(ft, u, g):
        return {("pk" if ft == "key" else "cert") + "_file_user": u, ("pk" if ft == "key" else "cert") + "_file_group": g}
    for k, (n, _, _) in enumerate(names):
        cid = start + 100 * k
        for ft in ("key", "cert"):
            hist("user=group=NAME:%s:created" % ft, [case(cid, ft, **owners(ft, n, n))])
            hist("user=group=NAME:%s:rewritten" % ft, [case(cid + 1, ft, prev=True, **owners(ft, n, n))])
            hist("user-first-group-later:%s" % ft, [case(cid + 2, ft, second=owners2(ft, None, n), **owners(ft, n, None))])
            hist("group-first-user-later:%s" % ft, [case(cid + 3, ft, second=owners2(ft, n, None), **owners(ft, None, n))])
        # two files of one certificate: NAME is the user of one and the group of the other
        hist("cert-user+key-group", [case(cid + 4, "cert", cu=n), case(cid + 4, "key", pkg=n)])
        hist("key-user+cert-group", [case(cid + 5, "key", pku=n), case(cid + 5, "cert", cg=n)])
        hist("cert-group+key-user", [case(cid + 6, "cert", cg=n), case(cid + 6, "key", pku=n)])
        # ... with an account file written in between (no owner is looked up for it)
        hist("key-user+account+cert-group", [case(cid + 7, "key", pku=n), case(cid + 7, "account", pku=n, pkg=n),
                                             case(cid + 7, "cert", cg=n)])
    if len(names) >= 2 and not own:
        (n, _, _), (m, _, _) = names[:2]
        hist("two-names-swapped:key", [case(start + 90, "key", pku=n, pkg=m, second=owners2("key", m, n))])
        hist("two-names-swapped:cert", [case(start + 91, "cert", cu=m, cg=n, second=owners2("cert", n, m))])
    return hists


def clash_part(ctx, c13, w, defaults, scratch, helper):
    names = w.get("clash") or []
    if not names:
        ctx.count("name-clash:no-such-name")
        ctx.notes.append("no name is a user and a group with different numbers in /etc/passwd and /etc/group here: the "
                         "histories with one NAME as user and as group were skipped")
        return
    if os.geteuid() != 0:
        ctx.count("name-clash:skipped-the-check-itself-is-not-root")
        return
    rng = random.Random("name-clash:%s" % ctx.seed)      # (its own stream: the cases drawn from ctx.rng stay what they were)
    names = names[:2] if ctx.quick() else names
    ctx.count("name-clash:names", len(names))
    os.makedirs(scratch, exist_ok=True)
    # ---- root: every history in a probe process of its own (whatever the process remembers starts empty)
    hists = clash_histories(rng, c13, names, 400000)
    for h in hists:
        ctx.count("name-clash:root:" + h["label"])
    res = sl.run_histories(hists, os.path.join(scratch, "root"), workers=8, chunk=1)
    c13.evaluate(ctx, [(h, root, op, out) for h, (root, op, out) in zip(hists, res)], w, defaults, "name-clash:")
    # ---- a process that is user NAME (uid U, gid U) with group NAME (gid G) as its supplementary group: it may give
    # its files to U:G, asked by name
    for k, (n, U, G) in enumerate(names[:1] if ctx.quick() else names):
        try:
            ping = probe_as([{"op": "write_history", "root": ""}], U, U, [G], timeout=120)
        except (OSError, subprocess.SubprocessError, ValueError) as e:
            ping = [{"died": True, "stderr": repr(e)}]
        if not ping or not isinstance(ping[0], dict) or "bad_input" not in ping[0]:
            ctx.count("name-clash:nonroot:skipped-cannot-start-a-process-as-%d" % U)
            continue
        hists = clash_histories(rng, c13, [(n, U, G)], 410000 + 1000 * k, own=(U, U))
        items = []
        for i, h in enumerate(hists):
            h["run_as"] = [U, U, G]
            for st in h["steps"]:
                if not chown_allowed(st, w, U, G):
                    raise RuntimeError("generator: an owner the kernel refuses to a process %d:%d+%d: %r" % (U, U, G, st["fm"]))
            root, op, out = run_histories_as([h], os.path.join(scratch, "nr%d-%d" % (k, i)), U, U, [G])[0]
            if isinstance(out, dict) and "steps" in out and (out.get("euid"), out.get("egid"), out.get("fsetid")) != (U, U, False):
                ctx.broke("harness", "the probe did not run as %d:%d without CAP_FSETID" % (U, U), {"kind": "history", "hist": h})
                continue
            ctx.count("name-clash:nonroot:" + h["label"])
            items.append((h, root, op, out))
        c13.evaluate(ctx, items, w, defaults, "name-clash:nonroot:")
    # ---- the start-up path: NAME configured for the four owner options, real writes with the FileManager it builds
    n = names[0][0]
    given = {"pk_file_mode": 0o640, "pk_file_user": n, "pk_file_group": n, "cert_file_user": n, "cert_file_group": n}
    c13.replay_config(ctx, w, defaults, os.path.join(scratch, "cfg"), given)
    ctx.count("name-clash:config")
    # ---- the daemon: the key belongs to user NAME and group NAME, the certificate to group NAME
    n = names[-1][0]
    c13.judge_daemon(ctx, w, defaults, os.path.join(scratch, "daemon"), helper,
                     {"pk_file_mode": 0o640, "pk_file_user": n, "pk_file_group": n, "cert_file_group": n}, 0o027)
    ctx.count("name-clash:daemon")
