"""C10, argument clause: the argument VECTOR a hook's child process receives.

`flow.hook_args(rec)` folds the recorded argv into a dict of `name=value` pairs: neither the NUMBER nor the
POSITIONS of the arguments are judged that way, and every hook the check used to run declared its arguments as
`name={{ var }}` (never empty).  This module adds

(a) `POSITIONAL`: declared elements that render to the EMPTY string for most events — a bare `{{ var }}` for every
    variable (empty for the variables of the other hook types: acmed.toml(5), WRITING A HOOK, "If a hook uses a template
    variable that does not exists for the current type it is invoked for, the variable is empty"), an unset
    `{{ env.KEY }}`, a literal "", arguments made only of an `{% if %}` that is false — followed by a sentinel;
    appended to the arguments of every recorder hook of props/c10.py (VAR_ARGS) and py/ext/c10x.py (BASE_ARGS);
(b) the judge input: the recorded argv AS A VECTOR (py/hookrec.py records `args` as a list) against the declared
    elements, tokenised here (`tokenize`: exactly the constructs the generators use, anything else is `other` = not
    predicted) and rendered by the Lean judge `Spec.C10Args.holds` (driver op `c10_argv`): one argument per declared
    element, in order, each the rendering of its element.  What the observer knows of the hook data goes in as
    bindings: `known` for the documented variables of the event's type whose value the scenario fixes, `absent` for the
    variables of the other data structures (they do not exist: empty), `unknown` for members of the event's own data
    structure that are not documented for its type or whose value the scenario does not fix (the argument must be
    there, its text is not judged).
"""
import re

import flow

BOOLS = ("is_success", "is_clean_hook")
LISTS = ("identifiers",)
MEMBERS = {"challenge": flow.CHALL_VARS, "post-operation": flow.POST_VARS, "file": flow.FILE_VARS}
SCALARS = [v for v in dict.fromkeys(flow.CHALL_VARS + flow.POST_VARS + flow.FILE_VARS) if v not in LISTS]
UNSET_KEY = "VT_UNSET"      # never set: not in any generated table, VT_* are removed from the check's own environment

POSITIONAL = (["{{ %s }}" % v for v in SCALARS]
              + ["{{ identifiers | join(' ') }}", "{{ env.%s }}" % UNSET_KEY, "",
                 "{% if is_success %}S{% endif %}", "{% if is_clean_hook %}C{% endif %}",
                 "{% if not file_path %}{% else %}F{% endif %}", "{% for i in identifiers %}<{{ i }}>{% endfor %}",
                 "end-of-arguments"])

TOK = re.compile(r"""
  \{\{\s*env\.(?P<env>\w+)\s*\}\}
 |\{\{\s*(?P<join>\w+)\s*\|\s*join\(\s*'(?P<sep>[^']*)'\s*\)\s*\}\}
 |\{\{\s*(?P<length>\w+)\s*\|\s*length\s*\}\}
 |\{\{\s*(?P<var>\w+)\s*\}\}
 |\{%\s*if\s+(?P<neg>not\s+)?(?P<cond>\w+)\s*%\}(?P<then>[^{}]*)(?:\{%\s*else\s*%\}(?P<else>[^{}]*))?\{%\s*endif\s*%\}
 |\{%\s*for\s+(?P<it>\w+)\s+in\s+(?P<each>\w+)\s*%\}(?P<pre>[^{}]*)\{\{\s*(?P=it)\s*\}\}(?P<post>[^{}]*)\{%\s*endfor\s*%\}
""", re.X)


def tokenize(tpl):
    """Token list of one declared element (driver op `c10_argv`); `[{"other": true}]` when it holds a construct that
    is not one of the generators'."""
    out, pos = [], 0
    while pos < len(tpl):
        nxt = min([i for i in (tpl.find("{{", pos), tpl.find("{%", pos), tpl.find("{#", pos)) if i >= 0] or [len(tpl)])
        if nxt > pos:
            out.append({"lit": tpl[pos:nxt]})
            pos = nxt
            continue
        m = TOK.match(tpl, pos)
        if not m:
            return [{"other": True}]
        g = m.groupdict()
        if g["env"] is not None:
            out.append({"env": g["env"]})
        elif g["join"] is not None:
            out.append({"join": g["join"], "sep": g["sep"]})
        elif g["length"] is not None:
            out.append({"length": g["length"]})
        elif g["var"] is not None:
            out.append({"var": g["var"]})
        elif g["cond"] is not None:
            out.append({"if": g["cond"], "neg": bool(g["neg"]), "then": g["then"], "else": g["else"] or ""})
        else:
            out.append({"each": g["each"], "pre": g["pre"], "post": g["post"]})
        pos = m.end()
    return out


def typed(name, value):
    if name in BOOLS:
        return {"b": value if isinstance(value, bool) else value == "true"}
    if name in LISTS:
        return {"l": list(value) if isinstance(value, (list, tuple)) else ([x for x in value.split(",")] if value else [])}
    return {"s": "true" if value is True else "false" if value is False else str(value)}


def kind_of_type(ty):
    return "file" if ty.startswith("file-") else "post-operation" if ty == "post-operation" else "challenge"


def bindings(ty, documented, known):
    """`documented`: the variables the manual promises for `ty` (Hooks.documentedVars through op hooks_vars);
    `known`: name -> value the scenario fixes (str / bool / list; `None`: not fixed)."""
    kind = kind_of_type(ty)
    out = []
    for v in SCALARS + list(LISTS):
        if v not in MEMBERS[kind]:
            out.append([v, "absent"])
        elif v in documented and known.get(v) is not None:
            out.append([v, typed(v, known[v])])
        else:
            out.append([v, "unknown"])
    return out


def declared_tail(args):
    """The declared elements that arrive in the recorder's `args`: what follows the `--` element (the recorder's own
    options come before it); for the hook that is a shell killing itself after the recorder ran
    (`sh -c SCRIPT $0 ARGS…` with `-- "$@"` in the script): what follows `$0`."""
    args = list(args or [])
    if "--" in args:
        return args[args.index("--") + 1:]
    if len(args) >= 3 and args[0] == "-c":
        return args[3:]
    return None


def op_for(rec, ty, declared_args, documented, known, exp_env):
    """Judge request for one recorder entry (None: the declaration has no part that reaches the recorder)."""
    tail = declared_tail(declared_args)
    if tail is None:
        return None
    declared = [tokenize(t) for t in tail]
    if exp_env is None:
        # the environment the property demands is not known to this caller: only the key nobody sets is predicted
        declared = [[({"other": True} if ("env" in k and k["env"] != UNSET_KEY) else k) for k in t] for t in declared]
    return {"op": "c10_argv", "declared": declared, "vars": bindings(ty, documented, known),
            "env": [[k, v] for k, v in sorted((exp_env or {}).items()) if v is not None],
            "observed": list(rec.get("args", []))}


def describe(op, v, tail):
    n_d, n_o = v.get("n_declared"), v.get("n_observed")
    i = v.get("first_bad")
    exp = v.get("expected") or []
    msg = "received %d arguments where its `args` declare %d elements" % (n_o, n_d) if n_d != n_o else \
        "received its %d arguments with another text" % n_o
    if i is not None:
        msg += "; first difference at position %d: declared %r should give %r, received %r" % (
            i, tail[i] if i < len(tail) else None, exp[i] if i < len(exp) else None,
            op["observed"][i] if i < len(op["observed"]) else None)
        empties = [tail[k] for k, e in enumerate(exp) if e == ""][:6]
        if n_o < n_d and empties:
            msg += " (elements that render to the empty string, which is an argument all the same: %s)" % empties
    return msg


def judge(ctx, model, rec, ty, declared_args, documented, known, exp_env, what, replay_obj, tag="argv", verdict=None):
    """True: the vector is what the property demands (or nothing of the declaration is observable).  `verdict`: the
    answer to `op_for(...)` when the caller has asked the driver already (batched)."""
    op = op_for(rec, ty, declared_args, documented, known, exp_env)
    if op is None:
        ctx.count(tag + ":not-observable")
        return True
    v = verdict if verdict is not None else model([op])[0]
    exp = v.get("expected") or []
    ctx.count(tag + ":vectors-judged")
    ctx.count(tag + ":kind:" + kind_of_type(ty))
    ctx.count(tag + ":elements-predicted-empty", sum(1 for e in exp if e == ""))
    ctx.count(tag + ":elements-predicted-nonempty", sum(1 for e in exp if e))
    ctx.count(tag + ":elements-not-predicted", sum(1 for e in exp if e is None))
    if not v.get("holds"):
        ctx.violation("%s: hook %s (%s) %s" % (what, rec.get("name"), ty, describe(op, v, declared_tail(declared_args))),
                      dict(replay_obj, argv={"judge_in": op, "verdict": v}))
        return False
    return True
