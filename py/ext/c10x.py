"""C10 extension: inputs the base generators of props/c10.py do not produce.

call      the real hooks::call / Certificate::call_challenge_hooks / call_post_operation_hooks (probe op
          `hooks_call`) with recorder hooks that also WRITE to their stdout and stderr:
            * the content of the `stdout` / `stderr` files (exact text; an existing longer file is replaced; no
              stderr file when only stdout is configured; both paths are templates with variables);
            * typed template variables: `{% if is_success %}`, `{% if is_clean_hook %}`, `{{ identifiers | length }}`,
              `{% for i in identifiers %}` (a boolean rendered from a string, or a list turned into text, renders
              the same under `{{ v }}` but not here);
            * environment tables with EMPTY values at every layer (an empty value set by a more specific layer
              overrides; judged by Spec.C10.envHolds = op c10_env);
            * challenge hooks for IP identifiers (identifier_tls_alpn = the reverse-DNS name, computed with
              Python's ipaddress), for a wildcard next to its base name (each with its own challenge and
              environment table), non-canonical spellings in the configuration.
config    hook definitions with cmd / args / stdin / stdin_str / stdout / stderr in the CONFIGURATION FILE, loaded
          by the real start-up path (probe op config_load): every member of every resolved hook is compared with
          the first definition of that name; a referenced hook with both stdin and stdin_str must be refused.
flows     (a) gen_flow specs (judged by props/c10.py's own run_flow_phase) started from a key-only / certificate-
          only / complete stored pair, with and without kp_reuse (the bracket of each file follows ITS OWN
          existence); (b) two certificates with different hook lists, accounts and environment tables in ONE
          daemon, hooks with stdin_str / stdin / stdout / stderr defined in the configuration file: no hook runs
          with the other certificate's data, outputs and inputs arrive as configured.
"""
import concurrent.futures
import ipaddress
import os
import random
import shutil
import sys
import time

import cfggen
import flow
import mockca
import vlib
from ext import c10argv

PY = sys.executable
KEYS = ["VT_A", "VT_B", "VT_C", "VT_D", "VT_E", "VT_F"]
VARS = ["identifier", "identifier_tls_alpn", "challenge", "file_name", "proof", "raw_proof", "is_clean_hook",
        "is_success", "status", "certificate_path", "private_key_path", "key_type", "file_directory", "file_path"]
BASE_ARGS = (["%s={{ %s }}" % (v, v) for v in VARS] + ["identifiers={{ identifiers | join(',') }}"]
             + ["env.%s={{ env.%s }}" % (k, k) for k in KEYS]
             # positional elements, most of them EMPTY for any given event (py/ext/c10argv.py): the argv is judged as a vector
             + c10argv.POSITIONAL)
TYPED = {"post-operation": ["ifs={% if is_success %}T{% else %}F{% endif %}", "n={{ identifiers | length }}",
                            "each={% for i in identifiers %}[{{ i }}]{% endfor %}",
                            "not={% if not is_success %}N{% endif %}"],
         "challenge": ["ifc={% if is_clean_hook %}T{% else %}F{% endif %}", "notc={% if not is_clean_hook %}N{% endif %}"],
         "file": []}


def pairs(d):
    return [[k, v] for k, v in sorted(d.items())]


def env_table(rng, tag, p=0.5):
    # a quarter of the values are EMPTY strings
    return {k: ("" if rng.random() < 0.25 else "%s:%s" % (tag, k)) for k in KEYS if rng.random() < p}


def hook(name, types, log, kind, out=None, err=None, io=None, code=0, allow_failure=False, cfg_style=False):
    args = ["-S", flow.HOOKREC, log, name, str(code)]
    if out is not None:
        args += ["--out", out]
    if err is not None:
        args += ["--err", err]
    args += ["--"] + BASE_ARGS + TYPED[kind]
    h = {"name": name, "cmd": PY, "args": args, "allow_failure": allow_failure}
    h["type" if cfg_style else "types"] = list(types)
    if io:
        h.update(io)
    return h


def kind_of_type(ty):
    return "file" if ty.startswith("file-") else "post-operation" if ty == "post-operation" else "challenge"


def read(path):
    try:
        with open(path, "rb") as f:
            return f.read().decode(errors="replace")
    except (FileNotFoundError, IsADirectoryError):
        return None


# =========================================================================================================
# call

IDENT_FORMS = [
    # (type, configured value, canonical value, challenge, value the CA names in the authorization, wildcard)
    ("dns", "plain.example.org", "plain.example.org", "http-01", "plain.example.org", False),
    ("dns", "Plain.Example.ORG", "plain.example.org", "tls-alpn-01", "plain.example.org", False),
    ("dns", "*.w.example.org", "*.w.example.org", "dns-01", "w.example.org", True),
    ("dns", "w.example.org", "w.example.org", "http-01", "w.example.org", False),
    ("ip", "192.0.2.9", "192.0.2.9", "http-01", "192.0.2.9", False),
    ("ip", "192.0.2.9", "192.0.2.9", "tls-alpn-01", "192.0.2.9", False),
    ("ip", "2001:db8::9", "2001:db8::9", "tls-alpn-01", "2001:db8::9", False),
    ("ip", "2001:0DB8:0:0:0:0:0:9", "2001:db8::9", "http-01", "2001:db8::9", False),
    ("ip", "::ffff:192.0.2.1", "::ffff:192.0.2.1", "tls-alpn-01", "::ffff:192.0.2.1", False),
    ("ip", "2001:db8:0:0:1:0:0:1", "2001:db8::1:0:0:1", "tls-alpn-01", "2001:db8::1:0:0:1", False),
]


def tls_alpn_name(typ, canon):
    return ipaddress.ip_address(canon).reverse_pointer if typ == "ip" else canon


def gen_call(rng, idx, root):
    log = os.path.join(root, "c%d.log" % idx)
    mode = rng.choice(["raw-post", "raw-post", "raw-chall", "raw-file", "challenge", "challenge", "challenge", "postop", "postop"])
    case = {"idx": idx, "mode": mode, "log": log, "owner_env": env_table(rng, "o%d" % idx), "ident_env": {},
            "proc": env_table(rng, "p%d" % idx, 0.6)}
    vals = ["example.org", "a b", "", "x'y\"z", "é京", "tok_-AZ09", "line1\nline2", "*.example.net", "k=v", "0", "false"]
    val = lambda: rng.choice(vals)
    if mode == "raw-post":
        ty, kind = "post-operation", "post-operation"
        ids = [val() or "id.example" for _ in range(rng.randint(0, 3))]
        case["data"] = {"kind": kind, "identifiers": ids, "key_type": val(), "status": val(), "is_success": rng.random() < 0.5,
                        "certificate_path": os.path.join(root, "crt é.pem"), "private_key_path": val()}
    elif mode == "raw-chall":
        ty = rng.choice(["challenge-http-01", "challenge-dns-01-clean", "challenge-tls-alpn-01", "challenge-http-01-clean"])
        kind = "challenge"
        case["ident_env"] = env_table(rng, "i%d" % idx, 0.4)
        case["data"] = {"kind": kind, "identifier": val(), "identifier_tls_alpn": val(), "challenge": val(), "file_name": val(),
                        "proof": val(), "raw_proof": val(), "is_clean_hook": rng.random() < 0.5}
    elif mode == "raw-file":
        ty, kind = rng.choice(["file-pre-create", "file-post-edit"]), "file"
        case["data"] = {"kind": kind, "file_name": val(), "file_directory": val(), "file_path": os.path.join(root, "f%d.txt" % idx)}
    elif mode == "challenge":
        kind = "challenge"
        me = rng.choice(IDENT_FORMS)
        ty = "challenge-" + me[3]
        case["ident_env"] = env_table(rng, "i%d" % idx, 0.5)
        ids = [{"type": me[0], "value": me[1], "challenge": me[3], "env": pairs(case["ident_env"])}]
        if me[5] or me[1] == "w.example.org" or rng.random() < 0.3:
            # the base name next to the wildcard (or a sibling), with ANOTHER challenge and environment table
            other = {"type": "dns", "value": me[4] if me[5] else "*.w.example.org" if me[1] == "w.example.org" else "sib.example.org",
                     "challenge": "http-01" if me[3] != "http-01" else "dns-01",
                     "env": pairs(env_table(rng, "z%d" % idx, 0.6))}
            ids.insert(rng.randint(0, 1), other)
        case.update({"ids": ids, "me": list(me), "file_name": val(), "proof": val(),
                     "raw_proof": val() if me[3] == "tls-alpn-01" else None})
    else:
        ty, kind = "post-operation", "post-operation"
        forms = rng.sample(IDENT_FORMS, rng.randint(1, 3))
        seen, ids = set(), []
        for f in forms:
            if f[2] not in seen:
                seen.add(f[2])
                ids.append({"type": f[0], "value": f[1], "challenge": f[3], "canon": f[2]})
        case.update({"ids": ids, "status": val(), "is_success": rng.random() < 0.5, "dir": os.path.join(root, "certs%d" % idx),
                     "name": "crt%d" % idx})
    case["type"], case["kind"] = ty, kind
    hooks = []
    for i in range(rng.randint(1, 3)):
        name = "x%d" % i
        io = {}
        r = rng.random()
        out_t = err_t = None
        if r < 0.45:
            io["stdout"] = os.path.join(root, "out-%d-%d-{{ challenge }}{{ key_type }}{{ file_name }}.txt" % (idx, i))
            out_t = "OUT<%s>" % name
            if rng.random() < 0.6:
                io["stderr"] = os.path.join(root, "err-%d-%d-{{ is_clean_hook }}{{ is_success }}.txt" % (idx, i))
                err_t = "ERR<%s>" % name
            else:
                err_t = "ERR-to-nowhere"
        elif r < 0.6:
            io["stderr"] = os.path.join(root, "erronly-%d-%d-{{ status }}{{ proof }}.txt" % (idx, i))
            err_t, out_t = "ERR<%s>" % name, "OUT-to-nowhere"
        if rng.random() < 0.3:
            io["stdin_str"] = "S<{{ identifier }}|{{ status }}|{% if is_success %}yes{% endif %}{% if is_clean_hook %}clean{% endif %}>"
        types = {ty} | set(rng.sample(["post-operation", "challenge-http-01", "file-pre-edit"], rng.randint(0, 1)))
        hooks.append({"h": hook(name, sorted(types), log, kind, out=out_t, err=err_t, io=io), "out": out_t, "err": err_t, "io": io})
    case["hooks"] = hooks
    return case


def slug(s):
    return s


def expected_vars(case):
    b = lambda x: "true" if x else "false"
    mode = case["mode"]
    if mode.startswith("raw"):
        out = {}
        for k, v in case["data"].items():
            if k != "kind":
                out[k] = v
        return out
    if mode == "challenge":
        me = case["me"]
        ev = {"identifier": me[2], "challenge": me[3], "file_name": case["file_name"], "proof": case["proof"],
              "raw_proof": case["raw_proof"] or "", "is_clean_hook": False}
        if not me[5]:
            ev["identifier_tls_alpn"] = tls_alpn_name(me[0], me[2])
        return ev
    base = os.path.join(case["dir"], "%s_ecdsa-p256" % case["name"])
    return {"identifiers": [i["canon"] for i in case["ids"]], "key_type": "ecdsa-p256", "status": case["status"],
            "is_success": case["is_success"], "certificate_path": base + ".crt.pem", "private_key_path": base + ".pk.pem"}


def render_expected(ev):
    """argv values of BASE_ARGS + TYPED for the expected data."""
    b = lambda x: "true" if x else "false"
    out = {}
    for k, v in ev.items():
        if isinstance(v, bool):
            out[k] = b(v)
        elif isinstance(v, list):
            out[k] = ",".join(v)
        else:
            out[k] = v
    if "is_success" in ev:
        out["ifs"] = "T" if ev["is_success"] else "F"
        out["not"] = "" if ev["is_success"] else "N"
    if "identifiers" in ev:
        out["n"] = str(len(ev["identifiers"]))
        out["each"] = "".join("[%s]" % i for i in ev["identifiers"])
    if "is_clean_hook" in ev:
        out["ifc"] = "T" if ev["is_clean_hook"] else "F"
        out["notc"] = "" if ev["is_clean_hook"] else "N"
    return out


def call_op(case):
    hooks = [x["h"] for x in case["hooks"]]
    if case["mode"].startswith("raw"):
        layers = [pairs(case["owner_env"])]
        if case["kind"] == "challenge":
            layers.append(pairs(case["ident_env"]))
        return {"op": "hooks_call", "mode": "raw", "hooks": hooks, "type": case["type"], "data": case["data"], "layers": layers}
    if case["mode"] == "challenge":
        me = case["me"]
        return {"op": "hooks_call", "mode": "challenge", "hooks": hooks, "ids": case["ids"], "cert_env": pairs(case["owner_env"]),
                "identifier": me[4], "file_name": case["file_name"], "proof": case["proof"], "raw_proof": case["raw_proof"],
                "wildcard": me[5]}
    return {"op": "hooks_call", "mode": "postop", "hooks": hooks, "ids": [{k: v for k, v in i.items() if k != "canon"} for i in case["ids"]],
            "cert_env": pairs(case["owner_env"]), "status": case["status"], "is_success": case["is_success"], "dir": case["dir"],
            "name": case["name"]}


def render_path(tpl, rv):
    out = tpl
    for k in ("challenge", "key_type", "file_name", "is_clean_hook", "is_success", "status", "proof"):
        out = out.replace("{{ %s }}" % k, rv.get(k, ""))
    return out


def env_kind(case):
    return "challenge" if case["kind"] == "challenge" else "post-operation" if case["kind"] == "post-operation" else "cert-file"


def env_ops(case, records):
    """Model requests of one case: the expected child environment, then one verdict per record."""
    base = {"kind": env_kind(case), "proc": pairs(case["proc"]), "global": [], "owner": pairs(case["owner_env"]),
            "ident": pairs(case["ident_env"]), "keys": KEYS}
    return [dict(base, op="hooks_env")] + [dict(base, op="c10_env", observed=pairs(r["env"])) for r in records]


def argv_ops(case, records, mres, doc):
    """Judge requests for the argument vectors of one case (Spec.C10Args.holds, py/ext/c10argv.py)."""
    ev = expected_vars(case)
    exp_env = {k: v for k, v in mres[0]["expected"]}
    return [c10argv.op_for(r, case["type"], x["h"]["args"], doc[case["type"]], ev, exp_env) for x, r in zip(case["hooks"], records)]


def judge_call(ctx, case, res, pre_existing, records, mres, doc=None, averdicts=None):
    ty = case["type"]
    robj = {"part": "x:call", "case": case, "impl": res}
    ctx.case({k: case[k] for k in ("mode", "type", "owner_env", "ident_env", "proc")} | {"hooks": [x["io"] for x in case["hooks"]]})
    ctx.count("x:call:mode:" + case["mode"])
    if isinstance(res, dict) and res.get("hung"):
        ctx.violation("hooks_call (%s, %s): hook call did not return (no result for %s s; hooks that left a record: %s of %s)" % (
            case["mode"], ty, res.get("waited_s"), [r["name"] for r in records], [x["h"]["name"] for x in case["hooks"]]), robj)
        return
    if not isinstance(res, dict) or "ok" not in res:
        ctx.violation("hooks_call (%s, %s): no result: %s" % (case["mode"], ty, str(res)[:200]), robj)
        return
    if not res["ok"]:
        ctx.violation("hooks_call (%s, %s) failed although every hook exits 0: %s" % (case["mode"], ty, res.get("err")), robj)
        return
    want = [x["h"]["name"] for x in case["hooks"]]
    if [r["name"] for r in records] != want:
        ctx.violation("hooks_call (%s, %s): ran %s, attached (all of the type) %s" % (case["mode"], ty, [r["name"] for r in records], want), robj)
        return
    ev = expected_vars(case)
    rv = render_expected(ev)
    exp_env = {k: v for k, v in mres[0]["expected"]}
    for n, (x, r) in enumerate(zip(case["hooks"], records)):
        a = flow.hook_args(r)
        for k, v in rv.items():
            if a.get(k) != v:
                ctx.violation("hooks_call (%s, %s): hook %s: template `%s` rendered %r, expected %r" % (
                    case["mode"], ty, r["name"], k, a.get(k), v), robj)
                return
        for k in KEYS:
            if a.get("env." + k, "") != (exp_env.get(k) or ""):
                ctx.violation("hooks_call (%s, %s): hook %s: env.%s rendered %r, expected %r" % (case["mode"], ty, r["name"], k, a.get("env." + k), exp_env.get(k)), robj)
                return
        v = mres[1 + n]
        ctx.count("x:call:env-checked")
        if any(val == "" for val in list(case["owner_env"].values()) + list(case["ident_env"].values()) + list(case["proc"].values())):
            ctx.count("x:call:env-with-empty-value")
        if not v["holds"]:
            ctx.violation("hooks_call (%s, %s): hook %s ran with %s; identifier over owner over the daemon's own (%s / %s / %s) gives %s" % (
                case["mode"], ty, r["name"], r["env"], case["ident_env"], case["owner_env"], case["proc"], exp_env), robj)
            return
        io = x["io"]
        if "stdin_str" in io:
            wanted = "S<%s|%s|%s%s>" % (rv.get("identifier", ""), rv.get("status", ""), "yes" if ev.get("is_success") else "",
                                        "clean" if ev.get("is_clean_hook") else "")
            if r["stdin"] != wanted:
                ctx.violation("hook %s: stdin_str rendered %r, expected %r" % (r["name"], r["stdin"], wanted), robj)
                return
        for member, text in (("stdout", x["out"]), ("stderr", x["err"])):
            if member in io:
                p = render_path(io[member], rv)
                got = read(p)
                ctx.count("x:call:%s-file-checked" % member)
                if got != text:
                    ctx.violation("hook %s: its %s file %s holds %r; the hook wrote %r%s" % (
                        r["name"], member, p, got, text, " (the file existed before with a longer content)" if p in pre_existing else ""), robj)
                    return
        if "stdout" in io and "stderr" not in io:
            stray = [f for f in os.listdir(os.path.dirname(case["log"])) if f.startswith("err-%d-%s-" % (case["idx"], r["name"][1:]))]
            if stray:
                ctx.violation("hook %s has no stderr configured, yet %s was written" % (r["name"], stray), robj)
                return
        if doc is not None and not c10argv.judge(ctx, vlib.model, r, ty, x["h"]["args"], doc[ty], ev, exp_env,
                                                 "hooks_call (%s, %s)" % (case["mode"], ty), robj, tag="x:call:argv",
                                                 verdict=averdicts[n] if averdicts else None):
            return
    if case["mode"] == "challenge":
        ctx.count("x:call:identifier:%s%s" % (case["me"][0], "-wildcard" if case["me"][5] else ""))
        if res.get("clean_type") != ty + "-clean":
            ctx.violation("call_challenge_hooks(%s) announces the clean type %s" % (ty, res.get("clean_type")), robj)
    ctx.traces += 1


def call_run(ctx, root, rng):
    n = 120 if ctx.quick() else 4000
    os.makedirs(root, exist_ok=True)
    cases = [gen_call(rng, i, root) for i in range(n)]
    # Output files that exist already are NOT generated: whether the hook's output replaces or follows an
    # older content is not said by C10 (an implementation that appends would hold the property), so an
    # exact-content demand on such a file would ask for more than the statement.
    pre = set()
    for c in []:
        rv = render_expected(expected_vars(c))
        for x in c["hooks"]:
            for member in ("stdout", "stderr"):
                if member in x["io"] and rng.random() < 0.3:
                    p = render_path(x["io"][member], rv)
                    try:
                        with open(p, "w") as f:
                            f.write("OLD CONTENT, much longer than what the hook is going to write\n" * 3)
                        pre.add(p)
                    except OSError:
                        pass
    # same daemon environment for a batch: group by `proc`
    nb = 8
    batches = [cases[i::nb] for i in range(nb)]
    for b in batches:
        for c in b:
            c["proc"] = b[0]["proc"]

    def work(b):
        from ext import probewatch      # per-case time-out: a call that never returns is reported on its case
        return probewatch.probe([call_op(c) for c in b], extra_env=b[0]["proc"]) if b else []
    with concurrent.futures.ThreadPoolExecutor(max_workers=nb) as ex:
        results = list(ex.map(work, batches))
    return [(c, r) for b, rs in zip(batches, results) for c, r in zip(b, rs)], pre


def call_judge(ctx, ran, pre):
    recs, ops, spans = [], [], []
    for c, r in ran:
        records = [x for x in flow.read_log(c["log"]) if x.get("kind") == "hook"]
        recs.append(records)
        o = env_ops(c, records)
        spans.append((len(ops), len(ops) + len(o)))
        ops += o
    mres = vlib.model(ops) if ops else []
    # the argument vectors (one judge request per recorder entry, all cases in one batch)
    types = sorted(set(c["type"] for c, _ in ran))
    doc = {t: d["vars"] for t, d in zip(types, vlib.model([{"op": "hooks_vars", "type": t} for t in types]))} if types else {}
    aops, aspans = [], []
    for (c, r), records, (a, b) in zip(ran, recs, spans):
        o = argv_ops(c, records, mres[a:b], doc) if [x["name"] for x in records] == [x["h"]["name"] for x in c["hooks"]] else []
        aspans.append((len(aops), len(aops) + len(o)))
        aops += o
    ares = vlib.model(aops) if aops else []
    for (c, r), records, (a, b), (a2, b2) in zip(ran, recs, spans, aspans):
        judge_call(ctx, c, r, pre, records, mres[a:b], doc, ares[a2:b2])


# =========================================================================================================
# config

def gen_config(rng, idx, root):
    d = os.path.join(root, "cfg%d" % idx)
    hooks = []
    types = ["file-pre-create", "file-post-edit", "challenge-http-01", "challenge-dns-01-clean", "post-operation"]
    for i in range(rng.randint(2, 6)):
        h = {"name": "h%d" % i, "type": sorted(set(rng.sample(types, rng.randint(1, 3)))), "cmd": rng.choice(["true", "/bin/echo", "cmd-%d" % i])}
        if rng.random() < 0.7:
            h["args"] = [rng.choice(["a", "{{ identifier }}", "--x={{ status }}", "", "two words"]) for _ in range(rng.randint(0, 3))]
        r = rng.random()
        if r < 0.3:
            h["stdin"] = "/in/file-%d-{{ challenge }}" % i
        elif r < 0.6:
            h["stdin_str"] = "text %d {{ proof }}" % i
        if rng.random() < 0.5:
            h["stdout"] = "/out/o-%d-{{ file_name }}" % i
        if rng.random() < 0.5:
            h["stderr"] = "/out/e-%d-{{ key_type }}" % i
        hooks.append(h)
    both = rng.random() < 0.2
    if both:
        j = rng.randrange(len(hooks))
        hooks[j]["stdin"] = "/in/both"
        hooks[j]["stdin_str"] = "both"
    if rng.random() < 0.25:      # a second definition of a name: the first one counts
        dup = dict(hooks[0], cmd="shadow", stdout="/out/shadow", args=["shadow"])
        dup.pop("stdin", None)
        dup.pop("stdin_str", None)
        hooks.append(dup)
    names = [h["name"] for h in hooks]
    groups = [{"name": "g1", "hooks": rng.sample(names, rng.randint(1, len(set(names))) if len(set(names)) > 1 else 1)}]
    cert_hooks = [rng.choice(sorted(set(names)) + ["g1"]) for _ in range(rng.randint(1, 4))]
    acc_hooks = [rng.choice(sorted(set(names)) + ["g1"]) for _ in range(rng.randint(0, 2))]
    cfg = {"global": {"accounts_directory": d + "/accounts", "certificates_directory": d + "/certs"},
           "endpoint": [{"name": "e1", "url": "https://127.0.0.1:9/directory", "tos_agreed": True}],
           "hook": hooks, "group": groups,
           "account": [{"name": "acc", "contacts": [{"mailto": "a@example.org"}], "hooks": acc_hooks}],
           "certificate": [{"name": "crt", "endpoint": "e1", "account": "acc", "identifiers": [{"dns": "c.example.org", "challenge": "http-01"}],
                            "hooks": cert_hooks, "key_type": "ecdsa_p256"}]}
    return {"idx": idx, "dir": d, "cfg": cfg, "both": both}


def expand(cfg, names):
    first = {}
    for h in cfg["hook"]:
        first.setdefault(h["name"], h)
    out = []
    for n in names:
        if n in first:
            out.append(first[n])
        else:
            g = [g for g in cfg["group"] if g["name"] == n][0]
            out += expand(cfg, g["hooks"])
    return out


def stdin_debug(h):
    if "stdin" in h:
        return 'File("%s")' % h["stdin"]
    if "stdin_str" in h:
        return 'Str("%s")' % h["stdin_str"]
    return "None"


def config_run(ctx, root, rng):
    n = 80 if ctx.quick() else 1500
    cases = [gen_config(rng, i, root) for i in range(n)]
    ops = []
    for c in cases:
        ops.append({"op": "config_load", "path": cfggen.write(os.path.join(c["dir"], "acmed.toml"), c["cfg"]), "dump": True})
    return cases, vlib.probe(ops)


def config_judge(ctx, cases, impl):
    file_types = {"FilePreCreate", "FilePostCreate", "FilePreEdit", "FilePostEdit"}
    for c, r in zip(cases, impl):
        cfg = c["cfg"]
        robj = {"part": "x:config", "case": c, "impl": r}
        ctx.case({"xconfig": cfggen.emit(cfg)})
        used = expand(cfg, cfg["certificate"][0]["hooks"]) + expand(cfg, cfg["account"][0]["hooks"])
        refused_expected = any("stdin" in h and "stdin_str" in h for h in used)
        ctx.count("x:config:%s" % ("both-stdin-referenced" if refused_expected else "both-stdin-unreferenced" if c["both"] else "plain"))
        if not isinstance(r, dict) or ("loaded" not in r and "rejected" not in r):
            ctx.violation("configuration with hook inputs/outputs: the loader crashed: %s" % str(r)[:200], robj)
            continue
        if refused_expected:
            if "rejected" not in r:
                ctx.violation("a hook with both stdin and stdin_str is attached, yet the configuration is accepted", robj)
            continue
        if "rejected" in r and c["both"]:
            continue        # an ill-formed hook nobody attaches: refusing it is not against the property either
        if "rejected" in r:
            ctx.violation("a configuration whose attached hooks are all well-formed is refused: %s" % r["rejected"], robj)
            continue
        dump = r["loaded"]
        dc = dump["certificates"][0]
        da = dump["accounts"][0]
        exp_cert = expand(cfg, cfg["certificate"][0]["hooks"])
        exp_acc = expand(cfg, cfg["account"][0]["hooks"])
        is_file = lambda h: any(t.startswith("file-") for t in h["type"])
        is_cert = lambda h: any(not t.startswith("file-") for t in h["type"])
        for label, got, exp in (("certificate hooks", dc["hooks"], [h for h in exp_cert if is_cert(h)]),
                                ("certificate file hooks", dc["file_hooks"], [h for h in exp_cert if is_file(h)]),
                                ("account file hooks", da["file_hooks"], [h for h in exp_acc if is_file(h)])):
            if [g["name"] for g in got] != [h["name"] for h in exp]:
                ctx.violation("%s resolve to %s, declaration order gives %s" % (label, [g["name"] for g in got], [h["name"] for h in exp]), robj)
                break
            bad = None
            for g, h in zip(got, exp):
                want = {"cmd": h["cmd"], "args": h.get("args"), "stdin": stdin_debug(h), "stdout": h.get("stdout"), "stderr": h.get("stderr")}
                have = {k: g.get(k) for k in want}
                if have != want:
                    bad = (h["name"], have, want)
                    break
                ctx.count("x:config:hook-members-checked")
            if bad:
                ctx.violation("%s: hook %s is loaded as %s; the configuration file says %s" % (label, bad[0], bad[1], bad[2]), robj)
                break
        ctx.traces += 1


# =========================================================================================================
# flows (a): start states for props/c10.py's own flows

def flow_specs(ctx, gen_flow):
    rng = random.Random(ctx.seed * 17 + 10)
    states = [("key-only", False), ("cert-only", False), ("both-due", True), ("key-only", True), ("both-due", False), ("cert-only", True)]
    if ctx.quick():
        states = rng.sample(states, 4)
    else:
        states = states * 4
    specs = []
    for i, (st, reuse) in enumerate(states):
        s = gen_flow(rng, 5000 + i, rng.choice(["ok", "allow", "renew"]))
        s["pre_files"] = st
        if st == "both-due":
            s["account_hooks"] = list(s["cert_hooks"])     # the account file is then the one created: with create hooks
        s["cert_extra"] = {"kp_reuse": reuse}
        specs.append(s)
    return specs


def write_pre_files(spec, crt_path, key_path):
    """Phase 1 starts from a partial / complete stored pair (valid for one day: due at once)."""
    st = spec.get("pre_files")
    if not st:
        return
    helper = mockca.Helper()
    try:
        r = helper.call({"op": "selfsigned", "dns": [i["dns"] for i in spec["identifiers"]], "ips": [], "not_after_offset": 86400,
                         "type": "ecdsa-p256"})
    finally:
        helper.close()
    os.makedirs(os.path.dirname(crt_path), exist_ok=True)
    if st in ("cert-only", "both-due"):
        with open(crt_path, "w") as f:
            f.write(r["cert_pem"])
    if st in ("key-only", "both-due"):
        with open(key_path, "w") as f:
            f.write(r["key_pem"])


# =========================================================================================================
# flows (b): two certificates in one daemon, hook inputs / outputs from the configuration file

def two_cert_flow(ctx, root, rng, idx):
    d = os.path.join(root, "two%d" % idx)
    os.makedirs(d, exist_ok=True)
    log = os.path.join(d, "hooks.log")
    helper = mockca.Helper()
    ca = mockca.MockCA(helper, opts={"authz_order": "reversed", "polls_before_valid": rng.choice([0, 2])} if idx % 2 else None)
    ca.start()
    owners = {}
    hooks = []
    types_for = {"A": ["challenge-http-01", "challenge-http-01-clean", "post-operation", "file-pre-create", "file-post-create"],
                 "B": ["challenge-dns-01", "challenge-dns-01-clean", "challenge-http-01", "challenge-http-01-clean", "post-operation",
                       "file-pre-create", "file-post-create"]}
    ios = {}
    for o in ("A", "B"):
        for t in types_for[o]:
            name = "%s-%s" % (o, t)
            kind = kind_of_type(t)
            io = {}
            out_t = err_t = None
            if t == "post-operation":
                io = {"stdin_str": "S<{{ status }}|{{ is_success }}|{{ identifiers | length }}>",
                      "stdout": d + "/out-" + o + "-{{ key_type }}.txt", "stderr": d + "/perr-" + o + "-{{ identifiers | join('+') }}.txt"}
                out_t, err_t = "OUT<%s>" % name, "ERR<%s>" % name
            elif t.startswith("challenge") and not t.endswith("clean"):
                io = {"stdin": d + "/stdin-{{ challenge }}.txt", "stderr": d + "/err-" + o + "-{{ identifier }}.txt"}
                err_t, out_t = "ERR<%s>" % name, "OUT-to-nowhere"
            elif t == "file-post-create":
                io = {"stdout": d + "/out-" + o + "-{{ file_name }}.txt"}
                out_t, err_t = "OUT<%s>" % name, "ERR-to-nowhere"
            h = hook(name, [t], log, kind, out=out_t, err=err_t, io=io, cfg_style=True)
            hooks.append(h)
            ios[name] = (io, out_t, err_t)
            owners[name] = o
    rng.shuffle(hooks)
    for c in ("http-01", "dns-01"):
        with open(os.path.join(d, "stdin-%s.txt" % c), "w") as f:
            f.write("stdin for %s\nsecond line\n" % c)
    env = {"g": env_table(rng, "g", 0.6), "A": env_table(rng, "cA", 0.5), "B": env_table(rng, "cB", 0.5),
           "accA": env_table(rng, "aA", 0.5), "accB": env_table(rng, "aB", 0.5), "proc": env_table(rng, "p", 0.6),
           "iA": env_table(rng, "iA", 0.5), "iB1": env_table(rng, "iB1", 0.5), "iB2": env_table(rng, "iB2", 0.5)}
    idA = [{"dns": "only-a.example.org", "challenge": "http-01", "env": env["iA"]}]
    idB = [{"dns": "b-one.example.org", "challenge": "dns-01", "env": env["iB1"]}, {"dns": "b-two.example.org", "challenge": "http-01", "env": env["iB2"]}]
    cfg = {"global": {"accounts_directory": d + "/accounts", "certificates_directory": d + "/certs", "env": env["g"]},
           "endpoint": [{"name": "ep1", "url": ca.base + "/directory", "tos_agreed": True}],
           "hook": hooks,
           "group": [{"name": "gA", "hooks": [h["name"] for h in hooks if owners[h["name"]] == "A"]},
                     {"name": "gB", "hooks": [h["name"] for h in hooks if owners[h["name"]] == "B"]}],
           "account": [{"name": "accA", "contacts": [{"mailto": "a@example.org"}], "hooks": ["gA"], "env": env["accA"]},
                       {"name": "accB", "contacts": [{"mailto": "b@example.org"}], "hooks": ["gB"], "env": env["accB"]}],
           "certificate": [{"name": "certA", "endpoint": "ep1", "account": "accA", "identifiers": idA, "hooks": ["gA"], "env": env["A"], "key_type": "ecdsa_p256"},
                           {"name": "certB", "endpoint": "ep1", "account": "accB", "identifiers": idB, "hooks": ["gB"], "env": env["B"], "key_type": "ecdsa_p384"}]}
    cfg_path = cfggen.write(os.path.join(d, "acmed.toml"), cfg)
    dmn = flow.Daemon(cfg_path, env=env["proc"])

    def posts():
        return [r for r in flow.read_log(log) if r.get("kind") == "hook" and r["name"].endswith("post-operation")]
    flow.wait_progress(lambda: len(posts()) >= 2 or not dmn.alive(), lambda: len(ca.log) + (os.path.getsize(log) if os.path.exists(log) else 0),
                       idle=30, cap=300)
    time.sleep(0.1)
    rc = dmn.stop()
    ca.stop()
    helper.close()
    records = [r for r in flow.read_log(log) if r.get("kind") == "hook"]
    return {"dir": d, "rc": rc, "records": records, "env": env, "ios": ios, "owners": owners, "stderr": dmn.stderr()[-500:],
            "idA": idA, "idB": idB, "spec": {"idx": idx}, "declared": {h["name"]: h["args"] for h in hooks}}


def judge_two(ctx, r):
    d, env = r["dir"], r["env"]
    robj = {"part": "x:two", "spec": r["spec"], "records": [{"name": x["name"], "args": flow.hook_args(x), "env": x["env"], "stdin": x["stdin"]} for x in r["records"]][:80],
            "env": env}
    ctx.case({"xtwo": r["spec"], "env": env})
    ctx.count("x:two:runs")
    posts = [x for x in r["records"] if x["name"].endswith("post-operation")]
    if r["rc"] is not None or len(posts) < 2:
        ctx.violation("two certificates in one daemon: %s (stderr: %s)" % (
            "the daemon exited rc=%s" % r["rc"] if r["rc"] is not None else "only %d of 2 reports" % len(posts), r["stderr"][-300:]), robj)
        return
    ident_owner = {"only-a.example.org": ("A", "iA"), "b-one.example.org": ("B", "iB1"), "b-two.example.org": ("B", "iB2")}
    pending = []
    for x in r["records"]:
        a = flow.hook_args(x)
        o = r["owners"][x["name"]]
        ctx.count("x:two:records")
        # whose data is it?
        ienv = {}
        if a.get("challenge"):
            data_owner, ikey = ident_owner.get(a.get("identifier"), ("?", None))
            kind, oenv, ienv = "challenge", env[data_owner] if data_owner in env else {}, env.get(ikey, {})
        elif a.get("file_path"):
            p = a["file_path"]
            if p.startswith(d + "/accounts"):
                # account files: the name is the base64 of the account name
                import base64
                data_owner = "A" if base64.urlsafe_b64encode(b"accA").decode().rstrip("=") in p else "B"
                kind, oenv = "account-file", env["acc" + data_owner]
            else:
                data_owner = "A" if "/certA_" in p else "B" if "/certB_" in p else "?"
                kind, oenv = "cert-file", env.get(data_owner, {})
        else:
            p = a.get("certificate_path", "")
            data_owner = "A" if "/certA_" in p else "B" if "/certB_" in p else "?"
            kind, oenv = "post-operation", env.get(data_owner, {})
        if data_owner != o:
            ctx.violation("hook %s (attached to certificate/account %s only) ran with the data of %s: %s" % (x["name"], o, data_owner, a), robj)
            return
        pending.append(({"op": "c10_env", "kind": kind, "proc": pairs(env["proc"]), "global": pairs(env["g"]), "owner": pairs(oenv),
                         "ident": pairs(ienv), "observed": pairs(x["env"]), "keys": KEYS}, x, kind, o, oenv, ienv))
        io, out_t, err_t = r["ios"][x["name"]]
        if "stdin_str" in io:
            n = 1 if o == "A" else 2
            want = "S<%s|%s|%d>" % (a.get("status", ""), a.get("is_success", ""), n)
            if x["stdin"] != want:
                ctx.violation("hook %s: stdin_str from the configuration file rendered %r, expected %r" % (x["name"], x["stdin"], want), robj)
                return
        if "stdin" in io:
            want = "stdin for %s\nsecond line\n" % a.get("challenge")
            if x["stdin"] != want:
                ctx.violation("hook %s: stdin file from the configuration file delivered %r, expected %r" % (x["name"], x["stdin"], want), robj)
                return
        for member, text in (("stdout", out_t), ("stderr", err_t)):
            if member in io:
                p = io[member].replace("{{ key_type }}", a.get("key_type", "")).replace("{{ identifiers | join('+') }}", (a.get("identifiers") or "").replace(",", "+")) \
                    .replace("{{ identifier }}", a.get("identifier", "")).replace("{{ file_name }}", a.get("file_name", ""))
                got = read(p)
                ctx.count("x:two:%s-file-checked" % member)
                if got != text:
                    ctx.violation("hook %s: %s (configuration file: %s) holds %r; the hook wrote %r" % (x["name"], member, io[member], got, text), robj)
                    return
    # the argument vectors: what each record's data hold is read from the record itself, so only the NUMBER and the
    # POSITIONS of the arguments (and the elements that are empty for the event's type) are judged here
    tys = {x["name"]: x["name"].split("-", 1)[1] for x in r["records"]}
    tlist = sorted(set(tys.values()))
    doc = {t: d["vars"] for t, d in zip(tlist, vlib.model([{"op": "hooks_vars", "type": t} for t in tlist]))} if tlist else {}
    judged = [(x, op) for x, op in ((x, c10argv.op_for(x, tys[x["name"]], r["declared"].get(x["name"]), doc[tys[x["name"]]], {}, None))
                                   for x in r["records"]) if op is not None]
    for (x, op), v in zip(judged, vlib.model([op for _, op in judged]) if judged else []):
        if not c10argv.judge(ctx, vlib.model, x, tys[x["name"]], r["declared"].get(x["name"]), doc[tys[x["name"]]], {}, None,
                             "two certificates in one daemon", robj, tag="x:two:argv", verdict=v):
            return
    for (op, x, kind, o, oenv, ienv), v in zip(pending, vlib.model([p[0] for p in pending]) if pending else []):
        if not v["holds"]:
            ctx.violation("hook %s (%s of %s) ran with %s; layers: daemon %s, global %s, owner %s, identifier %s" % (
                x["name"], kind, o, x["env"], env["proc"], env["g"], oenv, ienv), robj)
            return
    ctx.traces += 1


# =========================================================================================================

def start(ctx, root):
    """Runs the probes and the daemons in the background (observations only); `finish` judges them."""
    rng = random.Random(ctx.seed * 17 + 9)
    ex = concurrent.futures.ThreadPoolExecutor(max_workers=4)
    n = 2 if ctx.quick() else 12
    h = {"ex": ex, "t0": time.time(),
         "call": ex.submit(call_run, ctx, os.path.join(root, "xcall"), random.Random(rng.random())),
         "config": ex.submit(config_run, ctx, os.path.join(root, "xconfig"), random.Random(rng.random())),
         "two": [ex.submit(two_cert_flow, ctx, os.path.join(root, "xtwo"), random.Random(ctx.seed * 19 + i), i) for i in range(n)]}
    return h


def finish(ctx, h):
    ran, pre = h["call"].result()
    call_judge(ctx, ran, pre)
    config_judge(ctx, *h["config"].result())
    for f in h["two"]:
        judge_two(ctx, f.result())
    h["ex"].shutdown()
    ctx.count("x:seconds-from-start-to-last-verdict", int(time.time() - h["t0"]))


def replay(ctx, obj, root):
    part = obj.get("part")
    n0 = len(ctx.violations)
    os.makedirs(root, exist_ok=True)
    if part == "x:call":
        case = obj["case"]
        old_root = os.path.dirname(case["log"])
        import json
        case = json.loads(json.dumps(case).replace(old_root, root))
        from ext import probewatch
        res = probewatch.probe([call_op(case)], extra_env=case["proc"])[0]
        call_judge(ctx, [(case, res)], set())
    elif part == "x:config":
        c = obj["case"]
        import json
        c = json.loads(json.dumps(c).replace(c["dir"], os.path.join(root, "cfg")))
        r = vlib.probe([{"op": "config_load", "path": cfggen.write(os.path.join(root, "cfg", "acmed.toml"), c["cfg"]), "dump": True}])[0]
        print(r if "rejected" in r else "loaded")
        print("re-run the check with the same seed for the verdict of the config part")
    else:
        idx = obj["spec"]["idx"]
        judge_two(ctx, two_cert_flow(ctx, root, random.Random(ctx.seed * 19 + idx), idx))
    for d, _ in ctx.violations[n0:]:
        print("VIOLATION:", d)
    return 1 if len(ctx.violations) > n0 else 0
