"""C11 — "each endpoint independently": ties `Model/AccountMulti.lean` (theorems `Props/C11Indep.lean`)
to the real `Account` with SEVERAL endpoints.

One history = one account, 2..3 endpoints each with its own mock CA, one persistent probe process
holding the real `Account` and the real `Endpoint` objects (probe ops am_load / am_sync,
probe/account_probe.rs).  Steps: configuration edits (contacts, key type, external binding, a new
endpoint), restart (real `Account::load`), CA amnesia, and synchronisations of ONE named endpoint
(directory refresh + real `Account::synchronize`) with optional injected faults (a refused or cut
request, a missing Location / orders member, a failing file hook).

For every synchronisation of endpoint e:
* correspondence (model <-> code), driver op `c11_sync_multi` on the account as it was in memory
  before, the CA's real answers and the scripted hook exits: outcome class, the ordered request log
  of e's CA (kind, target, kid, fingerprint of the key the outer JWS verifies under, answer), EVERY
  endpoint record and the shared fields afterwards, the saved file (decoded by the model's bincode
  decoder `c11_decode`) against `saved`;
* judged on real behaviour (violation): the CAs of the other endpoints receive nothing and their
  tables do not change; the records of the other endpoints are unchanged in memory and in the file;
  the shared fields are unchanged; a key roll-over request verifies under the key the CA has on
  record and names it as oldKey; after a successful synchronisation the record of e carries the
  fingerprints of the configuration and e's CA holds the current key (and the configured contacts).
For every restart: driver op `c11_load_multi` (`Account.load` / `create` + `addEndpointName`)."""
import copy
import json
import os
import subprocess
import threading

import mockca
import vlib
from ext import kclost

ACC = "accm"
KEY_POOL = ["ecdsa_p256", "ecdsa_p384", "ed25519", "ecdsa_p521", "ed448", "ecdsa_p256", "ecdsa_p384", "rsa2048"]
CONTACTS = [["a@example.org"], ["b@example.org"], ["a@example.org", "c@example.org"], ["ü@exämple.org"], [],
            ["d@example.org", "a@example.org"]]
EABS = [{"identifier": "kid-1", "key_hex": "00112233445566778899aabbccddeeff", "alg": "HS256"},
        {"identifier": "kid-2", "key_hex": "ff" * 32, "alg": "HS384"},
        {"identifier": "é京-kid", "key_hex": "0102030405060708", "alg": "HS512"}]
FAULTS = ["newAccount:refuse", "account:refuse", "keyChange:refuse", "newAccount:drop", "account:drop",
          "keyChange:drop", "no-location", "no-orders", "hook-pre", "hook-post",
          # processed by the CA, the answer never arrives (the CA's record moves, the client sees a cut connection)
          "keyChange:drop-after-processing", "account:drop-after-processing", "newAccount:drop-after-processing",
          # refusals that say nothing about the signature
          "account:refuse-other", "keyChange:refuse-other",
          # the contact update itself refused (the account queries that precede a roll-over are POSTs to the same URL)
          "contacts:refuse"]
# problem types after which `update_account_key` asks again with the current key (acme_proto/account.rs:150-168)
SIG_REFUSED = ("unauthorized", "malformed", "badSignatureAlgorithm", "badPublicKey")
WORKERS = 8
N_HOOKS = 12


def unhx(h):
    return bytes.fromhex(h).decode(errors="replace")


def norm_kt(s):
    # no key_type line = the documented default type; case and -/_ do not matter
    return (s or "ecdsa_p256").lower().replace("-", "_")


class ProbeSession:
    """Persistent probe process (line protocol): the Account lives in it between ops."""

    def __init__(self):
        self.p = subprocess.Popen([vlib.ACMED_DEV], stdin=subprocess.PIPE, stdout=subprocess.PIPE,
                                  stderr=subprocess.DEVNULL, text=True, bufsize=1,
                                  env=vlib.env_offline({"ACMED_VERIF_RUN": "lines"}))

    def call(self, obj):
        try:
            self.p.stdin.write(json.dumps(obj) + "\n")
            self.p.stdin.flush()
            ln = self.p.stdout.readline()
        except Exception as ex:
            return {"died": True, "error": str(ex)}
        if not ln:
            return {"died": True, "rc": self.p.poll()}
        try:
            return json.loads(ln)
        except Exception:
            return {"garbled": ln[:200]}

    def close(self):
        try:
            self.p.stdin.close()
            self.p.wait(timeout=5)
        except Exception:
            self.p.kill()


# ------------------------------------------------------------------------------------------------
# histories

def S(ep, fault=None):
    s = {"do": "sync", "ep": ep}
    if fault:
        s["fault"] = fault
    return s


def catalogue():
    a, b, c = ["a@example.org"], ["b@example.org", "a@example.org"], ["c@example.org"]
    K = lambda v: {"do": "key", "value": v}
    C = lambda v: {"do": "contacts", "value": v}
    E = lambda v: {"do": "eab", "value": v}
    F = lambda ep: {"do": "forget", "ep": ep}
    R = {"do": "restart"}
    two = {"epA": True, "epB": True}
    three = {"epA": True, "epB": True, "epC": True}
    i0 = {"contacts": a, "key_type": "ecdsa_p256", "eab": None}
    H = [
        ("renew-on-A-only-after-key-edit", two, i0,
         [S("epA"), S("epB"), K("ecdsa_p384"), S("epA"), S("epB")]),
        ("second-key-change-in-between", two, i0,
         [S("epA"), S("epB"), K("ecdsa_p384"), S("epA"), K("ed25519"), S("epA"), S("epB")]),
        ("third-key-change-B-never-renewed", two, i0,
         [S("epA"), S("epB"), K("ecdsa_p384"), S("epA"), K("ed25519"), R, K("ecdsa_p521"), S("epB"), S("epA")]),
        ("contacts-edits", two, i0,
         [S("epA"), S("epB"), C(b), S("epB"), S("epA"), {"do": "both", "contacts": c, "key": "ed448"}, S("epA"), S("epB")]),
        ("accountDoesNotExist-on-one-endpoint", two, i0,
         [S("epA"), S("epB"), F("epA"), C(b), S("epA"), S("epB")]),
        ("accountDoesNotExist-on-key-change", two, i0,
         [S("epA"), S("epB"), K("ecdsa_p384"), F("epB"), S("epB"), S("epA")]),
        ("failing-sync-on-A-then-B", two, i0,
         [S("epA"), S("epB"), K("ecdsa_p384"), S("epA", "keyChange:refuse"), S("epB"), S("epA")]),
        ("failing-contact-update-on-A-then-B", two, i0,
         [S("epA"), S("epB"), C(b), S("epA", "account:refuse"), S("epB"), S("epA")]),
        ("cut-registration-on-A-then-B", two, i0, [S("epA", "newAccount:drop"), S("epB"), S("epA")]),
        ("no-location-on-A-then-B", two, i0, [S("epA", "no-location"), S("epB"), S("epA")]),
        ("no-orders-url", two, i0, [S("epA", "no-orders"), S("epB"), K("ed25519"), S("epA")]),
        ("pre-hook-fails-on-A", two, i0, [S("epA"), S("epB"), C(b), S("epA", "hook-pre"), S("epB"), S("epA")]),
        ("post-hook-fails-then-restart", two, i0,
         [S("epA"), S("epB"), K("ecdsa_p384"), S("epA", "hook-post"), R, S("epB"), S("epA")]),
        ("pre-hook-fails-then-restart", two, i0,
         [S("epA"), S("epB"), K("ecdsa_p384"), S("epA", "hook-pre"), R, S("epA"), S("epB")]),
        ("unknown-endpoint", {"epA": True, "epB": True, "epC": False}, i0,
         [S("epA"), S("epC"), {"do": "add-endpoint", "ep": "epC"}, S("epC"), K("ecdsa_p384"), S("epC"), S("epA")]),
        ("binding-added-then-changed", two, i0,
         [S("epA"), S("epB"), E(EABS[0]), S("epA"), C(b), E(EABS[1]), S("epB"), S("epA")]),
        ("three-endpoints-rolling", three, i0,
         [S("epA"), S("epB"), S("epC"), K("ecdsa_p384"), S("epB"), K("ed25519"), S("epC"), K("ecdsa_p521"),
          S("epA"), S("epB"), S("epC")]),
        ("restart-in-between", two, i0, [S("epA"), K("ecdsa_p384"), R, S("epB"), R, S("epA")]),
        # key and contacts edited together; the CA accepts the roll-over and refuses the contact update; restart:
        # what the file says must be what the CA was told (the roll-over must have been saved on its own)
        ("rollover-ok-contact-refused-then-restart", two, i0,
         [S("epA"), S("epB"), {"do": "both", "contacts": b, "key": "ecdsa_p384"}, S("epA", "contacts:refuse"), R,
          S("epA"), S("epB")]),
        ("rsa-and-back", two, i0, [S("epA"), S("epB"), K("rsa2048"), S("epB"), K("ecdsa_p256"), S("epA"), S("epB")]),
        ("both-forget", two, i0, [S("epA"), S("epB"), F("epA"), F("epB"), K("ed25519"), S("epB"), S("epA")]),
        # the key_type line: absent = the default type, other spellings of the same type: no new key
        ("key-line-spellings", two, dict(i0, key_type=None),
         [S("epA"), S("epB"), K("ecdsa_p256"), S("epA"), K("ECDSA-P256"), R, S("epB"), K("ecdsa-p384"), S("epA"), K("ECDSA_P384"), R,
          S("epB"), K(None), S("epA"), S("epB")]),
        # the signature_algorithm line alone is added / removed (one algorithm per key type: no new key)
        ("alg-line-alone", two, i0, [S("epA"), S("epB"), {"do": "alg", "value": "ES256"}, R, S("epA"), {"do": "alg", "value": None}, S("epB")]),
        # an endpoint leaves the configuration (its record and the superseded keys it needs must stay in the file
        # through the rewrites made for the other endpoint) and comes back
        ("endpoint-removed-and-back", two, i0,
         [S("epA"), S("epB"), {"do": "remove-endpoint", "ep": "epB"}, R, K("ecdsa_p384"), S("epA"), C(b), S("epA"),
          {"do": "add-endpoint", "ep": "epB"}, R, S("epB"), S("epA")]),
        # the binding that was removed is put back unchanged
        ("binding-removed-then-same", two, dict(i0, eab=EABS[0]),
         [S("epA"), S("epB"), E(None), C(b), S("epA"), E(EABS[0]), S("epA"), S("epB")]),
        # a roll-over the CA PROCESSES whose answer is lost: the CA of A holds the new key, the record names the old
        # one; the following synchronisations of A must recover (5ce05e3 / 1fb1c1a), B is not concerned
        ("rollover-answer-lost-on-A", two, i0,
         [S("epA"), S("epB"), K("ecdsa_p384"), S("epA", "keyChange:drop-after-processing"), S("epA"), S("epA"), S("epB")]),
        ("rollover-answer-lost-then-restart", two, i0,
         [S("epA"), S("epB"), K("ed25519"), S("epA", "keyChange:drop-after-processing"), R, S("epB"), S("epA"), S("epA")]),
        ("rollover-answer-lost+contacts", two, i0,
         [S("epA"), S("epB"), {"do": "both", "contacts": b, "key": "ecdsa_p521"}, S("epA", "keyChange:drop-after-processing"),
          S("epA"), S("epB"), S("epA")]),
        ("rollover-answer-lost-on-both", two, i0,
         [S("epA"), S("epB"), K("ecdsa_p384"), S("epA", "keyChange:drop-after-processing"),
          S("epB", "keyChange:drop-after-processing"), S("epB"), S("epA"), S("epB")]),
        # the same loss at the contact update and at the registration
        ("contact-update-answer-lost", two, i0,
         [S("epA"), S("epB"), C(b), S("epA", "account:drop-after-processing"), S("epA"), S("epB")]),
        ("registration-answer-lost", two, i0, [S("epA", "newAccount:drop-after-processing"), S("epA"), S("epB"), S("epA")]),
        # the roll-over genuinely refused (the CA holds the old key), then accepted
        ("rollover-refused-then-accepted", two, i0,
         [S("epA"), S("epB"), K("rsa2048"), S("epA", "keyChange:refuse"), S("epA"), S("epB", "keyChange:refuse-other"), S("epB")]),
        # the account query that precedes the roll-over refused with an error that says nothing about the signature
        ("rollover-query-refused-other", two, i0,
         [S("epA"), S("epB"), K("ecdsa_p384"), S("epA", "account:refuse-other"), S("epA"), S("epB")]),
        # … and with the error a failed signature verification produces although the signature verifies (a
        # deactivated account): KNOWN FINDING rollover-probe-at-deactivated-account (one query under the current key)
        (kclost.FINDING, two, i0,
         [S("epA"), S("epB"), K("ecdsa_p384"), S("epA", "account:refuse"), S("epA"), S("epB")]),
        # DOUBLE fault, KNOWN FINDING rollover-lost-then-key-edited: the answer to the roll-over on A is lost and the
        # key type is edited again before A is synchronised: A never converges again; B is not concerned
        (kclost.FINDING2, two, i0,
         [S("epA"), S("epB"), K("ecdsa_p384"), S("epA", "keyChange:drop-after-processing"), K("ed25519"), S("epA"), S("epA"),
          S("epB")]),
    ]
    return [{"label": l, "endpoints": dict(e), "init": copy.deepcopy(i), "steps": copy.deepcopy(s)} for l, e, i, s in H]


def other_of(cur, pool, rng):
    return rng.choice([x for x in pool if x != cur])


def gen_history(rng):
    names = ["epA", "epB", "epC"][:rng.choice([2, 2, 3])]
    eps = {n: True for n in names}
    if len(names) == 3 and rng.random() < 0.4:
        eps["epC"] = False
    cur = {"contacts": rng.choice(CONTACTS), "key_type": rng.choice(KEY_POOL),
           "eab": copy.deepcopy(rng.choice(EABS)) if rng.random() < 0.15 else None}
    init = copy.deepcopy(cur)
    n = rng.randint(3, 8)
    steps = []
    configured = dict(eps)
    pending = {k: {"register"} for k in names}     # what the next synchronisation of an endpoint has to do (roughly)
    lost = set()    # endpoints whose roll-over request may have been processed without an answer, not yet recovered
    for i in range(n):
        if i < 2 and rng.random() < 0.8:
            kind = "sync"
        elif i == n - 1:
            kind = "sync"
        else:
            kind = rng.choice(["sync", "sync", "sync", "sync", "key", "key", "contacts", "both", "eab", "restart",
                               "forget", "add-endpoint"])
        if kind == "add-endpoint" and all(configured.values()):
            kind = "sync"
        if kind in ("key", "both") and lost:
            # ASSUMPTION of these histories: the key type is not edited again while a roll-over whose answer was
            # lost is unrecovered (lost answer + second key edit = the account is wedged: reported separately)
            kind = "sync"
        if kind == "sync":
            ep = names[i] if i < 2 else rng.choice(sorted(lost) or names)
            fault = None
            if rng.random() < 0.25:
                # mostly a fault on the request this synchronisation is expected to start with
                p = pending[ep]
                first = "newAccount" if "register" in p else "keyChange" if "key" in p else "account" if "contacts" in p else None
                pool = FAULTS if first is None or rng.random() < 0.2 else \
                    [first + ":refuse", first + ":drop", first + ":drop-after-processing", "hook-pre", "hook-post"] + \
                    (["no-location", "no-orders"] if first == "newAccount" else []) + \
                    ([first + ":refuse-other"] if first != "newAccount" else [])
                fault = rng.choice(pool)
            if fault is None and configured[ep]:
                pending[ep] = set()
                lost.discard(ep)
            if fault == "keyChange:drop-after-processing" and "key" in pending[ep]:
                lost.add(ep)
            steps.append(S(ep, fault))
        elif kind == "key":
            cur["key_type"] = other_of(cur["key_type"], KEY_POOL, rng)
            steps.append({"do": "key", "value": cur["key_type"]})
            for p in pending.values():
                p.add("key")
        elif kind == "contacts":
            cur["contacts"] = other_of(cur["contacts"], CONTACTS, rng)
            steps.append({"do": "contacts", "value": cur["contacts"]})
            for p in pending.values():
                p.add("contacts")
        elif kind == "both":
            cur["contacts"] = other_of(cur["contacts"], CONTACTS, rng)
            cur["key_type"] = other_of(cur["key_type"], KEY_POOL, rng)
            steps.append({"do": "both", "contacts": cur["contacts"], "key": cur["key_type"]})
            for p in pending.values():
                p.update(("key", "contacts"))
        elif kind == "eab":
            cur["eab"] = None if (cur["eab"] and rng.random() < 0.4) else copy.deepcopy(other_of(cur["eab"], EABS, rng))
            steps.append({"do": "eab", "value": cur["eab"]})
        elif kind == "restart":
            steps.append({"do": "restart"})
        elif kind == "forget":
            steps.append({"do": "forget", "ep": rng.choice(names)})
        else:
            ep = [k for k, v in configured.items() if not v][0]
            configured[ep] = True
            steps.append({"do": "add-endpoint", "ep": ep})
    return {"label": None, "endpoints": eps, "init": init, "steps": steps}


def hist_canon(h):
    return {"endpoints": h["endpoints"], "init": h["init"], "steps": h["steps"]}


def describe(h):
    out = []
    for s in h["steps"]:
        d = s["do"]
        if d == "sync":
            out.append("sync %s%s" % (s["ep"], " [%s]" % s["fault"] if s.get("fault") else ""))
        elif d == "key":
            out.append("key:=%s" % s["value"])
        elif d == "contacts":
            out.append("contacts:=%s" % ",".join(s["value"]))
        elif d == "both":
            out.append("contacts:=%s & key:=%s" % (",".join(s["contacts"]), s["key"]))
        elif d == "eab":
            out.append("binding:=%s" % (s["value"]["identifier"] if s["value"] else "none"))
        elif d == "forget":
            out.append("CA %s forgets" % s["ep"])
        elif d == "add-endpoint":
            out.append("+%s" % s["ep"])
        elif d == "remove-endpoint":
            out.append("-%s" % s["ep"])
        elif d == "alg":
            out.append("signature_algorithm:=%s" % s["value"])
        else:
            out.append(d)
    return "[%s | contacts=%s key=%s binding=%s | %s]" % (
        ",".join(k if v else "(%s)" % k for k, v in sorted(h["endpoints"].items())), ",".join(h["init"]["contacts"]),
        h["init"]["key_type"], h["init"]["eab"]["identifier"] if h["init"]["eab"] else "none", "; ".join(out))


# ------------------------------------------------------------------------------------------------
# one history against the real code

class Run:
    def __init__(self, root, hist):
        self.root, self.h = root, hist
        self.names = sorted(hist["endpoints"])
        self.configured = dict(hist["endpoints"])
        self.cfg = copy.deepcopy(hist["init"])
        self.obs = []
        self.errors = []
        self.state = None        # last answer of the probe: dump, info, file_hex
        self.need_load = True
        self.flag_dir = os.path.join(root, "flags")
        self.acc_dir = os.path.join(root, "accounts")

    # -- the request log of one CA, in the model's vocabulary
    def known_keys(self, *states):
        out = []
        for st in states:
            if isinstance(st, dict) and "info" in st:
                for k in [st["info"]["current"]] + list(st["info"]["past"]):
                    if k not in out:
                        out.append(k)
        return out

    def verifies(self, rec, jwk):
        if jwk is None or "protected_b64" not in rec:
            return False
        r = self.helper.call({"op": "verify_jws", "jwk": jwk, "alg": rec.get("hdr", {}).get("alg"),
                              "protected_b64": rec["protected_b64"], "payload_b64": rec["payload_b64"],
                              "sig_b64": rec["sig_b64"]})
        return bool(r.get("valid"))

    def requests_of(self, ep, entries, keys):
        ca = self.cas[ep]
        answers = {e["for"]: e for e in entries if e["kind"] == "ans"}
        reqs, raw = [], []
        for e in entries:
            if e["kind"] != "req" or e["method"] != "POST":
                continue
            hdr = e.get("hdr", {})
            rk = e["rk"]
            kind = {"newAccount": "newAccount", "keyChange": "keyChange", "account": "accountUpdate"}.get(rk, rk)
            if rk == "account" and (e.get("payload") or "") == "":
                kind = "accountProbe"      # POST-as-GET of the account URL: the queries that precede a roll-over
            if rk == "newAccount":
                target = {"dir": "newAccount", "ep": ep}
            elif rk == "keyChange":
                target = {"dir": "keyChange", "ep": ep}
            else:
                target = {"url": ca.url(e["path"])}
            if not e.get("url_ok"):
                target["url_member_of_header"] = hdr.get("url")       # makes the comparison fail
            signer = "?"
            if hdr.get("jwk") is not None:
                for k in keys:
                    if k["jwk"] == hdr["jwk"] and self.verifies(e, k["jwk"]):
                        signer = k["key_hash"]
                kid = ""
            else:
                for k in keys:
                    if self.verifies(e, k["jwk"]):
                        signer = k["key_hash"]
                        break
                kid = hdr.get("kid") or ""
            a = answers.get(e.get("gidx")) or {}
            st = a.get("status", 0)
            if (a.get("drop") or not a) and e.get("processed"):
                ans = {"k": "lost"}        # the CA processed the request, the answer never arrived
            elif a.get("drop") or not a:
                ans = {"k": "err"}
            elif 200 <= st < 300:
                if rk == "newAccount":
                    try:
                        body = json.loads(a.get("body_text") or "{}")
                    except Exception:
                        body = {}
                    ans = {"k": "account", "location": a.get("location"), "orders": body.get("orders"),
                           "existing": not e.get("account_created", False)}
                else:
                    ans = {"k": "ok"}
            elif a.get("problem"):
                ans = {"k": "acme", "type": "accountDoesNotExist" if a["problem"] == "accountDoesNotExist" else
                       "sigRefused" if a["problem"] in SIG_REFUSED else "other"}
            else:
                ans = {"k": "err"}
            reqs.append({"ep": ep, "kind": kind, "target": target, "signer": signer, "kid": kid, "answer": ans})
            raw.append({"kind": kind, "status": st, "problem": a.get("problem"), "sig_ok": e.get("sig_ok"),
                        "kid_known": e.get("kid_ok", False) if hdr.get("jwk") is None else None,
                        "forgotten": e.get("account_forgotten"), "old_key_matches_record": e.get("old_key_matches_record"),
                        "inner_sig_ok": e.get("inner_sig_ok"), "alg": hdr.get("alg"), "rule": e.get("rule"),
                        "answered": bool(a) and not a.get("drop"), "processed": bool(e.get("processed"))})
        return reqs, raw

    def ghost(self, st, keys=None):
        """GHOST of the model (`EpRec.ca`): endpoint -> fingerprint of the key the CA of that endpoint holds for
        the account the record points to ("" = no account there, amnesia, or a key the account never had)."""
        out = {}
        if not (isinstance(st, dict) and "dump" in st):
            return out
        keys = keys or self.known_keys(st)
        for k, v in st["dump"]["endpoints"]:
            n = unhx(k)
            held = self.cas[n].accounts.get(unhx(v["account_url"])) if n in self.cas else None
            fp = ""
            if held and not held.get("forgotten"):
                for kk in keys:
                    if kk["jwk"] == held.get("jwk"):
                        fp = kk["key_hash"]
            out[n] = fp
        return out

    # -- steps
    def load(self, idx):
        pre = self.state
        marks = {n: len(c.log) for n, c in self.cas.items()}
        r = self.probe.call({"op": "am_load", "dir": self.acc_dir, "name": ACC,
                             "contacts": [["mailto", v] for v in self.cfg["contacts"]],
                             "key_type": self.cfg["key_type"], "sig_alg": self.cfg.get("sig_alg"), "eab": self.cfg["eab"],
                             "flag_dir": self.flag_dir,
                             "endpoints": [{"name": n, "url": self.cas[n].base + "/directory",
                                            "configured": self.configured[n]} for n in self.names]})
        sent = sum(len(c.log) - marks[n] for n, c in self.cas.items())
        self.obs.append({"kind": "load", "step": idx, "pre": pre, "post": r, "sent": sent,
                         "cfg": copy.deepcopy(self.cfg), "configured": [n for n in self.names if self.configured[n]]})
        if not (isinstance(r, dict) and "dump" in r):
            self.errors.append("am_load failed at step %d: %s" % (idx, r))
            return False
        self.state = r
        self.need_load = False
        return True

    def sync(self, idx, st):
        ep, fault = st["ep"], st.get("fault")
        ca = self.cas[ep]
        pre = self.state
        hooks = [True, True]
        if fault:
            kind, _, how = fault.partition(":")
            if fault == "contacts:refuse":
                ca.rules.append({"kind": "account", "payload_contains": "\"contact\"", "times": 1, "label": fault,
                                 "answer": ca.problem(403, "unauthorized", "injected refusal")})
            elif how == "refuse":
                ca.rules.append({"kind": kind, "times": 1, "label": fault,
                                 "answer": ca.problem(403, "unauthorized", "injected refusal")})
            elif how == "refuse-other":
                ca.rules.append({"kind": kind, "times": 1, "label": fault,
                                 "answer": ca.problem(403, "userActionRequired", "injected refusal")})
            elif how == "drop":
                ca.rules.append({"kind": kind, "times": 1, "label": fault, "answer": {"drop": True}})
            elif how == "drop-after-processing":
                ca.rules.append({"kind": kind, "times": 1, "label": fault, "answer": {"process": True, "drop": True}})
            elif fault == "no-location":
                ca.rules.append({"kind": "newAccount", "times": 1, "label": fault,
                                 "answer": {"process": True, "location": None}})
            elif fault == "no-orders":
                ca.rules.append({"kind": "newAccount", "times": 1, "label": fault,
                                 "answer": {"process": True, "drop_keys": ["orders"]}})
            elif fault == "hook-pre":
                open(os.path.join(self.flag_dir, "fail-pre"), "w").close()
                hooks = [False, True]
            elif fault == "hook-post":
                open(os.path.join(self.flag_dir, "fail-post"), "w").close()
                hooks = [True, False]
        marks = {n: len(c.log) for n, c in self.cas.items()}
        tables = {n: json.dumps(c.accounts, sort_keys=True, default=str) for n, c in self.cas.items()}
        ghost_pre = self.ghost(pre)
        r = self.probe.call({"op": "am_sync", "endpoint": ep})
        ca.rules[:] = []
        for f in ("fail-pre", "fail-post"):
            try:
                os.remove(os.path.join(self.flag_dir, f))
            except OSError:
                pass
        entries = list(ca.log[marks[ep]:])
        reqs, raw = self.requests_of(ep, entries, self.known_keys(r, pre))
        others = {n: {"requests": len(c.log) - marks[n],
                      "table_changed": json.dumps(c.accounts, sort_keys=True, default=str) != tables[n]}
                  for n, c in self.cas.items() if n != ep}
        post_ok = isinstance(r, dict) and "dump" in r
        rec_url = ""
        if post_ok:
            for k, v in r["dump"]["endpoints"]:
                if unhx(k) == ep:
                    rec_url = unhx(v["account_url"])
        held = ca.accounts.get(rec_url)
        self.obs.append({"kind": "sync", "step": idx, "ep": ep, "fault": fault, "pre": pre, "post": r,
                         "ghost_pre": ghost_pre, "ghost_post": self.ghost(r, self.known_keys(r, pre)),
                         "log_range": (marks[ep], len(ca.log)),
                         "reqs": reqs, "raw": raw, "others": others, "hooks": hooks * (N_HOOKS // 2),
                         "n_http": sum(1 for e in entries if e["kind"] == "req"),
                         "ca_holds": None if held is None else {"jwk": held.get("jwk"), "contacts": held.get("contacts"),
                                                               "forgotten": bool(held.get("forgotten"))},
                         "want_contacts": ["mailto:" + v for v in self.cfg["contacts"]]})
        if not post_ok:
            self.errors.append("am_sync failed at step %d: %s" % (idx, r))
            return False
        self.state = r
        return True

    def run(self):
        self.helper = mockca.Helper()
        self.cas = {}
        self.probe = None
        try:
            os.makedirs(self.flag_dir, exist_ok=True)
            for n in self.names:
                ca = mockca.MockCA(self.helper)
                ca.start()
                self.cas[n] = ca
            self.probe = ProbeSession()
            for i, st in enumerate(self.h["steps"]):
                do = st["do"]
                ok = True
                if do == "contacts":
                    self.cfg["contacts"] = list(st["value"])
                    self.need_load = True
                elif do == "key":
                    self.cfg["key_type"] = st["value"]
                    self.need_load = True
                elif do == "both":
                    self.cfg["contacts"] = list(st["contacts"])
                    self.cfg["key_type"] = st["key"]
                    self.need_load = True
                elif do == "eab":
                    self.cfg["eab"] = copy.deepcopy(st["value"])
                    self.need_load = True
                elif do == "add-endpoint":
                    self.configured[st["ep"]] = True
                    self.need_load = True
                elif do == "remove-endpoint":
                    self.configured[st["ep"]] = False
                    self.need_load = True
                elif do == "alg":
                    self.cfg["sig_alg"] = st["value"]
                    self.need_load = True
                elif do == "restart":
                    ok = self.load(i)
                elif do == "forget":
                    for a in self.cas[st["ep"]].accounts.values():
                        a["forgotten"] = True
                elif do == "sync":
                    if self.need_load:
                        ok = self.load(i)
                    ok = ok and self.sync(i, st)
                if not ok:
                    break
            # every POST each CA received, as the C04 judge under uncertainty reads it (needs the helper)
            self.cas_log = {n: list(ca.log) for n, ca in self.cas.items()}
            # (the MAC of an external account binding is not this check's subject: these CAs hold no MAC keys)
            self.posts_x = {n: kclost.records_x(self.helper, log, [x for x in kclost.base_records(log) if x["kind"] != "eabInner"])
                            for n, log in self.cas_log.items()}
            keys = self.known_keys(*[o.get(k) for o in self.obs for k in ("pre", "post")])
            for recs_x in self.posts_x.values():
                for x in recs_x:       # which of the account's keys signed a POST-as-GET of the account URL
                    if x["outer"] and x["_src"]["rk"] == "account" and (x["_src"].get("payload") or "") == "":
                        x["_signer_fp"] = next((k["key_hash"] for k in keys if self.verifies(x["_src"], k["jwk"])), "?")
        except Exception as ex:
            import traceback
            self.errors.append("harness exception: %s\n%s" % (ex, traceback.format_exc()[-1500:]))
        finally:
            for ca in self.cas.values():
                try:
                    ca.stop()
                except Exception:
                    pass
            if self.probe:
                self.probe.close()
            self.helper.close()
        return self


# ------------------------------------------------------------------------------------------------
# the model's vocabulary

def rec_shape(v):
    c = v.get("creation")
    return {"account_url": unhx(v["account_url"]), "orders_url": unhx(v["orders_url"]), "key_hash": v["key_hash"],
            "contacts_hash": v["contacts_hash"], "eab_hash": v["eab_hash"],
            "creation": 0 if c == {"secs": "0", "nanos": 0} else c}


def mshape(st):
    """The in-memory account as the probe dumped it."""
    d, inf = st["dump"], st["info"]
    return {"endpoints": [[unhx(k), rec_shape(v)] for k, v in d["endpoints"]],
            "contacts_hash": inf["contacts_hash"], "current_key_hash": inf["current"]["key_hash"],
            "past_key_hashes": [k["key_hash"] for k in inf["past"]], "eab_hash": inf["eab_hash"]}


def with_ghost(acct, ghost):
    """The account in the model's vocabulary + GHOST: the key each CA holds (`EpRec.ca.key`)."""
    a = dict(acct)
    a["endpoints"] = [[n, dict(r, ca={"key": (ghost or {}).get(n, ""), "contacts": ""})] for n, r in acct["endpoints"]]
    return a


def without_ghost(acct):
    if not isinstance(acct, dict):
        return acct
    a = dict(acct)
    a["endpoints"] = [[n, {k: v for k, v in r.items() if k != "ca"}] for n, r in acct.get("endpoints", [])]
    return a


def ghost_of(acct):
    return {n: (r.get("ca") or {}).get("key", "") for n, r in (acct or {}).get("endpoints", [])} if isinstance(acct, dict) else {}


class Maps:
    """Fingerprints of the keys / contact lists / bindings seen in memory, to name what a FILE holds."""

    def __init__(self):
        self.keys, self.contacts, self.eab = {}, {}, {}

    def learn(self, st):
        if not (isinstance(st, dict) and "dump" in st):
            return
        d, inf = st["dump"], st["info"]
        self.keys[d["current_key"]["key"]] = inf["current"]["key_hash"]
        for k, i in zip(d["past_keys"], inf["past"]):
            self.keys[k["key"]] = i["key_hash"]
        self.contacts[json.dumps(d["contacts"])] = inf["contacts_hash"]
        if d["eab"]:
            self.eab[json.dumps(d["eab"], sort_keys=True)] = inf["eab_hash"]

    def fshape(self, acc):
        """A decoded account file (shape of `c11_decode`)."""
        return {"endpoints": [[unhx(k), rec_shape(v)] for k, v in acc["endpoints"]],
                "contacts_hash": self.contacts.get(json.dumps(acc["contacts"]), "?contacts"),
                "current_key_hash": self.keys.get(acc["current_key"]["key"], "?key"),
                "past_key_hashes": [self.keys.get(k["key"], "?key") for k in acc["past_keys"]],
                "eab_hash": self.eab.get(json.dumps(acc["eab"], sort_keys=True), "?eab") if acc["eab"] else None}


def canon(a):
    if not isinstance(a, dict):
        return a
    c = dict(a)
    c["endpoints"] = sorted(a.get("endpoints", []), key=lambda kv: kv[0])
    return c


def records(a):
    return {k: v for k, v in (a or {}).get("endpoints", [])}


def shared(a):
    return {k: v for k, v in (a or {}).items() if k != "endpoints"}


def disk_matches(dec, real):
    """The file holds every registered endpoint record and the keys the account in memory has (what a
    restart needs to find the CAs' accounts again)."""
    if dec is None:
        return not any(v["account_url"] for v in records(real).values())
    if not isinstance(dec, dict):
        return False
    return (all(records(dec).get(n) == v for n, v in records(real).items() if v["account_url"])
            and dec["current_key_hash"] == real["current_key_hash"]
            and dec["past_key_hashes"] == real["past_key_hashes"])


def real_tag(res, reqs):
    if not isinstance(res, dict):
        return "harness:%s" % (res,)
    if res.get("ok"):
        return "ok"
    if "sync_err" in res:
        m = res["sync_err"]
        if "unknown endpoint" in m:
            return "unknownEndpoint"
        if "key not found" in m:
            return "failed:pastKey"
        if "unrecoverable failure" in m:
            return "failed:saveAccount"
        # the wording of error messages is not part of the property: a failure whose text is not one
        # of the above is "failed:?" and agrees with any failure of the model (which step failed is
        # still visible in the request log, the account in memory and the file, compared exactly)
        last = reqs[-1] if reqs else None
        if last is not None and last["answer"]["k"] not in ("account", "ok"):
            return {"newAccount": "failed:register", "keyChange": "failed:keyChange",
                    "accountUpdate": "failed:accountUpdate"}.get(last["kind"], "failed:?")
        return "failed:?"
    return "harness:" + json.dumps(res)[:200]


def slim(o):
    return {k: v for k, v in o.items() if k not in ("pre", "post", "min", "mout", "dec_pre", "dec_post")}


# ------------------------------------------------------------------------------------------------

def pmap(fn, items, workers=WORKERS):
    import concurrent.futures
    if not items:
        return []
    with concurrent.futures.ThreadPoolExecutor(max_workers=workers) as ex:
        return list(ex.map(fn, items))


def extend(ctx, helper, root, hists=None, n_random=None):
    """Runs the histories (default: catalogue + random ones from ctx.rng) and judges them.  `helper`
    is unused (every history has its own vhelper process: they run in parallel)."""
    if hists is None:
        if n_random is None:
            n_random = 40 if ctx.quick() else 600
        hists = catalogue() + [gen_history(ctx.rng) for _ in range(n_random)]
        hists += [dict(c["history_multi"]) for c in vlib.corpus("C11") if "history_multi" in c]
    runs = pmap(lambda ih: Run(os.path.join(root, "m%d" % ih[0]), ih[1]).run(), list(enumerate(hists)))

    # ---- every file state through the model's decoder
    files = []
    for r in runs:
        for o in r.obs:
            for st in (o["pre"], o["post"]):
                if isinstance(st, dict) and st.get("file_hex") and st["file_hex"] not in files:
                    files.append(st["file_hex"])
    dec = {}
    if files:
        for hx, v in zip(files, vlib.model([{"op": "c11_decode", "hex": f} for f in files])):
            dec[hx] = v
            ctx.count("M:file-decoded")
            if not v.get("ok") or v.get("rest") != "":
                ctx.disagreements += 1
                ctx.broke("correspondence:bincode", "an account file written through synchronize / load does not decode "
                          "in the model", {"part": "M", "file_hex": hx, "model": v})

    def decoded(st, maps):
        if not (isinstance(st, dict) and st.get("file_hex")):
            return None
        v = dec.get(st["file_hex"])
        if not (v and v.get("ok")):
            return "?undecodable"
        return maps.fshape(v["account"])

    # ---- model inputs
    min_, where = [], []
    for r in runs:
        maps = Maps()
        for o in r.obs:
            maps.learn(o["pre"])
            maps.learn(o["post"])
        for o in r.obs:
            o["dec_pre"] = decoded(o["pre"], maps)
            o["dec_post"] = decoded(o["post"], maps)
            if not (isinstance(o["post"], dict) and "dump" in o["post"]):
                continue
            if o["kind"] == "sync":
                o["min"] = {"op": "c11_sync_multi", "variant": "current", "endpoint": o["ep"],
                            "account": with_ghost(mshape(o["pre"]), o["ghost_pre"]),
                            "answers": [q["answer"] for q in o["reqs"]], "hooks": o["hooks"]}
            else:
                filed = o["dec_pre"]
                key_changed = False
                if o["pre"] is not None and filed is not None:
                    key_changed = norm_kt(o["pre"]["info"]["current"]["key_type"]) != norm_kt(o["cfg"]["key_type"])
                o["key_changed"] = key_changed
                o["min"] = {"op": "c11_load_multi", "account": filed if isinstance(filed, dict) else None,
                            "contacts_hash": o["post"]["info"]["contacts_hash"], "key_changed": key_changed,
                            "fresh_key_hash": o["post"]["info"]["current"]["key_hash"],
                            "eab_hash": o["post"]["info"]["eab_hash"], "add_endpoints": o["configured"]}
            min_.append(o["min"])
            where.append(o)
    for o, v in zip(where, vlib.model(min_) if min_ else []):
        if isinstance(v, dict) and "account" in v:
            # the GHOST members of the model's records are compared on their own (synchronisations, below)
            o["mghost"] = ghost_of(v.get("account"))
            v = dict(v, account=without_ghost(v.get("account")))
            if "saved" in v:
                v["saved"] = without_ghost(v["saved"])
        o["mout"] = v

    # ---- every POST every CA received, through the C04 judge under uncertainty (Spec.C04Lost)
    jx, jwhere = [], []
    for r in runs:
        for n, recs_x in sorted(getattr(r, "posts_x", {}).items()):
            jx.append(kclost.judge_input(recs_x))
            jwhere.append((r, n, recs_x))
    for (r, n, recs_x), v in zip(jwhere, vlib.model(jx) if jx else []):
        r.posts_verdict = getattr(r, "posts_verdict", {})
        r.posts_verdict[n] = v

    # ---- compare and judge
    for h, r in zip(hists, runs):
        ctx.count("M:endpoints:%d" % len(h["endpoints"]))
        ctx.count("M:history-len:%d" % len(h["steps"]))
        for st in h["steps"]:
            ctx.count("M:step:" + st["do"])
        for e in r.errors:
            ctx.count("M:harness-error")
            ctx.broke("harness", e, {"part": "M", "history": hist_canon(h)})
        trusted = True      # the file on disk was the account in memory whenever a restart read it
        disk_is_memory = True
        uncertain = {}      # endpoint -> the CA may hold other contacts than the fingerprint says
        for o in r.obs:
            rep = {"part": "M", "history": hist_canon(h), "label": h.get("label"), "failed_at_step": o["step"],
                   "observation": slim(o)}
            name = "history %s, step %d" % (describe(h), o["step"])
            post = o["post"]
            if not (isinstance(post, dict) and "dump" in post) or "mout" not in o:
                continue
            mo = o["mout"]
            real = mshape(post)
            ctx.traces += 1
            if o["kind"] == "load":
                if not disk_is_memory:
                    trusted = False
                ctx.case({"h": hist_canon(h), "step": o["step"], "k": "load"}, nontrivial=bool(records(real)))
                ctx.count("M:load:%s" % ("no-file" if o["dec_pre"] is None else
                                         "key-changed" if o["key_changed"] else "key-kept"))
                problems = []
                if canon(mo.get("account")) != canon(real):
                    problems.append("the account after the real Account::load + add_endpoint_name differs from the model's")
                if o["sent"]:
                    problems.append("a start-up sent %d requests" % o["sent"])
                if isinstance(o["dec_pre"], dict):
                    before = records(o["dec_pre"])
                    after = records(real)
                    if any(after.get(n) != v for n, v in before.items()):
                        problems.append("a start-up changed a stored endpoint record")
                if problems:
                    ctx.disagreements += 1
                    ctx.broke("correspondence:load-multi", "%s: %s" % (name, "; ".join(problems)),
                              dict(rep, model=mo, real=real, file_before=o["dec_pre"]))
                disk_is_memory = disk_matches(o["dec_post"], real)
                continue

            # ---- a synchronisation of endpoint e
            e = o["ep"]
            pre = mshape(o["pre"])
            others_registered = any(v["account_url"] for n, v in records(pre).items() if n != e)
            ctx.case({"h": hist_canon(h), "step": o["step"], "k": "sync"}, nontrivial=others_registered)
            rtag = real_tag(post.get("result"), o["reqs"])
            ctx.count("M:sync:" + rtag)
            ctx.count("M:sync:requests=" + (",".join(q["kind"] + ("!" if q["answer"]["k"] != "account" and q["answer"]["k"] != "ok" else "")
                                                     for q in o["reqs"]) or "none"))
            if o["fault"]:
                ctx.count("M:fault:%s:%s" % (o["fault"], "fired" if any(x.get("rule") for x in o["raw"]) or
                                             (o["fault"].startswith("hook") and rtag in ("failed:saveAccount", "failed:?")) else "idle"))
            if others_registered:
                ctx.count("M:sync:with-other-endpoints-registered")
            stale_others = [n for n, v in records(pre).items() if n != e and v["account_url"]
                            and v["key_hash"] != pre["current_key_hash"]]
            if stale_others:
                ctx.count("M:sync:while-another-endpoint-awaits-its-roll-over")
            past_older = [q for q in o["reqs"] if q["kind"] == "keyChange" and pre["past_key_hashes"]
                          and q["signer"] != pre["past_key_hashes"][-1]]
            if past_older:
                ctx.count("M:sync:roll-over-signed-by-an-older-past-key")

            # correspondence
            problems = []
            if mo.get("tag") != rtag and not (rtag == "failed:?" and str(mo.get("tag")).startswith(("failed:", "unknownEndpoint"))):
                problems.append("outcome: model %s, real %s (%s)" % (mo.get("tag"), rtag, post.get("result")))
            if mo.get("requests") != o["reqs"]:
                problems.append("the request log of %s's CA differs from the model's requests" % e)
            if mo.get("answers_left"):
                problems.append("the real code sent %d more requests than the model" % mo["answers_left"])
            if canon(mo.get("account")) != canon(real):
                problems.append("the account in memory afterwards differs from the model's (some endpoint record or a shared field)")
            # GHOST: the key the CA of e holds for the account the record points to (compared when the real CA has
            # a live account there whose key is one of the account's keys, and so it was before)
            gpost, gpre, mg = o["ghost_post"].get(e, ""), o["ghost_pre"].get(e, ""), o.get("mghost", {}).get(e, "")
            pre_url = records(mshape(o["pre"])).get(e, {}).get("account_url", "")
            if gpost and (gpre or not pre_url):
                ctx.count("M:ghost:compared")
                if gpost != gpre:
                    ctx.count("M:ghost:moved" + (":without-2xx" if any(q["answer"]["k"] == "lost" for q in o["reqs"]) else ""))
                if mg != gpost:
                    problems.append("GHOST: the CA of %s holds key %s, the model's ghost says %s" % (e, gpost[:12], mg[:12] or "(none)"))
            saved = mo.get("saved")
            file_same = (o["pre"].get("file_hex") == post.get("file_hex"))
            if saved is None:
                if not file_same:
                    problems.append("the model saves nothing, the account file changed")
            elif canon(saved) != canon(o["dec_post"]):
                problems.append("the saved file (decoded by the model's decoder) differs from the model's `saved`")
            if problems:
                ctx.disagreements += 1
                ctx.broke("correspondence:sync-multi", "%s on %s: %s" % (name, e, "; ".join(problems)),
                          dict(rep, model=mo, real_account=real, real_file=o["dec_post"], model_in=o["min"]))

            # judged on the real behaviour
            why = []
            for n, x in sorted(o["others"].items()):
                if x["requests"]:
                    why.append("the synchronisation of %s sent %d requests to the CA of %s" % (e, x["requests"], n))
                if x["table_changed"]:
                    why.append("the synchronisation of %s changed the accounts held by the CA of %s" % (e, n))
            rb, ra = records(pre), records(real)
            if sorted(rb) != sorted(ra):
                why.append("the set of endpoint records changed: %s -> %s" % (sorted(rb), sorted(ra)))
            for n in sorted(rb):
                if n != e and n in ra and ra[n] != rb[n]:
                    why.append("the synchronisation of %s changed the record of %s in memory (%s)" % (
                        e, n, ",".join(k for k in rb[n] if rb[n][k] != ra[n].get(k))))
            if shared(pre) != shared(real):
                why.append("the synchronisation of %s changed a shared field (%s)" % (
                    e, ",".join(k for k in shared(pre) if shared(pre)[k] != shared(real).get(k))))
            if not file_same and isinstance(o["dec_post"], dict):
                rf = records(o["dec_post"])
                for n in sorted(rb):
                    if n != e and rf.get(n) != rb[n]:
                        why.append("the file written during the synchronisation of %s holds another record for %s than "
                                   "the one the account had" % (e, n))
                if shared(o["dec_post"]) != shared(pre):
                    why.append("the file written during the synchronisation of %s holds other shared fields" % e)
            # every POST of this synchronisation verifies under the key on record — except, after a keyChange
            # request that got no answer, up to the first request that is answered (Spec.C04Lost; one known finding)
            pv = getattr(r, "posts_verdict", {}).get(e)
            px = getattr(r, "posts_x", {}).get(e)
            if trusted and pv is not None and px is not None:
                lo, hi = o["log_range"]
                gidx_of = {id(ev): i for i, ev in enumerate(r.cas_log[e])} if hasattr(r, "cas_log") else {}
                answers_e = {ev["for"]: ev for ev in r.cas_log[e] if ev["kind"] == "ans"} if hasattr(r, "cas_log") else {}
                for i, (x, ok) in enumerate(zip(px, pv["req_ok"])):
                    pos = gidx_of.get(id(x["_src"]))
                    if pos is None or not (lo <= pos < hi):
                        continue
                    if pv["window"][i] and x["outer"] and not pv["strict_ok"][i] and ok:
                        ctx.count("M:lost:admitted-by-window")
                    if ok:
                        continue
                    src = x["_src"]
                    if src.get("account_forgotten") or not x.get("kid_ok", True) and x["kind"] == "other":
                        continue        # amnesia / an account the CA never had: judged by the clauses below
                    cur_fp = post["info"]["current"]["key_hash"]
                    if h.get("label") == kclost.FINDING2 and kclost.is_lost_then_edited_request(
                            lambda y: y.get("_signer_fp", "?") != "?", px, i):
                        ctx.count("M:lost:known-finding2-request")
                        ctx.violation("%s, synchronisation of %s: POST to %s does not verify under the key on record: the CA "
                                      "holds the key of a roll-over whose answer was lost, the key type was edited again, the "
                                      "client signs with the recorded and with the current key" % (name, e, src.get("path")),
                                      rep, klass=kclost.FINDING2)
                        continue
                    if kclost.is_finding_request(lambda y: y.get("_signer_fp") == cur_fp, px, i, answers_e):
                        ctx.count("M:lost:known-finding-request")
                        ctx.violation("%s, synchronisation of %s: POST to %s does not verify under the key on record: the "
                                      "account query signed by the current key, after the query signed by the recorded key was "
                                      "refused although it verified" % (name, e, src.get("path")), rep, klass=kclost.FINDING)
                        continue
                    why.append("POST #%d of the CA of %s (%s to %s, alg %s) %s: %s" % (
                        i, e, x["kind"], src.get("path"), x.get("alg"),
                        "does not verify under the key on record, nor (inside the window of an unanswered keyChange) under the "
                        "other key of that exchange" if pv["window"][i] else
                        "is not a valid, fresh, correctly bound JWS under the key on record (no keyChange request is unanswered)",
                        {k: x[k] for k in ("url_ok", "nonce_issued", "nonce_reused", "kid_ok", "sig_ok", "sig_ok_alt")}))
            if trusted:
                for q, x in zip(o["reqs"], o["raw"]):
                    if q["kind"] != "keyChange" or x["rule"]:
                        continue
                    if pv is not None and x.get("sig_ok") is False:
                        continue        # judged above (with the window)
                    if not x["kid_known"]:
                        why.append("a key roll-over names an account (%s) the CA of %s never created" % (q["kid"], e))
                    elif not x["forgotten"]:
                        if not x["sig_ok"]:
                            why.append("the key roll-over sent to %s does not verify under the key that CA has on record "
                                       "(outer JWS signed by %s)" % (e, q["signer"][:12]))
                        elif x["old_key_matches_record"] is False:
                            why.append("the key roll-over sent to %s names another oldKey than the key that CA has on record" % e)
                        if x["inner_sig_ok"] is False:
                            why.append("the inner JWS of the key roll-over sent to %s does not verify" % e)
            for q in o["reqs"]:
                if q["kind"] == "newAccount" and q["answer"]["k"] == "account":
                    uncertain[e] = bool(q["answer"]["existing"])
                if q["kind"] == "accountUpdate" and q["answer"]["k"] == "ok":
                    uncertain[e] = False
            if rtag == "ok" and trusted:
                rec = ra.get(e, {})
                if not rec.get("account_url"):
                    why.append("after the synchronisation no account URL is stored for %s" % e)
                if rec.get("key_hash") != real["current_key_hash"]:
                    why.append("after the synchronisation the key fingerprint of %s is not that of the current key" % e)
                if rec.get("contacts_hash") != real["contacts_hash"]:
                    why.append("after the synchronisation the contacts fingerprint of %s is not that of the configured contacts" % e)
                if real["eab_hash"] and rec.get("eab_hash") != real["eab_hash"]:
                    why.append("after the synchronisation the binding fingerprint of %s is not that of the configured binding" % e)
                held = o["ca_holds"]
                cur_jwk = post["info"]["current"]["jwk"]
                if held is None:
                    why.append("after the synchronisation the CA of %s never created the account at the stored URL" % e)
                elif not held["forgotten"]:     # amnesia is only found out by a request (none may have been due)
                    if held["jwk"] != cur_jwk:
                        why.append("after the synchronisation the CA of %s does not hold the current key" % e)
                    if not uncertain.get(e) and held["contacts"] != o["want_contacts"]:
                        why.append("after the synchronisation the CA of %s holds contacts %s, configured %s" % (
                            e, held["contacts"], o["want_contacts"]))
            if why:
                ctx.violation("%s, synchronisation of %s: %s" % (name, e, "; ".join(why)), rep)
            disk_is_memory = disk_matches(o["dec_post"], real)
        if not trusted:
            ctx.count("M:history:restart-on-a-file-older-than-memory")
    for h, r in list(zip(hists, runs))[:2]:
        ctx.sample({"part": "M", "history": describe(h),
                    "syncs": [{"step": o["step"], "ep": o["ep"], "outcome": (o.get("mout") or {}).get("tag"),
                               "requests": [(q["kind"], q["signer"][:8], q["answer"]["k"]) for q in o["reqs"]],
                               "other_CAs": o["others"]} for o in r.obs if o["kind"] == "sync"][:6]})
    return runs
